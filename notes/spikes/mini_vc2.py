"""THROW-AWAY design spike v2: same as mini_vc.py but boxed inputs are case-split by tag at entry,
so every query is over unboxed sorts (Int / FP64 / String). Not the verifier."""
import ast, sys, time, pathlib, itertools, fractions, z3
REPO = pathlib.Path(sys.argv[1] if len(sys.argv) > 1 else "/repo")
F64 = z3.Float64()
parse_float = z3.Function("parse_float", z3.StringSort(), F64)
obj_to_float = z3.Function("obj_to_float", z3.IntSort(), F64)
class V:   # tagged value: tag in none,bool,int,float,str,obj(<cls>),pybool(z3 Bool from a test)
    def __init__(s, tag, t=None): s.tag, s.t = tag, t
def fpconst(c): return z3.FPVal(c, F64)
def to_real_exact(v):
    if v.tag == "int": return z3.ToReal(v.t)
    if v.tag == "bool": return z3.If(v.t, z3.RealVal(1), z3.RealVal(0))
def cmp(op, a, b):
    num = {"int", "bool", "float"}
    assert a.tag in num and b.tag in num, (a.tag, b.tag)       # else Python raises TypeError
    def lift(v):   # numeral int/bool -> exact FP constant when representable
        if v.tag == "int" and z3.is_int_value(v.t) and abs(v.t.as_long()) < 2**53: return V("float", fpconst(float(v.t.as_long())))
        return v
    if a.tag == "float" or b.tag == "float": a, b = lift(a), lift(b)
    if a.tag == "float" and b.tag == "float":
        return {ast.Lt: z3.fpLT, ast.LtE: z3.fpLEQ, ast.Gt: z3.fpGT, ast.GtE: z3.fpGEQ, ast.Eq: z3.fpEQ}[op](a.t, b.t)
    def real_of(v):   # exact value; for symbolic floats: fpToReal guarded (NaN/inf handled by caller)
        return to_real_exact(v) if v.tag != "float" else z3.fpToReal(v.t)
    ra, rb = real_of(a), real_of(b)
    core = {ast.Lt: ra < rb, ast.LtE: ra <= rb, ast.Gt: ra > rb, ast.GtE: ra >= rb, ast.Eq: ra == rb}[op]
    guards = []
    for v, other_is_left in ((a, False), (b, True)):
        if v.tag == "float":   # int vs float: NaN -> False; +-inf ordered as usual
            nan = z3.fpIsNaN(v.t); pinf = z3.And(z3.fpIsInf(v.t), z3.fpIsPositive(v.t)); ninf = z3.And(z3.fpIsInf(v.t), z3.fpIsNegative(v.t))
            if v is b:  # a op b(float)
                inf_res = {ast.Lt: pinf, ast.LtE: pinf, ast.Gt: ninf, ast.GtE: ninf, ast.Eq: z3.BoolVal(False)}[op]
            else:       # a(float) op b
                inf_res = {ast.Lt: ninf, ast.LtE: ninf, ast.Gt: pinf, ast.GtE: pinf, ast.Eq: z3.BoolVal(False)}[op]
            core = z3.If(nan, False, z3.If(z3.fpIsInf(v.t), inf_res, core))
    return core
class P:
    def __init__(s, env, heap, pc): s.env, s.heap, s.pc = dict(env), dict(heap), list(pc)
class TypeErr(Exception): pass
class Exec:
    def __init__(s): s.res = []
    def block(s, stmts, p):
        if not stmts: s.res.append(("return", None, p)); return
        st, rest = stmts[0], stmts[1:]
        if isinstance(st, ast.Expr) and isinstance(st.value, ast.Constant): return s.block(rest, p)
        if isinstance(st, (ast.Assign, ast.AnnAssign)):
            tgt = st.targets[0] if isinstance(st, ast.Assign) else st.target
            try: val = s.expr(st.value, p)
            except TypeErr: s.res.append(("raise", "TypeError", p)); return
            if isinstance(tgt, ast.Name): p.env[tgt.id] = val
            else: p.heap[tgt.attr] = val
            return s.block(rest, p)
        if isinstance(st, ast.If):
            try: c = s.truth(s.expr(st.test, p))
            except TypeErr: s.res.append(("raise", "TypeError", p)); return
            for cond, body in ((c, st.body), (z3.Not(c), st.orelse)):
                q = P(p.env, p.heap, p.pc + [cond]); sol = z3.Solver(); sol.set("timeout", 5000); sol.add(*q.pc)
                if sol.check() != z3.unsat: s.block(list(body) + rest, q)
            return
        if isinstance(st, ast.Raise): s.res.append(("raise", st.exc.func.id, p)); return
        if isinstance(st, ast.Return): s.res.append(("return", None, p)); return
        raise NotImplementedError(type(st).__name__)
    def truth(s, v):
        if v.tag == "pybool": return v.t
        if v.tag == "none": return z3.BoolVal(False)
        if v.tag == "bool": return v.t
        if v.tag == "int": return v.t != 0
        if v.tag == "float": return z3.Not(z3.fpIsZero(v.t))
        if v.tag == "str": return z3.Length(v.t) > 0
        return z3.BoolVal(True)
    def expr(s, e, p):
        if isinstance(e, ast.Constant):
            c = e.value
            if c is None: return V("none")
            if isinstance(c, bool): return V("bool", z3.BoolVal(c))
            if isinstance(c, int): return V("int", z3.IntVal(c))
            if isinstance(c, float): return V("float", fpconst(c))
            return V("str", z3.StringVal(c))
        if isinstance(e, ast.Name): return p.env[e.id]
        if isinstance(e, ast.UnaryOp): return V("pybool", z3.Not(s.truth(s.expr(e.operand, p))))
        if isinstance(e, ast.BoolOp):   # short-circuit matters for TypeError: evaluate lazily
            acc = None
            vals = []
            for sub in e.values:
                try: vals.append(s.truth(s.expr(sub, p)))
                except TypeErr:
                    # reachable only if earlier operands did not short-circuit
                    prev = z3.And(*vals) if isinstance(e.op, ast.And) else z3.Not(z3.Or(*vals)) if vals else z3.BoolVal(True)
                    sol = z3.Solver(); sol.add(*p.pc); sol.add(prev)
                    if sol.check() != z3.unsat: raise
                    break
            return V("pybool", z3.And(*vals) if isinstance(e.op, ast.And) else z3.Or(*vals))
        if isinstance(e, ast.IfExp):
            c = s.truth(s.expr(e.test, p)); sol = z3.Solver(); sol.add(*p.pc); sol.add(c)
            take_a = sol.check() != z3.unsat; sol2 = z3.Solver(); sol2.add(*p.pc); sol2.add(z3.Not(c)); take_b = sol2.check() != z3.unsat
            if take_a and not take_b: return s.expr(e.body, p)
            if take_b and not take_a: return s.expr(e.orelse, p)
            a, b = s.expr(e.body, p), s.expr(e.orelse, p); assert a.tag == b.tag, "mixed-tag IfExp needs a path split"
            return V(a.tag, z3.If(c, a.t, b.t))
        if isinstance(e, ast.Compare):
            vs = [s.expr(x, p) for x in [e.left] + e.comparators]; out = []
            for op, a, b in zip(e.ops, vs, vs[1:]):
                if isinstance(op, (ast.Is, ast.IsNot)):
                    same = z3.BoolVal(a.tag == b.tag == "none"); out.append(same if isinstance(op, ast.Is) else z3.Not(same))
                else:
                    if not ({a.tag, b.tag} <= {"int", "bool", "float"}): raise TypeErr()
                    out.append(cmp(type(op), a, b))
            return V("pybool", z3.And(*out))
        if isinstance(e, ast.Call) and e.func.id == "isinstance":
            v = s.expr(e.args[0], p); names = set()
            def col(t):
                if isinstance(t, ast.BinOp): col(t.left); col(t.right)
                else: names.add(t.id)
            col(e.args[1])
            ok = (v.tag in ("int", "bool") and "int" in names) or (v.tag == "float" and "float" in names) or (v.tag == "str" and "str" in names) or (v.tag.startswith("obj:") and v.tag[4:] in names)
            return V("pybool", z3.BoolVal(ok))
        if isinstance(e, ast.Call) and e.func.id == "float":
            v = s.expr(e.args[0], p)
            if v.tag == "none": raise TypeErr()
            if v.tag == "float": return v
            if v.tag == "str": return V("float", parse_float(v.t))
            if v.tag.startswith("obj:"): return V("float", obj_to_float(v.t))
            return v      # float(int): numerically equal for |i| < 2**53 (side obligation in the real engine)
        raise NotImplementedError(ast.dump(e)[:100])
def find(path, qual):
    tree = ast.parse((REPO / path).read_text()); cls, name = qual.split(".")
    for c in tree.body:
        if isinstance(c, ast.ClassDef) and c.name == cls:
            want = ":" in name
            return [f for f in c.body if isinstance(f, ast.FunctionDef) and f.name == name.split(":")[0] and want == any(isinstance(d, ast.Attribute) and d.attr == "setter" for d in f.decorator_list)][0]
TAGS = ["none", "bool", "int", "float", "str", "obj:int64"]
def fresh(tag, name):
    return {"none": V("none"), "bool": V("bool", z3.Bool(name)), "int": V("int", z3.Int(name)), "float": V("float", z3.FP(name, F64)),
            "str": V("str", z3.String(name)), "obj:int64": V("obj:int64", z3.Int(name + "_ref"))}[tag]
def inv_range(lo, hi, lo_strict=False):
    def inv(v):
        if v.tag == "none": return z3.BoolVal(True)
        if v.tag not in ("int", "bool", "float"): return z3.BoolVal(False)
        lo_ok = cmp(ast.Gt if lo_strict else ast.GtE, v, V("float", fpconst(lo))); hi_ok = cmp(ast.LtE, v, V("float", fpconst(hi)))
        return z3.And(lo_ok, hi_ok)
    return inv
def check(title, path, qual, params, field, inv):
    fn = find(path, qual); t0 = time.time(); nq = 0; verdict = "discharged"; wit = None
    for tags in itertools.product(TAGS, repeat=len(params)):
        env = {"self": V("obj:self", z3.IntVal(0))}
        for prm, tg in zip(params, tags): env[prm] = fresh(tg, prm)
        ex = Exec(); ex.block(fn.body, P(env, {}, []))
        for kind, exc, p in ex.res:
            if kind != "return" or field not in p.heap: continue
            nq += 1; s = z3.Solver(); s.set("timeout", 10000); s.add(*p.pc); s.add(z3.Not(inv(p.heap[field]))); r = s.check()
            if r == z3.sat and verdict != "REFUTED":
                verdict = "REFUTED"; m = s.model(); wit = dict(tags=dict(zip(params, tags)), model={str(d): str(m[d]) for d in m.decls()})
            elif r == z3.unknown and verdict == "discharged": verdict = "undecided"
    print(f"{title:55s} queries={nq:3d} {verdict:10s} {time.time()-t0:5.2f}s", wit or "")
if __name__ == "__main__":
    E = "pyxel/detectors/environment.py"; C = "pyxel/detectors/characteristics.py"
    check("C12.ctor.valid[Environment].temperature", E, "Environment.__init__", ["temperature", "wavelength"], "_temperature", inv_range(0.0, 1000.0, True))
    check("C12.setter.valid[Environment.temperature]", E, "Environment.temperature:setter", ["value"], "_temperature", inv_range(0.0, 1000.0, True))
    check("C12.setter.valid[Characteristics.adc_bit_resolution]", C, "Characteristics.adc_bit_resolution:setter", ["value"], "_adc_bit_resolution", inv_range(4.0, 64.0))
    check("C12.setter.valid[Characteristics.pre_amplification]", C, "Characteristics.pre_amplification:setter", ["value"], "_pre_amplification", inv_range(0.0, 10000.0))
    check("C12.setter.valid[Characteristics.full_well_capacity]", C, "Characteristics.full_well_capacity:setter", ["value"], "_full_well_capacity", inv_range(0.0, 1.0e7))
