import numpy as np
LOG=[]
def probe(detector, tag="p", write=None):
    st = dict(tag=tag, time=detector.time, step=detector.time_step, abs=detector.absolute_time, cnt=detector.pipeline_count,
              first=detector.is_first_readout, last=detector.is_last_readout,
              photon=None if detector.photon._array is None else float(np.sum(detector.photon._array)),
              pixel=None if detector.pixel._array is None else float(np.sum(detector.pixel._array)),
              signal=detector.signal._array is None, image=detector.image._array is None, charge=float(detector.charge.array.sum()))
    LOG.append(st)
    if write is not None:
        detector.pixel.array = detector.pixel.array + write
        detector.signal.array = np.full(detector.geometry.shape, float(write))
        detector.image.array = np.full(detector.geometry.shape, 3, dtype=np.uint16)
