import sys; import os; sys.path.insert(0, os.path.dirname(os.path.abspath(__file__)))
import numpy as np, pyxel, warnings
warnings.simplefilter("ignore")
from pyxel.pipelines import DetectionPipeline, ModelFunction
from pyxel.detectors import CCD, CCDGeometry, Characteristics, Environment
from pyxel.exposure import Exposure, Readout
import probe_models
def run(nd):
    probe_models.LOG.clear()
    det = CCD(geometry=CCDGeometry(row=2,col=2), environment=Environment(), characteristics=Characteristics())
    pipe = DetectionPipeline(charge_collection=[ModelFunction(func="probe_models.probe", name="a", arguments={"tag":"a","write":1.0})],
                             photon_collection=[ModelFunction(func="probe_models.probe", name="b", arguments={"tag":"b"}), ModelFunction(func="probe_models.probe", name="c", arguments={"tag":"c"}, enabled=False)])
    ex = Exposure(readout=Readout(times=[1.0,3.0,7.0], start_time=0.5, non_destructive=nd))
    dt = pyxel.run_mode(mode=ex, detector=det, pipeline=pipe)
    for l in probe_models.LOG: print(l)
    print(dt["pixel"].values[:,0,0], dt["time"].values)
run(False); run(True)
from pyxel.detectors import Environment
print(Environment(temperature="-5")._temperature)
