import z3, time
def prove(name, hyps, goal, to=30000):
    s=z3.Solver(); s.set('timeout',to); s.add(*hyps); s.add(z3.Not(goal)); t=time.time(); r=s.check(); print(name, 'proved' if r==z3.unsat else r, round(time.time()-t,2))
    if r==z3.sat: print(s.model())
I=z3.IntSort(); R=z3.RealSort()
ay,ax,oy,ox,py,px = z3.Ints('ay ax oy ox py px')
arr = z3.Function('arr', I,I,R)
# intersect1d contract on ranges: overlap = [lo,hi) with lo=max(p,0), hi=min(p+a,o); size = max(0,hi-lo); first=lo; last=hi-1
def ov(p,a,o):
    lo=z3.If(p>0,p,0); hi=z3.If(p+a<o,p+a,o); return lo,hi
ylo,yhi=ov(py,ay,oy); xlo,xhi=ov(px,ax,ox)
hy=[ay>0,ax>0,oy>0,ox>0, yhi>ylo, xhi>xlo]   # non-empty overlaps (else raises)
# cropped = array[ylo-py : yhi-1+1-py, xlo-px : xhi-px]; output[ylo:yhi, xlo:xhi] = cropped
r,c=z3.Ints('r c')
# python slice semantics: need 0<= start <= stop <= len for no clamping/wrap
prove('slice bounds src', hy, z3.And(0<=ylo-py, ylo-py<=yhi-py, yhi-py<=ay, 0<=xlo-px, xhi-px<=ax))
prove('slice bounds dst', hy, z3.And(0<=ylo, yhi<=oy, 0<=xlo, xhi<=ox))
out = z3.If(z3.And(ylo<=r,r<yhi,xlo<=c,c<xhi), arr((r-ylo)+(ylo-py),(c-xlo)+(xlo-px)), 0)
spec = z3.If(z3.And(0<=r-py, r-py<ay, 0<=c-px, c-px<ax), arr(r-py,c-px), 0)
prove('placed', hy+[0<=r,r<oy,0<=c,c<ox], out==spec)
# reject iff no overlap
prove('reject iff disjoint', [ay>0,ax>0,oy>0,ox>0], (z3.Or(yhi<=ylo, xhi<=xlo)) == z3.Not(z3.Exists([r,c], z3.And(0<=r,r<oy,0<=c,c<ox,0<=r-py,r-py<ay,0<=c-px,c-px<ax))))
