"""THROW-AWAY design spike: pointwise 'rnd'-mode VC generated mechanically from the real source of
apply_simple_adc (expression AST -> term with fl() around every float operation), quantified IEEE axioms.
usage: mini_adc.py [repo_root]"""
import ast, sys, time, pathlib, z3
REPO = pathlib.Path(sys.argv[1] if len(sys.argv) > 1 else "/repo")
R = z3.RealSort(); fl = z3.Function("fl", R, R)
u = z3.RealVal(1) / z3.RealVal(2**53)
absr = lambda t: z3.If(t >= 0, t, -t)
def trunc(t):   # round toward zero, as a real
    fl_ = z3.ToReal(z3.ToInt(t)); ce = -z3.ToReal(z3.ToInt(-t))
    return z3.If(t >= 0, fl_, ce)
def fl_terms(es):
    seen = {}; 
    def walk(t):
        if z3.is_app(t):
            if t.decl().name() == "fl": seen[t.get_id()] = t
            for c in t.children(): walk(c)
    for e in es: walk(e)
    return list(seen.values())
def ground_axioms(es):
    ts = fl_terms(es); ax = [fl(0) == 0, fl(1) == 1]
    nums = {}
    def walkn(t):
        if z3.is_rational_value(t) and t.as_fraction().denominator == 1 and abs(t.as_fraction()) <= 2**53: nums[t.get_id()] = t
        if z3.is_app(t):
            for c in t.children(): walkn(c)
    for e in es: walkn(e)
    for n in nums.values(): ax.append(fl(n) == n)          # integers up to 2^53 are representable
    for t in ts:
        a = t.arg(0); ax.append(z3.And(t - a <= u * absr(a), a - t <= u * absr(a)))
        ax.append(z3.Implies(a >= 0, t >= 0)); ax.append(z3.Implies(a <= 0, t <= 0))
    for t1 in ts:
        for t2 in ts:
            if t1.get_id() != t2.get_id(): ax.append(z3.Implies(t1.arg(0) <= t2.arg(0), t1 <= t2))
    return ax
def get_expr():
    tree = ast.parse((REPO / "pyxel/models/readout_electronics/simple_adc.py").read_text())
    fn = [f for f in tree.body if isinstance(f, ast.FunctionDef) and f.name == "apply_simple_adc"][0]
    assign = [s for s in fn.body if isinstance(s, ast.Assign)][0]; ret = [s for s in fn.body if isinstance(s, ast.Return)][0]
    return assign.value, ret.value
def ev(e, env, facts):
    if isinstance(e, ast.Name): return env[e.id]
    if isinstance(e, ast.Constant): return z3.RealVal(e.value)
    if isinstance(e, ast.BinOp):
        a, b = ev(e.left, env, facts), ev(e.right, env, facts)
        if isinstance(e.op, ast.Pow): assert z3.is_rational_value(a) and z3.is_rational_value(b); return z3.RealVal(a.as_fraction() ** int(b.as_fraction()))
        exact_int = all(z3.is_rational_value(t) and t.as_fraction().denominator == 1 for t in (a, b))
        r = {ast.Sub: a - b, ast.Add: a + b, ast.Mult: a * b, ast.Div: a / b}[type(e.op)]
        if exact_int and not isinstance(e.op, ast.Div): return z3.simplify(r)          # python int arithmetic: exact
        if z3.is_rational_value(a) and a.as_fraction().denominator == 1 and abs(a.as_fraction()) >= 2**53: a = fl(a)   # int -> float64 conversion rounds
        if z3.is_rational_value(b) and b.as_fraction().denominator == 1 and abs(b.as_fraction()) >= 2**53: b = fl(b)
        r = {ast.Sub: a - b, ast.Add: a + b, ast.Mult: a * b, ast.Div: a / b}[type(e.op)]
        return fl(r)
    if isinstance(e, ast.Call):
        name = ast.unparse(e.func)
        if name == "np.clip":
            v = ev(e.args[0], env, facts); kw = {k.arg: ev(k.value, env, facts) for k in e.keywords}
            return z3.If(v < kw["a_min"], kw["a_min"], z3.If(v > kw["a_max"], kw["a_max"], v))
        if name == "np.trunc": return trunc(ev(e.args[0], env, facts))
        if name.endswith(".astype"): return ev(e.func.value, env, facts)       # exact for in-range integers (separate obligation)
    raise NotImplementedError(ast.dump(e)[:100])
def prove(hyps, goal, to=20000, extra=()):
    s = z3.Solver(); s.set("timeout", to); s.add(*ground_axioms(list(hyps) + [goal] + list(extra))); s.add(*hyps); s.add(z3.Not(goal)); return s.check()
def run(bits):
    out_e, ret_e = get_expr(); v1, v2, lo, hi = z3.Reals("v1 v2 lo hi"); K = z3.RealVal(2**bits - 1)
    def code(v):
        env = {"signal": v, "voltage_min": lo, "voltage_max": hi, "bit_resolution": z3.RealVal(bits)}
        env["output"] = ev(out_e, env, []); return ev(ret_e, env, [])
    c1, c2 = code(v1), code(v2); hy = [lo < hi, fl(hi - lo) > 0]
    res = {}
    res["range"] = prove(hy, z3.And(c1 >= 0, c1 <= K))
    res["low"] = prove(hy + [v1 <= lo], c1 == 0)
    res["monotone"] = prove(hy + [v1 <= v2], c1 <= c2)
    res["full_scale"] = prove(hy + [v1 >= hi], c1 == K)
    return res
if __name__ == "__main__":
    t0 = time.time()
    for b in (4, 8, 16, 32, 52, 53, 54, 64):
        t = time.time(); r = run(b); print(b, {k: ("proved" if v == z3.unsat else str(v)) for k, v in r.items()}, round(time.time() - t, 2), "s")
    print("total", round(time.time() - t0, 1))
