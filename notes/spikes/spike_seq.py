import z3, time
def prove(name, hyps, goal, to=30000):
    s=z3.Solver(); s.set('timeout',to); s.add(*hyps); s.add(z3.Not(goal)); t=time.time(); r=s.check(); print(name, 'proved' if r==z3.unsat else r, round(time.time()-t,2))
    if r==z3.sat: print(s.model())
I=z3.IntSort()
Model = z3.DeclareSort('Model')
enabled = z3.Function('enabled', Model, z3.BoolSort())
SeqM = z3.SeqSort(Model)
models = z3.Const('models', SeqM)
# spec: filt(k) = enabled subsequence of models[:k]
filt = z3.RecFunction('filt', SeqM, I, SeqM)
ms=z3.Const('ms',SeqM); k=z3.Int('k')
z3.RecAddDefinition(filt, [ms,k], z3.If(k<=0, z3.Empty(SeqM), z3.If(enabled(ms[k-1]), z3.Concat(filt(ms,k-1), z3.Unit(ms[k-1])), filt(ms,k-1))))
trace0=z3.Const('trace0',SeqM); trace=z3.Const('trace',SeqM); i=z3.Int('i')
inv = lambda tr,j: z3.And(0<=j, j<=z3.Length(models), tr==z3.Concat(trace0, filt(models,j)))
m = models[i]
tr2 = z3.If(enabled(m), z3.Concat(trace, z3.Unit(m)), trace)
prove('inv preserved', [inv(trace,i), i<z3.Length(models)], inv(tr2,i+1))
prove('inv init', [], inv(trace0,z3.IntVal(0)))
# group order: concatenation over 10 groups unrolled: trivial by seq equality
# (d) strings
S=z3.StringSort()
key=z3.String('key'); G=z3.String('G'); M=z3.String('M'); A=z3.String('A')
hy=[key==z3.Concat(z3.StringVal('pipeline.'),G,z3.StringVal('.'),M,z3.StringVal('.arguments.'),A), z3.Not(z3.Contains(G,z3.StringVal('.'))), z3.Not(z3.Contains(M,z3.StringVal('.')))]
idx=z3.IndexOf(key, z3.StringVal('.arguments'), 0)
model_name=z3.SubString(key,0,idx)
prove('validate_steps model prefix', hy, model_name==z3.Concat(z3.StringVal('pipeline.'),G,z3.StringVal('.'),M), to=60000)
