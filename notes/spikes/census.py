import ast, sys, pathlib, collections, re
sys.path.insert(0,'/verif/notes'); from targets import T
def funcs_of(path):
    t=ast.parse(pathlib.Path('/repo',path).read_text()); out={}
    def walk(node,prefix):
        for n in node.body:
            if isinstance(n,(ast.FunctionDef,)):
                out[(prefix+'.' if prefix else '')+n.name]=n
                walk_f(n,(prefix+'.' if prefix else '')+n.name)
            elif isinstance(n,ast.ClassDef): walk(n,(prefix+'.' if prefix else '')+n.name)
    def walk_f(fn,prefix):
        for n in ast.walk(fn):
            if n is not fn and isinstance(n,ast.FunctionDef): out[prefix+'.<nested>.'+n.name]=n
    walk(t,''); return out
nodes=collections.Counter(); calls=collections.Counter(); nfun=0; lines=0; seen=set(); perprop={}
def callee(c):
    f=c.func
    parts=[]
    while isinstance(f,ast.Attribute): parts.append(f.attr); f=f.value
    if isinstance(f,ast.Name): parts.append(f.id)
    else: parts.append('<expr>')
    return '.'.join(reversed(parts))
for prop,lst in T.items():
    cnt=0
    for item in lst:
        path,q=item.split('::')
        if '**' in path: continue
        fs=funcs_of(path)
        sel=[k for k in fs if q=='*' or k==q or (q.endswith('.*') and k.startswith(q[:-1])) ]
        if not sel: print('NOT FOUND',item)
        for k in sel:
            cnt+=1
            if (path,k) in seen: continue
            seen.add((path,k)); fn=fs[k]; nfun+=1; lines+=(fn.end_lineno-fn.lineno+1)
            for n in ast.walk(fn):
                nodes[type(n).__name__]+=1
                if isinstance(n,ast.Call): calls[callee(n)]+=1
    perprop[prop]=cnt
print('functions',nfun,'source lines',lines); print(perprop)
print('NODE TYPES:', sorted(nodes.items(), key=lambda x:-x[1]))
print('CALLEES (top 140):')
for k,v in calls.most_common(140): print(f'  {v:4d} {k}')
