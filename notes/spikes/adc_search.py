import numpy as np
rng=np.random.default_rng(0)
for b in (4,8,12,16,32):
    K=float(2**b-1)
    # d near 2^m/K so that d*K just above power of two
    base = 1.0/K
    d = base*(1+rng.random(5_000_000)*2e-15) * 4.0
    q = (d*K)/d
    bad = np.flatnonzero(np.trunc(q) < K)
    print(b, len(bad), (d[bad[0]].hex(), q[bad[0]]) if len(bad) else None)
