"""THROW-AWAY design spike (not the verifier): mechanical AST -> VC for straight-line validation code.

Reads the *real* source of Environment.__init__ / setters and Characteristics setters from /repo,
executes them symbolically (if / raise / return / self._x = e / isinstance / float() / comparisons,
boxed values, IEEE-754 comparisons via z3 FP) and checks the C12 class invariant on normal exit.
"""
import ast, sys, time, pathlib, z3

REPO = pathlib.Path(sys.argv[1] if len(sys.argv) > 1 else "/repo")
F64 = z3.Float64()

# ---- boxed Python values ---------------------------------------------------------------
PyVal = z3.Datatype("PyVal")
PyVal.declare("none")
PyVal.declare("bool", ("b", z3.BoolSort()))
PyVal.declare("int", ("i", z3.IntSort()))
PyVal.declare("float", ("f", F64))
PyVal.declare("str", ("s", z3.StringSort()))
PyVal.declare("obj", ("cls", z3.StringSort()), ("ref", z3.IntSort()))
PyVal = PyVal.create()
parse_float = z3.Function("parse_float", z3.StringSort(), F64)        # float("...") when it parses
obj_to_float = z3.Function("obj_to_float", z3.IntSort(), F64)          # float(np.int64(..)) etc.
int_to_fp = lambda i: z3.fpToFP(z3.RNE(), z3.ToReal(i), F64)

def as_fp(v):
    """numeric view of a boxed value for comparisons (only valid under the right tag)."""
    return z3.If(PyVal.is_float(v), PyVal.f(v), z3.If(PyVal.is_int(v), int_to_fp(PyVal.i(v)),
           z3.If(PyVal.is_bool(v), z3.If(PyVal.b(v), z3.FPVal(1.0, F64), z3.FPVal(0.0, F64)), z3.FPVal(0.0, F64))))
def is_num(v): return z3.Or(PyVal.is_float(v), PyVal.is_int(v), PyVal.is_bool(v))

class Raise(Exception):
    def __init__(self, kind): self.kind = kind

class Path:
    def __init__(self, env, heap, pc): self.env, self.heap, self.pc = dict(env), dict(heap), list(pc)

class Exec:
    """Enumerates paths; each ends ('return', path) or ('raise', kind, path)."""
    def __init__(self): self.results = []; self.unsupported = []
    def run(self, fn, env):
        self.block(fn.body, Path(env, {}, []), lambda p: self.results.append(("return", None, p)))
        return self.results
    def block(self, stmts, path, k):
        if not stmts: return k(path)
        s, rest = stmts[0], stmts[1:]
        cont = lambda p: self.block(rest, p, k)
        if isinstance(s, ast.Expr) and isinstance(s.value, ast.Constant): return cont(path)     # docstring
        if isinstance(s, (ast.Assign, ast.AnnAssign)):
            tgt = s.targets[0] if isinstance(s, ast.Assign) else s.target
            val = self.expr(s.value, path)
            if isinstance(tgt, ast.Name): path.env[tgt.id] = val
            elif isinstance(tgt, ast.Attribute) and isinstance(tgt.value, ast.Name) and tgt.value.id == "self":
                path.heap[tgt.attr] = val
            else: raise NotImplementedError(ast.dump(tgt))
            return cont(path)
        if isinstance(s, ast.If):
            c = self.truth(self.expr(s.test, path))
            for cond, body in ((c, s.body), (z3.Not(c), s.orelse)):
                p = Path(path.env, path.heap, path.pc + [cond])
                if self.feasible(p): self.block(list(body) + rest, p, k)
            return
        if isinstance(s, ast.Raise):
            kind = s.exc.func.id if isinstance(s.exc, ast.Call) else s.exc.id
            self.results.append(("raise", kind, path)); return
        if isinstance(s, ast.Return):
            self.results.append(("return", None, path)); return
        raise NotImplementedError(type(s).__name__)
    def feasible(self, p):
        s = z3.Solver(); s.set("timeout", 5000); s.add(*p.pc); return s.check() != z3.unsat
    # expressions -> boxed PyVal terms or python-level z3 Bool (wrapped)
    def truth(self, v):
        if z3.is_bool(v): return v
        return z3.If(PyVal.is_none(v), False, z3.If(PyVal.is_bool(v), PyVal.b(v), z3.If(PyVal.is_int(v), PyVal.i(v) != 0,
               z3.If(PyVal.is_float(v), z3.Not(z3.fpIsZero(PyVal.f(v))), z3.If(PyVal.is_str(v), z3.Length(PyVal.s(v)) > 0, True)))))
    def expr(self, e, path):
        if isinstance(e, ast.Constant):
            c = e.value
            if c is None: return PyVal.none
            if isinstance(c, bool): return PyVal.bool(c)
            if isinstance(c, int): return PyVal.int(c)
            if isinstance(c, float): return PyVal.float(z3.FPVal(c, F64))
            if isinstance(c, str): return PyVal.str(z3.StringVal(c))
        if isinstance(e, ast.Name): return path.env[e.id]
        if isinstance(e, ast.UnaryOp) and isinstance(e.op, ast.Not): return z3.Not(self.truth(self.expr(e.operand, path)))
        if isinstance(e, ast.BoolOp):
            vs = [self.truth(self.expr(v, path)) for v in e.values]       # only used in boolean context here
            return z3.And(*vs) if isinstance(e.op, ast.And) else z3.Or(*vs)
        if isinstance(e, ast.IfExp):
            c = self.truth(self.expr(e.test, path)); a = self.expr(e.body, path); b = self.expr(e.orelse, path)
            return z3.If(c, a, b)
        if isinstance(e, ast.Compare):
            terms = [self.expr(x, path) for x in [e.left] + e.comparators]; out = []
            for op, a, b in zip(e.ops, terms, terms[1:]):
                if isinstance(op, ast.Is): out.append(a == b)
                elif isinstance(op, ast.IsNot): out.append(a != b)
                else:
                    # numeric comparison: both operands must be numbers, else Python raises TypeError (ignored: pre)
                    path.pc.append(z3.And(is_num(a), is_num(b)))
                    fa, fb = as_fp(a), as_fp(b)
                    out.append({ast.Lt: z3.fpLT, ast.LtE: z3.fpLEQ, ast.Gt: z3.fpGT, ast.GtE: z3.fpGEQ, ast.Eq: z3.fpEQ}[type(op)](fa, fb))
            return z3.And(*out)
        if isinstance(e, ast.Call) and isinstance(e.func, ast.Name):
            if e.func.id == "isinstance":
                v = self.expr(e.args[0], path); names = set()
                def collect(t):
                    if isinstance(t, ast.BinOp): collect(t.left); collect(t.right)
                    else: names.add(t.id)
                collect(e.args[1])
                alts = []
                if "int" in names: alts += [PyVal.is_int(v), PyVal.is_bool(v)]       # bool is an int
                if "float" in names: alts.append(PyVal.is_float(v))
                if "str" in names: alts.append(PyVal.is_str(v))
                for n in names - {"int", "float", "str"}: alts.append(z3.And(PyVal.is_obj(v), PyVal.cls(v) == z3.StringVal(n)))
                return z3.Or(*alts)
            if e.func.id == "float":
                v = self.expr(e.args[0], path)
                path.pc.append(z3.Not(PyVal.is_none(v)))                             # float(None) raises TypeError
                return PyVal.float(z3.If(PyVal.is_str(v), parse_float(PyVal.s(v)),
                                    z3.If(PyVal.is_obj(v), obj_to_float(PyVal.ref(v)), as_fp(v))))
        raise NotImplementedError(ast.dump(e)[:120])

def find(path, qual):
    tree = ast.parse((REPO / path).read_text()); cls, name = qual.split(".")
    for c in tree.body:
        if isinstance(c, ast.ClassDef) and c.name == cls:
            fs = [f for f in c.body if isinstance(f, ast.FunctionDef) and f.name == name.split(":")[0]]
            if ":" in name:   # setter
                fs = [f for f in fs if any(isinstance(d, ast.Attribute) and d.attr == "setter" for d in f.decorator_list)]
            else:
                fs = [f for f in fs if not any(isinstance(d, ast.Attribute) and d.attr == "setter" for d in f.decorator_list)]
            return fs[0]
    raise KeyError(qual)

def in_range(v, lo, hi, lo_strict=False, hi_inf=False):
    """class-invariant atom: field is None or a float within range (NaN excluded)."""
    f = as_fp(v); lo_ok = (z3.fpGT if lo_strict else z3.fpGEQ)(f, z3.FPVal(lo, F64))
    hi_ok = z3.BoolVal(True) if hi_inf else z3.fpLEQ(f, z3.FPVal(hi, F64))
    return z3.Or(PyVal.is_none(v), z3.And(is_num(v), lo_ok, hi_ok))

def check(title, path, qual, params, field, inv):
    fn = find(path, qual); t = time.time()
    env = {"self": PyVal.obj(z3.StringVal("self"), 0)}
    for p in params: env[p] = z3.Const(p, PyVal)
    ex = Exec(); res = ex.run(fn, env); nret = 0; verdict = "discharged"; model = None
    for kind, exc, p in res:
        if kind != "return" or field not in p.heap: continue
        nret += 1
        s = z3.Solver(); s.set("timeout", 20000); s.add(*p.pc); s.add(z3.Not(inv(p.heap[field])))
        r = s.check()
        if r == z3.sat: verdict = "REFUTED"; model = {d.name(): s.model()[d] for d in s.model().decls() if d.name() in params}
        elif r != z3.unsat and verdict == "discharged": verdict = "undecided"
    print(f"{title:55s} paths={len(res):2d} normal={nret} {verdict:10s} {time.time()-t:5.2f}s", model or "")

if __name__ == "__main__":
    E = "pyxel/detectors/environment.py"; C = "pyxel/detectors/characteristics.py"
    check("C12.ctor.valid[Environment].temperature", E, "Environment.__init__", ["temperature", "wavelength"], "_temperature", lambda v: in_range(v, 0.0, 1000.0, lo_strict=True))
    check("C12.setter.valid[Environment.temperature]", E, "Environment.temperature:setter", ["value"], "_temperature", lambda v: in_range(v, 0.0, 1000.0, lo_strict=True))
    check("C12.setter.valid[Characteristics.adc_bit_resolution]", C, "Characteristics.adc_bit_resolution:setter", ["value"], "_adc_bit_resolution", lambda v: in_range(v, 4.0, 64.0))
    check("C12.setter.valid[Characteristics.pre_amplification]", C, "Characteristics.pre_amplification:setter", ["value"], "_pre_amplification", lambda v: in_range(v, 0.0, 10000.0))
    check("C12.setter.valid[Characteristics.full_well_capacity]", C, "Characteristics.full_well_capacity:setter", ["value"], "_full_well_capacity", lambda v: in_range(v, 0.0, 1.0e7))
