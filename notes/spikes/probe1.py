import numpy as np, warnings, tempfile, os
warnings.simplefilter("ignore")
from pyxel.detectors import CCD, CCDGeometry, Characteristics, Environment, CMOS, CMOSGeometry, MKID, MKIDGeometry
from pyxel.data_structure import Photon, Pixel
def ccd(r=3,c=4): return CCD(geometry=CCDGeometry(row=r,col=c,pixel_vert_size=10.,pixel_horz_size=10.,total_thickness=10.), environment=Environment(temperature=100), characteristics=Characteristics(adc_bit_resolution=8, adc_voltage_range=(0.,5.)))
d=ccd()
# C13 eq
a=Pixel(d.geometry); b=Pixel(d.geometry); b.array=np.ones((3,4))
print("C13 empty==nonempty:", a==b)
try: print("C13 nonempty==empty:", b==a)
except Exception as e: print("C13 nonempty==empty raises", type(e).__name__)
p=Photon(d.geometry); p += np.ones((2,2),dtype=int); print("C13 photon iadd on empty wrong shape/dtype accepted:", p.shape, p.dtype)
# C12
ch=Characteristics(adc_bit_resolution=8); ch.adc_bit_resolution=100; print("C12 adc_bit_resolution setter accepted", ch.adc_bit_resolution)
try: Characteristics(adc_bit_resolution=100)
except ValueError as e: print("C12 ctor rejects:", e)
g=CCDGeometry(row=3,col=3,pixel_scale=-5.0); print("C12 pixel_scale ctor accepts -5:", g.pixel_scale)
try: g.pixel_scale=-5.0
except ValueError as e: print("C12 pixel_scale setter rejects:", e)
# C14
d=ccd(); d.charge.add_charge(particle_type="e", particles_per_cluster=np.array([7.]), init_energy=np.array([0.]), init_ver_position=np.array([-5.]), init_hor_position=np.array([5.]), init_z_position=np.array([0.]), init_ver_velocity=np.array([0.]), init_hor_velocity=np.array([0.]), init_z_velocity=np.array([0.]))
print("C14 cluster at ver=-5um credited to:", np.argwhere(d.charge.array>0).tolist())
# C11
from pyxel.calibration.util import check_fit_ranges, FitRange2D, FitRange3D, to_fit_range
try:
    check_fit_ranges(FitRange2D(slice(0,5),slice(0,5)), FitRange3D(slice(None),slice(2,5),slice(0,5)), rows=10, cols=10); print("C11 unequal extents (0:5 vs 2:5) accepted")
except Exception as e: print("C11 rejected", e)
try:
    check_fit_ranges(FitRange2D(slice(0,5),slice(0,5)), FitRange3D(slice(None),slice(2,7),slice(0,5)), rows=10, cols=10); print("C11 equal extents shifted accepted")
except Exception as e: print("C11 equal extents shifted (0:5 vs 2:7) rejected:", e)
try:
    check_fit_ranges(to_fit_range(None), FitRange3D.from_sequence([]), rows=10, cols=10); print("C11 default None ranges accepted")
except Exception as e: print("C11 default ranges raise:", type(e).__name__, e)
# C18 load_detector
from pyxel.models import load_detector, save_detector
with tempfile.TemporaryDirectory() as t:
    d1=ccd(); d1.pixel.array=np.full((3,4),7.0); d1.save(os.path.join(t,"d.asdf"))
    d2=ccd(); d2.pixel.array=np.zeros((3,4)); load_detector(d2, os.path.join(t,"d.asdf")); print("C18 load_detector pixel after load (expect 7):", d2.pixel.array[0,0])
    m=MKID(geometry=MKIDGeometry(row=2,col=2), environment=Environment(), characteristics=Characteristics()); m.phase.array=np.ones((2,2)); m.save(os.path.join(t,"m.asdf")); m2=MKID.load(os.path.join(t,"m.asdf")); print("C18 MKID phase restored:", m2.phase._array is not None)
# C20 cache
from pyxel.util import load_cropped_and_aligned_image
with tempfile.TemporaryDirectory() as t:
    f=os.path.join(t,"a.npy"); np.save(f,np.ones((3,4))); x=load_cropped_and_aligned_image(shape=(3,4),filename=f).copy(); np.save(f,np.full((3,4),2.)); y=load_cropped_and_aligned_image(shape=(3,4),filename=f); print("C20 stale after rewrite:", x[0,0], y[0,0])
# C15 persistence
from pyxel.models.charge_collection.persistence import compute_simple_persistence
pix=np.full((1,1),1000.0); tr=np.zeros((2,1,1)); 
# first a big capture step then check sum
tot0=pix.sum()+tr.sum()
newpix,newtr=compute_simple_persistence(pixel_array=pix.copy(), all_trapped_charge=tr.copy(), trap_densities=np.array([0.5,0.4]), trap_time_constants=np.array([1.,1.]), delta_t=1.0, trap_capacities=np.array([10.,10.]))
print("C15 persistence total before/after:", tot0, newpix.sum()+newtr.sum(), newpix, newtr.ravel())
