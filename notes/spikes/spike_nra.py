import z3, time
def prove(name, hyps, goal, to=30000):
    s=z3.Solver(); s.set('timeout',to); s.add(*hyps); s.add(z3.Not(goal)); t=time.time(); r=s.check(); print(name, 'proved' if r==z3.unsat else r, round(time.time()-t,2)); 
    if r==z3.sat: print(s.model())
R=z3.Real
# (a) CDM: nc <= a, nr in [0,no]
a,no,g,P,E,beta = R('a'),R('no'),R('g'),R('P'),R('E'),R('beta')
powb = z3.Function('pow', z3.RealSort(), z3.RealSort(), z3.RealSort())
hyps=[a>0.01, no>=0, g>=0, 0<=E, E<1, powb(a,beta-1)>0, powb(a,beta)==a*powb(a,beta-1)]
expr = (g*powb(a,beta)-no)/(g*powb(a,beta-1)+1)*E
nc = z3.If(expr>=0, expr, 0)
prove('cdm nc<=a', hyps, nc<=a)
prove('cdm nc>=0', hyps, nc>=0)
# conservation step
Er=R('Er'); nr=(no+nc)*Er
prove('cdm step conserve', hyps+[0<=Er,Er<=1], z3.And((a-nc+nr)+((no+nc)-nr)==a+no, (no+nc)-nr>=0, a-nc+nr>=0))
# (b) ADC abstract float, concrete b
fl = z3.Function('fl', z3.RealSort(), z3.RealSort())
x,y = R('x'),R('y')
u = z3.RealVal(1)/z3.RealVal(2**53)
def adc_bound(b):
    K = z3.RealVal(2**b-1)
    v,lo,hi = R('v'),R('lo'),R('hi')
    c = z3.If(v<lo, lo, z3.If(v>hi, hi, v))
    s1 = fl(c-lo); d = fl(hi-lo); p = fl(s1*K); q = fl(p/d)
    ax = []
    # instantiate axioms manually (monotone wrt specific pairs; rel error bound)
    def mono(t1,t2): return z3.Implies(t1<=t2, fl(t1)<=fl(t2))
    def relerr(t): return z3.And(fl(t)<=t+u*z3.If(t>=0,t,-t), fl(t)>=t-u*z3.If(t>=0,t,-t))
    ax += [fl(0)==0, mono(c-lo, hi-lo), mono(0, c-lo), mono(s1*K, d*K), mono(0,s1*K), relerr(d*K), mono(p/d, fl(d*K)/d), mono(0,p/d), relerr(fl(d*K)/d)]
    hyp = [lo<hi, d>0]
    prove(f'adc b={b} q<K+1', ax+hyp, z3.And(q>=0, q<K+1), to=60000)
for b in (4,16,32,52,53): adc_bound(b)
