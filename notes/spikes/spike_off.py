import z3, time
def prove(name, hyps, goal, to=30000):
    s=z3.Solver(); s.set('timeout',to); s.add(*hyps); s.add(z3.Not(goal)); t=time.time(); r=s.check(); print(name, 'proved' if r==z3.unsat else r, round(time.time()-t,2))
    if r==z3.sat: print(s.model())
I=z3.IntSort(); R=z3.RealSort(); B=z3.BoolSort()
n=z3.Int('n')
width=z3.Function('width',I,I)      # width of variable k (1 or len(values))
islog=z3.Function('islog',I,B)
off=z3.RecFunction('off',I,I); k=z3.Int('k')
z3.RecAddDefinition(off,[k], z3.If(k<=0,0,off(k-1)+width(k-1)))
# owner(j): which variable owns component j -- spec via quantifier-free reasoning at a symbolic component j
d=z3.Array('d',I,R)      # decision vector
p=z3.Array('p',I,R)      # parameters being built (loop state)
pow10=z3.Function('pow10',R,R)
# loop invariant at iteration v (a == off(v)):  forall j< off(v): p[j] == (pow10(d[j]) if islog(owner j) else d[j]); forall j>=off(v): p[j]==d[j]
# we express invariant with explicit owner function + axiom owner(j)=k <-> off(k)<=j<off(k+1)
owner=z3.Function('owner',I,I)
j=z3.Int('j')
spec=lambda arr,jj: z3.If(islog(owner(jj)), pow10(d[jj]), d[jj])
v=z3.Int('v'); a=z3.Int('a')
inv=lambda P,V,A: z3.And(0<=V, V<=n, A==off(V), z3.ForAll([j], z3.Implies(z3.And(0<=j,j<A), P[j]==spec(P,j))), z3.ForAll([j], z3.Implies(j>=A, P[j]==d[j])))
ax=[z3.ForAll([k], width(k)>=1), z3.ForAll([j,k], z3.Implies(z3.And(0<=k, off(k)<=j, j<off(k+1)), owner(j)==k))]
# body: b=width(v); if islog(v): p[a:a+b] = pow10(p[a:a+b]) ; a+=b
b=width(v)
p2=z3.Array('p2',I,R)
body=[z3.ForAll([j], p2[j]==z3.If(z3.And(islog(v), a<=j, j<a+b), pow10(p[j]), p[j]))]
prove('convert_to_parameters inv preserved', ax+[inv(p,v,a), v<n]+body, inv(p2,v+1,a+b), to=60000)
