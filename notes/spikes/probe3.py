import sys; import os; sys.path.insert(0, os.path.dirname(os.path.abspath(__file__)))
import numpy as np, warnings, tempfile, os, glob
warnings.simplefilter("ignore")
import pyxel
from pyxel.detectors import APD, APDGeometry, APDCharacteristics, Environment, CCD, CCDGeometry, Characteristics
from pyxel.pipelines import DetectionPipeline, ModelFunction
from pyxel.observation import Observation, ParameterValues
from pyxel.outputs import ObservationOutputs
from pyxel.exposure import Readout
# C18 APD
ch = APDCharacteristics(roic_gain=0.8, avalanche_gain=2.0, pixel_reset_voltage=5.0, adc_bit_resolution=16, adc_voltage_range=(0.,5.), quantum_efficiency=0.5, full_well_capacity=1000.)
ch.avalanche_gain = 10.0
ch2 = APDCharacteristics.from_dict(ch.to_dict())
print("C18 APD gain after setter / reloaded:", ch.avalanche_gain, ch2.avalanche_gain)
# C19 sequential observation files
import probe_models
with tempfile.TemporaryDirectory() as t:
    det = CCD(geometry=CCDGeometry(row=2,col=2), environment=Environment(), characteristics=Characteristics(adc_bit_resolution=16, adc_voltage_range=(0.,5.)))
    pipe = DetectionPipeline(charge_collection=[ModelFunction(func="probe_models.probe", name="a", arguments={"tag":"a","write":1.0})])
    obs = Observation(parameters=[ParameterValues(key="pipeline.charge_collection.a.arguments.write", values=[1.0,2.0,3.0])],
                      outputs=ObservationOutputs(output_folder=t, save_data_to_file=[{"detector.pixel.array":["npy"]}]), readout=Readout(times=[1.0]))
    dt = pyxel.run_mode(mode=obs, detector=det, pipeline=pipe, with_inherited_coords=True)
    for f in sorted(glob.glob(t+"/*/*")): print("C19", os.path.basename(f), np.load(f)[0,0])
    print(dt["/output"])
# C05 duplicate keys in product mode
obs2 = Observation(parameters=[ParameterValues(key="pipeline.charge_collection.a.arguments.write", values=[1.0,2.0]), ParameterValues(key="pipeline.charge_collection.a.arguments.write", values=[5.0,6.0,7.0])], readout=Readout(times=[1.0]))
items = obs2.parameter_mode.get_parameters_item()
print("C05 dup keys:", [(i.index, i.parameters) for i in items])
