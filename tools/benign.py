#!/usr/bin/env python3
"""Semantics-preserving edits of /repo (applied to a scratch copy outside /repo and /verif): the checks must not report
a VIOLATION on any of them (exit 0 expected; exit 2 = undecided is tolerated but listed).  usage: benign.py [name...]"""
import os, shutil, subprocess, sys, tempfile, py_compile


def sub(old, new, count=1):
    def f(s):
        assert s.count(old) >= 1, f"edit does not apply: {old[:50]!r}"
        return s.replace(old, new, count)
    return f


def rename_exposure_loop(s):
    i = s.index("for i, (time, step) in enumerate(")
    j = s.index("# Update the progress bar after each step.", i)
    body = s[i:j].replace("(time, step)", "(time, dt)").replace("time_step = step", "time_step = dt").replace("step: float", "dt: float")
    return s[:i] + body + s[j:]


def rename_model_var(s):
    import re
    i = s.index("    def run(")
    j = s.index("\n    def ", i + 10) if "\n    def " in s[i + 10:] else len(s)
    body = re.sub(r"(?<![\w.\"'])model(?![\w\"'])", "mdl", s[i:j])
    return s[:i] + body + s[j:]


EDITS = {
    "rename-exposure-loop-var": ([("pyxel/exposure/exposure.py", rename_exposure_loop)], ["C02", "C03", "C04"]),
    "rename-model-loop-var": ([("pyxel/pipelines/model_group.py", rename_model_var)], ["C01", "C02"]),
    "photon-any-method": ([("pyxel/data_structure/photon.py", sub("if np.any(value < 0):", "if (value < 0).any():"))], ["C13"]),
    "geometry-reorder-checks": ([("pyxel/detectors/geometry.py", sub("self._row: int = row\n        self._col: int = col", "self._col: int = col\n        self._row: int = row"))], ["C12", "C18"]),
    "outputs-dir-loop-comment": ([("pyxel/outputs/outputs.py", sub("    while True:\n        try:\n            output_dir: Path = (", "    # retry with a numbered suffix\n    while True:\n        try:\n            output_dir: Path = ("))], ["C19"]),
    "processor-has-local": ([("pyxel/pipelines/processor.py", sub("if not self.has(key):", "known: bool = self.has(key)\n        if not known:"))], ["C08"]),
    "charge-empty-zeros": ([("pyxel/data_structure/charge.py", sub("self._array = np.zeros_like(self._array)", "self._array = np.zeros(self._array.shape, dtype=self._array.dtype)"))], ["C03", "C02", "C13"]),
    "arguments-deepcopy-deep": ([("pyxel/pipelines/model_function.py", sub("    # def __deepcopy__(self, memo) -> \"Arguments\":\n    #     \"\"\"TBW.\"\"\"\n    #     return Arguments(deepcopy(self._arguments))",
                                                                               "    def __deepcopy__(self, memo) -> \"Arguments\":\n        \"\"\"TBW.\"\"\"\n        import copy\n        return Arguments(copy.deepcopy(self._arguments, memo))"))], ["C06", "C08"]),
    "validate-steps-local": ([("pyxel/observation/observation.py", sub("                model_enabled: str = model_name + \".enabled\"\n                if not processor.get(model_enabled):",
                                                                          "                enabled_key: str = f\"{model_name}.enabled\"\n                is_on = processor.get(enabled_key)\n                if not is_on:"))], ["C08"]),
}


def main():
    names = sys.argv[1:] or list(EDITS)
    bad = 0
    for name in names:
        edits, props = EDITS[name]
        scr = tempfile.mkdtemp(prefix="pyvc_benign.")
        try:
            subprocess.run(["rsync", "-a", "--exclude", "/.git", "--exclude", "/output", "--exclude", "/outputs", "--exclude", "/None", "--exclude", "__pycache__", "/repo/", scr + "/"], check=True)
            try:
                for rel, fn in edits:
                    p = os.path.join(scr, rel)
                    s = open(p).read()
                    s2 = fn(s)
                    assert s2 != s, rel
                    open(p, "w").write(s2)
                    py_compile.compile(p, doraise=True)
            except AssertionError as e:
                print(f"{name}: EDIT-DOES-NOT-APPLY {e}")
                continue
            for prop in props:
                r = subprocess.run(["python3-vt", "check.py", prop, "--no-evidence"], cwd=os.path.dirname(os.path.dirname(os.path.abspath(__file__))),
                                   env={**os.environ, "PYVC_REPO": scr}, capture_output=True, text=True)
                lines = [l for l in r.stdout.splitlines() if l.startswith(("VIOLATION", "UNDECIDED", "CHECKER"))]
                tag = {0: "ok", 1: "FALSE-ALARM", 2: "undecided", 3: "CRASH"}.get(r.returncode, str(r.returncode))
                bad += r.returncode == 1
                print(f"{name}: {prop} {tag}" + ("  | " + " ; ".join(l[:170] for l in lines[:3]) if lines else ""))
        finally:
            shutil.rmtree(scr, ignore_errors=True)
    sys.exit(1 if bad else 0)


if __name__ == "__main__":
    main()
