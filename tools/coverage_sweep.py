#!/usr/bin/env python3
"""List the functions of each property's anchored files that no evidence file names (under contract, inlined or callee-with-contract).
usage: coverage_sweep.py [min_lines]   (reads /verif/properties.jsonl and /verif/evidence/*.json; run after the checks wrote fresh evidence)"""
import ast, glob, json, os, sys
MIN = int(sys.argv[1]) if len(sys.argv) > 1 else 8
root = os.environ.get("PYVC_REPO", "/repo")
named = set()
for f in glob.glob("/verif/evidence/*.json"):
    e = json.load(open(f))
    text = json.dumps(e)
    for fn in e.get("coverage", {}).get("functions", []):
        named.add(fn if isinstance(fn, str) else fn.get("name", ""))
    named_text = text
    named.add("__TEXT__" + text)
alltext = "".join(x for x in named if x.startswith("__TEXT__"))
props = [json.loads(l) for l in open("/verif/properties.jsonl")]
seen_files = {}
for p in props:
    for rel in p["anchors"]["files"]:
        seen_files.setdefault(rel, []).append(p["id"])
tot = unc = 0
for rel, pids in sorted(seen_files.items()):
    path = os.path.join(root, rel)
    if not os.path.isfile(path):
        continue
    tree = ast.parse(open(path).read())
    missing = []

    def visit(node, prefix):
        global tot, unc
        for n in node.body:
            if isinstance(n, (ast.FunctionDef, ast.AsyncFunctionDef)):
                q = f"{rel}::{prefix}{n.name}"
                lines = (n.end_lineno or n.lineno) - n.lineno + 1
                doc = ast.get_docstring(n)
                body_lines = lines - (len(doc.splitlines()) + 2 if doc else 0)
                if body_lines >= MIN:
                    tot += 1
                    if q not in alltext:
                        unc += 1
                        missing.append(f"{prefix}{n.name}({body_lines})")
            elif isinstance(n, ast.ClassDef):
                visit(n, prefix + n.name + ".")
    visit(tree, "")
    if missing:
        print(f"{rel} [{','.join(pids)}]: " + ", ".join(missing))
print(f"functions >= {MIN} body lines in anchored files: {tot}; not named by any evidence file: {unc}")
