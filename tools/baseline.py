#!/usr/bin/env python3
"""Run the repository's pinned test suite (xdist) on a tree and compare with /root/.vp/BASELINE.json.
usage: baseline.py [repo_root]   -> prints lost tests (stable_pass that did not pass); exit 1 if any."""
import json, subprocess, sys, tempfile, os, xml.etree.ElementTree as ET
root = sys.argv[1] if len(sys.argv) > 1 else "/repo"
base = json.load(open("/root/.vp/BASELINE.json"))
out = tempfile.mktemp(suffix=".xml")
subprocess.run(["/venv/bin/python", "-m", "pytest", "-q", "-p", "no:cacheprovider", "--timeout=900", "--continue-on-collection-errors",
                "-n", os.environ.get("NPROC", "14"), f"--junitxml={out}"], cwd=root, stdout=subprocess.DEVNULL, stderr=subprocess.DEVNULL)
passed = set()
for tc in ET.parse(out).getroot().iter("testcase"):
    if not any(c.tag in ("failure", "error", "skipped") for c in tc):
        passed.add(f"{tc.get('classname')}::{tc.get('name')}")
lost = [t for t in base["stable_pass"] if t not in passed]
if lost and len(lost) <= 60:
    # tests that share a fixed resource (local HTTP port, working directory) fail when several suites run on this machine at the
    # same time: re-run the lost ones alone, serially, before calling them lost
    ids = []
    for t in lost:
        cls, name = t.split("::", 1)
        ids.append(cls.replace(".", "/") + ".py::" + name)
    out2 = tempfile.mktemp(suffix=".xml")
    subprocess.run(["/venv/bin/python", "-m", "pytest", "-q", "-p", "no:cacheprovider", "--timeout=900", f"--junitxml={out2}", *ids], cwd=root,
                   stdout=subprocess.DEVNULL, stderr=subprocess.DEVNULL)
    try:
        for tc in ET.parse(out2).getroot().iter("testcase"):
            if not any(c.tag in ("failure", "error", "skipped") for c in tc):
                passed.add(f"{tc.get('classname')}::{tc.get('name')}")
        os.unlink(out2)
    except Exception:
        pass
    relost = [t for t in lost if t not in passed]
    print(f"re-run of {len(lost)} lost tests alone: {len(lost) - len(relost)} pass")
    lost = relost
print(f"stable_pass={len(base['stable_pass'])} passed_now={len(passed)} lost={len(lost)}")
for t in lost[:40]:
    print("LOST", t)
os.unlink(out)
sys.exit(1 if lost else 0)
