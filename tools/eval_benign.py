#!/usr/bin/env python3
"""Behaviour-preserving refactorings under /verif/benign/<PROP>_<n>.diff (written by independent sub-agents): apply each
to a scratch copy of /repo (outside /repo and /verif) and run the property's check. No VIOLATION is acceptable (exit 1 =
false alarm); undecided (exit 2) is tolerated and listed.  usage: eval_benign.py [names...]   -> benign/RESULTS.json"""
import json, os, pathlib, re, shutil, subprocess, sys, tempfile
HERE = pathlib.Path(__file__).resolve().parent.parent
names = sys.argv[1:] or sorted(p.stem for p in (HERE / "benign").glob("*.diff"))
resf = HERE / "benign" / "RESULTS.json"
results = json.loads(resf.read_text()) if resf.exists() else {}
bad = 0
for name in names:
    prop = name.split("_")[0]
    scr = tempfile.mkdtemp(prefix="pyvc_benign.")
    try:
        subprocess.run(["rsync", "-a", "--exclude", "/.git", "--exclude", "/output", "--exclude", "/outputs", "--exclude", "/None", "--exclude", "__pycache__", "/repo/", scr + "/"], check=True)
        ap = subprocess.run(["patch", "-p1", "-s", "-i", str(HERE / "benign" / f"{name}.diff")], cwd=scr, capture_output=True, text=True)
        if ap.returncode:
            results[name] = {"applies": False}
            print(name, "DOES-NOT-APPLY", ap.stdout[-200:])
            continue
        r = subprocess.run(["python3-vt", "check.py", prop, "--no-evidence"], cwd=str(HERE), env={**os.environ, "PYVC_REPO": scr}, capture_output=True, text=True)
        lines = [l for l in r.stdout.splitlines() if l.startswith(("VIOLATION", "UNDECIDED", "CHECKER"))]
        tag = {0: "ok", 1: "FALSE-ALARM", 2: "undecided", 3: "CRASH"}.get(r.returncode, str(r.returncode))
        bad += r.returncode in (1, 3)
        results[name] = {"applies": True, "exit": r.returncode, "verdict": tag, "lines": [l[:300] for l in lines[:4]]}
        print(name, tag, (" | " + " ; ".join(l[:200] for l in lines[:2])) if lines else "")
    finally:
        shutil.rmtree(scr, ignore_errors=True)
    resf.write_text(json.dumps(results, indent=1, sort_keys=True))
sys.exit(1 if bad else 0)
