#!/usr/bin/env python3
"""usage: try_edit.py <relative file> <old text> <new text> <PROP> [check args...]
Replaces exactly one occurrence of <old text> in a scratch copy of /repo (outside /repo and /verif), runs the check
on the copy (PYVC_REPO), removes the copy. Escapes: \\n for newlines."""
import os, shutil, subprocess, sys, tempfile
rel, old, new, prop, *rest = sys.argv[1:]
old, new = old.replace("\\n", "\n"), new.replace("\\n", "\n")
scr = tempfile.mkdtemp(prefix="pyvc_scratch.")
try:
    subprocess.run(["rsync", "-a", "--exclude", "/.git", "--exclude", "/output", "--exclude", "/outputs", "--exclude", "/None", "--exclude", "__pycache__", "/repo/", scr + "/"], check=True)
    p = os.path.join(scr, rel)
    s = open(p).read()
    if s.count(old) != 1:
        print(f"edit does not apply: {s.count(old)} occurrences"); sys.exit(9)
    open(p, "w").write(s.replace(old, new))
    import py_compile
    py_compile.compile(p, doraise=True)
    r = subprocess.run(["python3-vt", "check.py", prop, "--no-evidence", *rest], cwd="/verif", env={**os.environ, "PYVC_REPO": scr}, capture_output=True, text=True)
    lines = [l for l in r.stdout.splitlines() if not l.startswith(("  replay", "  obligation"))]
    print("\n".join(lines[-int(os.environ.get("TAIL", "6")):]))
finally:
    shutil.rmtree(scr, ignore_errors=True)
