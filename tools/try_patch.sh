#!/bin/bash
# usage: try_patch.sh <patch.diff | -e 'sed-expr' file> <PROP> [extra check args]
# Applies a change to a scratch copy of /repo (outside /repo and /verif), runs the property's check on it, removes the copy.
set -u
SCR=$(mktemp -d /tmp/pyvc_scratch.XXXXXX)
trap 'rm -rf "$SCR"' EXIT
rsync -a --exclude /.git --exclude /output --exclude /outputs --exclude /None --exclude '__pycache__' /repo/ "$SCR/"
if [ "$1" = "-e" ]; then
  sed -i -E "$2" "$SCR/$3" || exit 9
  (cd "$SCR" && diff -u "/repo/$3" "$3" | head -30)
  shift 3
else
  (cd "$SCR" && patch -p1 -s < "$1") || { echo "patch failed"; exit 9; }
  shift 1
fi
PROP=$1; shift
cd /verif && PYVC_REPO="$SCR" python3-vt check.py "$PROP" --no-evidence "$@" 2>&1 | grep -v "^  replay\|^  obligation" | tail -${TAIL:-12}
