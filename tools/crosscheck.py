#!/usr/bin/env python3
"""CPython cross-check of the VC generator (soundness test of the ENCODING, not a proof of anything about pyxel).

For a set of functions under contract, random CONCRETE inputs are run (a) by the symbolic engine pyvc (python3-vt), which on
concrete inputs must follow exactly one path and produce a concrete result or exception, and (b) by the real code under
/venv/bin/python. Any disagreement (value, exception class, path split on concrete data) is an engine defect.
usage: python3-vt tools/crosscheck.py [--n 25] [--seed 0]      exit 0 = all agree."""
import argparse, json, math, os, pathlib, random, subprocess, sys, tempfile
HERE = pathlib.Path(__file__).resolve().parent.parent
sys.path.insert(0, str(HERE))
from contracts.common import *  # noqa
from pyvc.verify import Unit
from pyvc import arrays as A

ap = argparse.ArgumentParser()
ap.add_argument("--n", type=int, default=25)
ap.add_argument("--seed", type=int, default=0)
ap.add_argument("--only", default=None, help="regex on the qualified name")
ap.add_argument("--json", action="store_true")
a = ap.parse_args()
rnd = random.Random(a.seed)


def arr(nested, dtype="float64"):
    return {"__array__": nested, "dtype": dtype}


CASES = []      # (qualname, native expression prefix, kwargs-json generator)


def case(qual, native, gen):
    CASES.append((qual, native, gen))


def rfloat():
    return rnd.choice([0.0, 1.0, -1.0, 0.5, 2.5, 1e-3, 100.0, rnd.uniform(-50, 50), rnd.uniform(0, 5)])


def rarr(r, c, lo=-5.0, hi=5.0):
    return arr([[round(rnd.uniform(lo, hi), 3) for _ in range(c)] for _ in range(r)])


case("pyxel/exposure/readout.py::calculate_steps", "pyxel.exposure.readout.calculate_steps",
     lambda: {"times": arr(sorted(round(rnd.uniform(0.1, 50), 3) for _ in range(rnd.randint(1, 5)))), "start_time": round(rnd.uniform(-2, 0.05), 3)})
case("pyxel/util/image.py::_set_relative_position", "pyxel.util.image._set_relative_position",
     lambda: {"array_x": rnd.randint(1, 9), "array_y": rnd.randint(1, 9), "output_x": rnd.randint(1, 9), "output_y": rnd.randint(1, 9),
              "alignment": {"__enum__": "pyxel.util.image.Alignment", "value": rnd.choice(["center", "top_left", "top_right", "bottom_left", "bottom_right"])}})
case("pyxel/util/image.py::fit_into_array", "pyxel.util.image.fit_into_array",
     lambda: {"array": rarr(rnd.randint(1, 4), rnd.randint(1, 4)), "output_shape": [rnd.randint(1, 5), rnd.randint(1, 5)], "relative_position": [rnd.randint(-3, 3), rnd.randint(-3, 3)],
              "align": rnd.choice([None, None, "center", "top_left", "top_right", "bottom_left", "bottom_right"]), "allow_smaller_array": rnd.choice([True, True, False])})
case("pyxel/models/readout_electronics/simple_adc.py::apply_simple_adc", "pyxel.models.readout_electronics.simple_adc.apply_simple_adc",
     lambda: {"signal": rarr(2, 3, -1.0, 8.0), "bit_resolution": rnd.choice([4, 8, 12, 16]), "voltage_min": rnd.choice([0.0, 1.0, -1.0]), "voltage_max": rnd.choice([5.0, 6.0, 7.0]), "dtype": "uint16"})
case("pyxel/detectors/geometry.py::get_vertical_pixel_center_pos", "pyxel.detectors.geometry.get_vertical_pixel_center_pos",
     lambda: {"num_rows": rnd.randint(1, 4), "num_cols": rnd.randint(1, 4), "pixel_vertical_size": rnd.choice([1.0, 2.5, 10.0])})
case("pyxel/detectors/geometry.py::get_horizontal_pixel_center_pos", "pyxel.detectors.geometry.get_horizontal_pixel_center_pos",
     lambda: {"num_rows": rnd.randint(1, 4), "num_cols": rnd.randint(1, 4), "pixel_horizontal_size": rnd.choice([1.0, 2.5, 10.0])})
case("pyxel/observation/observation.py::_get_short_dimension_names_new", "pyxel.observation.observation._get_short_dimension_names_new",
     lambda: {"types": {k: "x" for k in rnd.sample(["detector.environment.temperature", "pipeline.photon_collection.a.arguments.level", "pipeline.charge_generation.b.arguments.level",
                                                      "detector.characteristics.quantum_efficiency", "observation.readout.times", "pipeline.photon_collection.a.arguments.time_scale"], rnd.randint(1, 4))}})
case("pyxel/models/charge_collection/persistence.py::clip_diff", "pyxel.models.charge_collection.persistence.clip_diff.py_func",
     lambda: (lambda r, c: {"diff": rarr(r, c, -10, 10), "trapped_charge": rarr(r, c, 0, 8), "empty_traps": rarr(r, c, 0, 8)})(rnd.randint(1, 3), rnd.randint(1, 3)))
case("pyxel/models/charge_collection/persistence.py::clip_trapped_charge", "pyxel.models.charge_collection.persistence.clip_trapped_charge.py_func",
     lambda: (lambda r, c, cap: {"trapped_charge": rarr(r, c, 0, 10), "pixel": rarr(r, c, 0, 100), "available_traps": rarr(r, c, 0, 10), "pixel_diff": rarr(r, c, -5, 5),
                                 "trap_capacities": rarr(r, c, 0, 10) if cap else None})(rnd.randint(1, 3), rnd.randint(1, 3), rnd.random() < 0.5))
case("pyxel/evaluator.py::eval_entry", "pyxel.evaluator.eval_entry",
     lambda: {"value": rnd.choice(["12", "-3", "1.5", "1e3", "[1, 2]", "(1, 2)", "abc", "True", "False", "hello world", "x1", "'q'", 3, 2.5, True, "0x10", "1_000", "parallel"])})
case("pyxel/models/charge_collection/full_well.py::apply_simple_full_well_capacity", "pyxel.models.charge_collection.full_well.apply_simple_full_well_capacity",
     lambda: {"array": rarr(2, 3, -10, 200), "fwc": rnd.choice([0, 10, 100, 150])})
case("pyxel/models/charge_collection/inter_pixel_capacitance.py::ipc_kernel", "pyxel.models.charge_collection.inter_pixel_capacitance.ipc_kernel",
     lambda: {"coupling": rnd.choice([0.0, 0.05, 0.1, 0.2, 0.3]), "diagonal_coupling": rnd.choice([0.0, 0.01, 0.05, 0.1]), "anisotropic_coupling": rnd.choice([0.0, 0.01, 0.05])})
case("pyxel/models/charge_generation/photoelectrons.py::apply_qe", "pyxel.models.charge_generation.photoelectrons.apply_qe",
     lambda: {"array": rarr(2, 3, 0, 50), "qe": rnd.choice([0.0, 0.25, 0.5, 1.0]), "binomial_sampling": False})
case("pyxel/calibration/util.py::list_to_slice", "pyxel.calibration.util.list_to_slice",
     lambda: {"input_list": rnd.choice([None, [], [0, 5, 1, 4], [1, 2, 3, 4, 5, 6], [1, 2, 3]])})
CASES = [c for c in CASES if c[1]]
if a.only:
    import re as _re
    CASES = [c for c in CASES if _re.search(a.only, c[0])]

NATIVE = r'''
import json, sys, importlib, numpy as np, warnings
warnings.filterwarnings("ignore")
def dec(x):
    if isinstance(x, dict) and "__array__" in x:
        return np.array(x["__array__"], dtype=x["dtype"])
    if isinstance(x, dict) and "__enum__" in x:
        mod, cls = x["__enum__"].rsplit(".", 1)
        return getattr(importlib.import_module(mod), cls)(x["value"])
    if isinstance(x, dict):
        return {k: dec(v) for k, v in x.items()}
    if isinstance(x, list):
        return [dec(v) for v in x]
    return x
def enc(x):
    if isinstance(x, np.ndarray):
        return {"__array__": x.astype(float).tolist(), "dtype": str(x.dtype)}
    if isinstance(x, (np.floating, np.integer, np.bool_)):
        return x.item()
    if isinstance(x, slice):
        return {"__slice__": [x.start, x.stop, x.step]}
    if isinstance(x, (list, tuple)):
        return [enc(v) for v in x]
    if isinstance(x, dict):
        return {str(k): enc(v) for k, v in x.items()}
    return x
out = []
for name, kwargs in json.load(open(sys.argv[1])):
    parts = name.split(".")
    for i in range(len(parts), 0, -1):
        try:
            obj = importlib.import_module(".".join(parts[:i])); rest = parts[i:]; break
        except ModuleNotFoundError:
            continue
    for r in rest:
        obj = getattr(obj, r)
    kw = dec(kwargs)
    if "output_shape" in kw: kw["output_shape"] = tuple(kw["output_shape"])
    if "relative_position" in kw: kw["relative_position"] = tuple(kw["relative_position"])
    try:
        out.append({"ok": enc(obj(**kw))})
    except Exception as e:
        out.append({"exc": type(e).__name__})
print(json.dumps(out))
'''


def to_val(ex, x, key=None):
    if isinstance(x, dict) and "__array__" in x:
        data = x["__array__"]
        shape, d = [], data
        while isinstance(d, list):
            shape.append(len(d))
            d = d[0] if d else None

        def elem(ix, data=data, dt=x["dtype"]):
            v = data
            for i in ix:
                ii = i if isinstance(i, int) else z3.simplify(z_int(i))
                if not isinstance(ii, int):
                    if not z3.is_int_value(ii):
                        raise Unsupported("concrete array read at a symbolic index")
                    ii = ii.as_long()
                if not (0 <= ii < len(v)):
                    return VFloat(0.0) if dt.startswith("float") else VInt(0)      # read guarded by a false condition (both ite branches are built)
                v = v[ii]
            return VFloat(float(v)) if dt.startswith("float") else VInt(int(v))
        return ex.st.alloc(HArr(tuple(shape), VDtype(x["dtype"]), elem))
    if isinstance(x, dict) and "__enum__" in x:
        return VStr(x["value"])          # Enum members are modelled by their values
    if isinstance(x, dict):
        return ex.st.alloc(HDict([(VStr(k), to_val(ex, v)) for k, v in x.items()]))
    if isinstance(x, list):
        if key in ("output_shape", "relative_position"):
            return VTuple([to_val(ex, v) for v in x])
        return ex.st.alloc(HList([to_val(ex, v) for v in x]))
    if x is None:
        return NONE
    if isinstance(x, bool):
        return VBool(x)
    if isinstance(x, int):
        return VInt(x)
    if isinstance(x, float):
        return VFloat(x)
    if isinstance(x, str):
        if key == "dtype":
            return VDtype(x)
        return VStr(x)
    raise TypeError(x)


def from_val(p, v):
    if isinstance(v, VNone):
        return None
    if isinstance(v, (VInt, VFloat, VBool, VStr)):
        t = v.v
        if not is_conc(t):
            t = z3.simplify(t)
            if z3.is_int_value(t):
                return t.as_long()
            if z3.is_rational_value(t):
                return float(t.as_fraction())
            if z3.is_true(t) or z3.is_false(t):
                return z3.is_true(t)
            if z3.is_string_value(t):
                return t.as_string()
            return ("<symbolic>", str(t)[:60])
        return t
    if isinstance(v, VTuple):
        return [from_val(p, x) for x in v.items]
    if isinstance(v, VSlice):
        return {"__slice__": [from_val(p, v.lo), from_val(p, v.hi), from_val(p, v.step)]}
    if isinstance(v, VRef):
        c = p.st.cell(v)
        if isinstance(c, HArr):
            shape = [int(str(z3.simplify(z_int(s)))) if not isinstance(s, int) else s for s in c.shape]

            def rec(prefix, dims):
                if not dims:
                    return from_val(p, c.elem(tuple(z3.IntVal(i) for i in prefix)))
                return [rec(prefix + [i], dims[1:]) for i in range(dims[0])]
            return {"__array__": rec([], shape), "dtype": str(c.dtype.v)}
        if isinstance(c, HList):
            return [from_val(p, x) for x in c.items]
        if isinstance(c, HDict):
            return {str(from_val(p, k)): from_val(p, x) for k, x in c.items}
    return ("<unconvertible>", repr(v)[:60])


def close(a_, b_):
    if isinstance(a_, dict) and isinstance(b_, dict):
        if "__array__" in a_ and "__array__" in b_:
            return close(a_["__array__"], b_["__array__"]) and a_["dtype"] == b_["dtype"]
        return a_.keys() == b_.keys() and all(close(a_[k], b_[k]) for k in a_)
    if isinstance(a_, (list, tuple)) and isinstance(b_, (list, tuple)):
        return len(a_) == len(b_) and all(close(x, y) for x, y in zip(a_, b_))
    if isinstance(a_, bool) or isinstance(b_, bool):
        return a_ == b_ and type(a_) is type(b_)
    if isinstance(a_, (int, float)) and isinstance(b_, (int, float)):
        return math.isclose(a_, b_, rel_tol=1e-9, abs_tol=1e-12)
    return a_ == b_ and type(a_) is type(b_)


def main():
    from contracts import C08
    jobs = []
    for qual, native, gen in CASES:
        for _ in range(a.n):
            jobs.append((qual, native, gen()))
    with tempfile.NamedTemporaryFile("w", suffix=".json", delete=False) as f:
        json.dump([(n, kw) for _, n, kw in jobs], f)
        path = f.name
    r = subprocess.run(["/venv/bin/python", "-c", NATIVE, path], cwd=os.environ.get("PYVC_REPO", "/repo"), capture_output=True, text=True)
    os.unlink(path)
    if r.returncode:
        print("native runner failed:", r.stderr[-600:])
        return 3
    native = json.loads(r.stdout.strip().splitlines()[-1])
    bad, per = 0, {}
    for (qual, nname, kw), nat in zip(jobs, native):
        u = Unit("X", "crosscheck", "quick", None)
        fi = u.fn(qual)
        cfg = C08.mk_cfg(u) if "eval_entry" in qual else Cfg("real")
        ps = u.paths(fi, lambda ex, kw=kw: ([], {k: to_val(ex, v, k) for k, v in kw.items()}), cfg, label="x")
        und = [x.get("reason") for x in u.results if x["verdict"] == "undecided"]
        stat = per.setdefault(qual.split("::")[1], {"agree": 0, "skipped": 0, "DISAGREE": 0})
        if und or len(ps) == 0:
            stat["skipped"] += 1
            continue
        if len(ps) != 1:
            stat["DISAGREE"] += 1
            bad += 1
            print("DISAGREE", qual, json.dumps(kw)[:200], f"engine split into {len(ps)} paths on concrete input")
            continue
        p = ps[0]
        eng = {"ok": from_val(p, p.value)} if p.kind == "return" else {"exc": p.exc_name()}
        same = ("exc" in eng and "exc" in nat and eng["exc"] == nat["exc"]) or ("ok" in eng and "ok" in nat and close(eng["ok"], nat["ok"]))
        if same:
            stat["agree"] += 1
        else:
            stat["DISAGREE"] += 1
            bad += 1
            print("DISAGREE", qual, json.dumps(kw)[:300], "engine:", json.dumps(eng)[:200], "native:", json.dumps(nat)[:200])
    for k, v in per.items():
        print(f"{k:40s} {v}")
    print("cross-check:", "all agree" if not bad else f"{bad} disagreements")
    if a.json:
        print("JSON " + json.dumps({"functions": per, "cases": len(jobs), "disagreements": bad, "seed": a.seed}))
    return 1 if bad else 0


if __name__ == "__main__":
    sys.exit(main())
