#!/usr/bin/env python3
"""Run the checks against the seeded property-breaking changes under /verif/seeded/<id>/.

  eval_seeded.py [ids...]            apply patch.diff to /repo (git apply), run the check of the property it breaks (and
                                     --all-checks: every check), undo it straight afterwards (git checkout -- .)
  eval_seeded.py --confirm <id>      on a scratch copy outside /repo and /verif: demo fails with the change, passes without
Results are written to seeded/RESULTS.json and printed. /repo is always restored (try/finally)."""
import json, os, pathlib, re, shutil, subprocess, sys, tempfile

HERE = pathlib.Path(__file__).resolve().parent.parent
SEEDED = HERE / "seeded"


def sh(cmd, **kw):
    return subprocess.run(cmd, capture_output=True, text=True, **kw)


def confirm(d: pathlib.Path):
    scr = tempfile.mkdtemp(prefix="pyvc_seed.")
    try:
        sh(["rsync", "-a", "--exclude", "/.git", "--exclude", "/output", "--exclude", "/outputs", "--exclude", "/None", "--exclude", "__pycache__", "/repo/", scr + "/"])
        demo = next(iter(sorted(d.glob("demo*.py"))))
        shutil.copy(demo, os.path.join(scr, "_demo.py"))
        env = {**os.environ, "PYTHONPATH": scr, "PYTHONDONTWRITEBYTECODE": "1"}
        run = lambda: sh(["/venv/bin/python", "-c", "import runpy,sys; sys.path.insert(0, '.'); runpy.run_path('_demo.py', run_name='__main__')"], cwd=scr, env=env, timeout=900)
        clean = run()
        ap = sh(["patch", "-p1", "-s", "-i", str(d / "patch.diff")], cwd=scr)
        if ap.returncode:
            return {"applies": False, "error": ap.stderr[-300:] + ap.stdout[-300:]}
        mutated = run()
        return {"applies": True, "demo_clean_exit": clean.returncode, "demo_mutant_exit": mutated.returncode, "demo_mutant_tail": (mutated.stdout + mutated.stderr)[-400:]}
    finally:
        shutil.rmtree(scr, ignore_errors=True)


def detect(d: pathlib.Path, props, in_repo=False):
    """Run the checks against the change: on a scratch copy of /repo (default; PYVC_REPO) or, with --in-repo, by
    `git -C /repo apply` followed by `git -C /repo checkout -- .` straight afterwards."""
    out = {}
    scr = None
    if in_repo:
        if sh(["git", "-C", "/repo", "status", "--porcelain", "--untracked-files=no"]).stdout.strip():
            raise SystemExit("/repo has uncommitted changes to tracked files; refusing")
        ap = sh(["git", "-C", "/repo", "apply", str(d / "patch.diff")])
        env = dict(os.environ)
    else:
        scr = tempfile.mkdtemp(prefix="pyvc_seed.")
        sh(["rsync", "-a", "--exclude", "/.git", "--exclude", "/output", "--exclude", "/outputs", "--exclude", "/None", "--exclude", "__pycache__", "/repo/", scr + "/"])
        ap = sh(["patch", "-p1", "-s", "-i", str(d / "patch.diff")], cwd=scr)
        env = {**os.environ, "PYVC_REPO": scr}
    if ap.returncode:
        if scr:
            shutil.rmtree(scr, ignore_errors=True)
        return {"apply_error": (ap.stderr + ap.stdout)[-300:]}
    try:
        for p in props:
            r = sh(["python3-vt", "check.py", p, "--no-evidence"], cwd=str(HERE), timeout=3600, env=env)
            viol = sorted(set(re.findall(r"VIOLATION property=\S+ replay=\S*/([^/\s]+)\.json( no-failing-input-found)?", r.stdout)))
            errs = sorted(set(re.findall(r"replay\[error\]: (.*)", r.stdout)))
            out[p] = {"exit": r.returncode, "replay_errors": [e[-200:] for e in errs][:5],
                      "violations": [v[0] + (" (no native input)" if v[1] else "") for v in viol][:12],
                      "undecided": len(re.findall(r"^UNDECIDED", r.stdout, re.M)), "summary": (r.stdout.strip().splitlines() or [""])[-2][:200]}
    finally:
        if in_repo:
            sh(["git", "-C", "/repo", "checkout", "--", "."])
        else:
            shutil.rmtree(scr, ignore_errors=True)
    return out


def main():
    args = sys.argv[1:]
    allc = "--all-checks" in args
    conf = "--confirm" in args
    in_repo = "--in-repo" in args
    ids = [a for a in args if not a.startswith("--")] or sorted(p.name for p in SEEDED.iterdir() if p.is_dir())
    resf = pathlib.Path(os.environ.get("SEEDED_RESULTS", SEEDED / "RESULTS.json"))      # (shards of a parallel evaluation write their own file)
    results = json.loads(resf.read_text()) if resf.exists() else {}
    manifest = json.loads((HERE / "MANIFEST.json").read_text())
    all_props = [c["property_id"] for c in manifest["checks"]]
    for i in ids:
        d = SEEDED / i
        meta = json.loads((d / "meta.json").read_text())
        rec = results.setdefault(i, {"property": meta["property"]})
        if conf:
            rec["confirm"] = confirm(d)
        props = all_props if allc else [meta["property"]]
        rec.setdefault("checks", {}).update(detect(d, props, in_repo))
        own = rec["checks"].get(meta["property"], {})
        rec["detected"] = own.get("exit") == 1
        print(i, meta["property"], "DETECTED" if rec["detected"] else f"missed (exit {own.get('exit')})", own.get("violations", [])[:3],
              ("REPLAY-ERRORS " + repr(own.get("replay_errors"))) if own.get("replay_errors") else "")
        resf.write_text(json.dumps(results, indent=1))


if __name__ == "__main__":
    main()
