#!/usr/bin/env python3
"""Record, for every function of the tree the contracts were written against, its local names in binding order with
their rename-invariant binding signatures (contracts/locals_ref.json). Used only to follow RENAMED locals (engine.Locals);
regenerate (python3-vt tools/mk_locals_ref.py) only when contracts are rewritten against a new reference tree."""
import json, pathlib, sys
HERE = pathlib.Path(__file__).resolve().parent.parent
sys.path.insert(0, str(HERE))
from pyvc.front import World
w = World("/repo")
out = {}
for mi in w.all_modules():
    fns = list(mi.functions.values())
    for ci in mi.classes.values():
        fns += list(ci.methods.values()) + list(ci.getters.values()) + list(ci.setters.values())
    for fi in fns:
        b = fi.local_bindings()
        if len(b) > len(fi.node.args.args) + len(fi.node.args.kwonlyargs):
            out[fi.qualname] = b
(HERE / "contracts" / "locals_ref.json").write_text(json.dumps(out, indent=0, sort_keys=True))
print(len(out), "functions")
