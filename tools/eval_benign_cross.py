#!/usr/bin/env python3
"""Cross-check: run, for each benign patch, every OTHER property's check whose evidence lists a function of a file the
patch touches (a refactoring must not alarm any check). Results appended to benign/RESULTS_cross.json."""
import json, os, pathlib, re, shutil, subprocess, sys, tempfile
HERE = pathlib.Path(__file__).resolve().parent.parent
file_props = {}
for ev in (HERE / "evidence").glob("C*.json"):
    e = json.loads(ev.read_text())
    for f in e["coverage"]["functions"]:
        file_props.setdefault(f["qualname"].split("::")[0], set()).add(e["property_id"])
names = sys.argv[1:] or sorted(p.stem for p in (HERE / "benign").glob("*.diff"))
resf = HERE / "benign" / "RESULTS_cross.json"
results = json.loads(resf.read_text()) if resf.exists() else {}
bad = 0
for name in names:
    own = name.split("_")[0]
    files = re.findall(r"^\+\+\+ b/(\S+)", (HERE / "benign" / f"{name}.diff").read_text(), re.M)
    props = sorted(set().union(*[file_props.get(f, set()) for f in files]) - {own})
    if not props:
        continue
    scr = tempfile.mkdtemp(prefix="pyvc_benign.")
    try:
        subprocess.run(["rsync", "-a", "--exclude", "/.git", "--exclude", "/output", "--exclude", "/outputs", "--exclude", "/None", "--exclude", "__pycache__", "/repo/", scr + "/"], check=True)
        subprocess.run(["patch", "-p1", "-s", "-i", str(HERE / "benign" / f"{name}.diff")], cwd=scr, check=True)
        for prop in props:
            r = subprocess.run(["python3-vt", "check.py", prop, "--no-evidence"], cwd=str(HERE), env={**os.environ, "PYVC_REPO": scr}, capture_output=True, text=True)
            lines = [l for l in r.stdout.splitlines() if l.startswith(("VIOLATION", "UNDECIDED", "CHECKER"))]
            tag = {0: "ok", 1: "FALSE-ALARM", 2: "undecided", 3: "CRASH"}.get(r.returncode, str(r.returncode))
            bad += r.returncode in (1, 3)
            results[f"{name}:{prop}"] = {"exit": r.returncode, "verdict": tag, "lines": [l[:300] for l in lines[:3]]}
            print(name, prop, tag, (" | " + " ; ".join(l[:160] for l in lines[:2])) if lines else "", flush=True)
    finally:
        shutil.rmtree(scr, ignore_errors=True)
    resf.write_text(json.dumps(results, indent=1, sort_keys=True))
sys.exit(1 if bad else 0)
