#!/usr/bin/env python3
"""Generate /verif/MANIFEST.json from the table below (single source of truth)."""
import json, pathlib
HERE = pathlib.Path(__file__).resolve().parent.parent
CLAIMED = {
 "C12": dict(cat="proof", tech="contracts + AST->VC symbolic execution of the real setters/constructors, z3 (FP theory)",
   text="Class-invariant contracts (every validated field is None or inside its documented range) on the real constructors and setters of Geometry, Characteristics, Environment and APDCharacteristics; every path of each function is symbolically executed for every dynamic input type (None/bool/int/float incl. NaN, inf/str) and the postcondition is discharged by z3 over IEEE-754 terms. Refutations are replayed on the real classes.",
   note="Trusted: pyvc's encoding of Python semantics; library contracts float()/np.min/np.max on scalars; YAML parsing and eval of numpy expressions are outside. Non-numeric values stored unchanged are outside the range predicate.", ref="6 (C12)"),
 "C13": dict(cat="proof", tech="representation-invariant contracts, AST->VC symbolic execution with pointwise arrays, z3",
   text="Representation invariant rep(container) proved preserved (normal and exceptional exit, failure atomicity) by every public mutator of Pixel/Signal/Image/Phase/Photon and the Detector bucket setters, for ndarray inputs of symbolic shape (ndim 0..3) and symbolic dtype, DataArray, None, scalars and lists; equality specified on the empty/non-empty matrix. Induction over operation sequences follows from per-operation preservation.",
   note="Trusted: numpy in-place ufuncs keep shape/dtype and are all-or-nothing; abstract xr.DataArray (dtype/ndim/dims/sizes/coords preserved by copy/clip); ndim>3 behaves like 3.", ref="6 (C13)"),
 "C11": dict(cat="proof", tech="contracts + AST->VC symbolic execution (LIA for fit ranges, pointwise reals for fitness formulas), z3",
   text="check_fit_ranges / _check_out_fit_ranges / FitRange2D/3D.check executed symbolically for all fully specified 2-D/3-D range pairs: acceptance implies equal extents on every shared axis and target stops inside the target. The three built-in fitness functions (numba bodies) are executed pointwise: the summand at an arbitrary pixel equals the statement's formula and the result is the (nan)sum over the whole frame, divided by the degrees of freedom for the reduced chi-square.",
   note="Trusted: nansum/sum as abstract reductions; real arithmetic for floats; numba executes the Python semantics. Not covered by contracts: pygmo's champion monotonicity (external C++), the xarray slicing/pairing in ModelFittingDataTree.fitness (boundary) — see DESIGN.md.", ref="6 (C11)"),
 "C16": dict(cat="proof", tech="contracts + AST->VC; abstract-rounding (fl) arithmetic for the simple ADC per bit resolution; inductive loop invariants with recursive spec functions for the SAR converters, z3",
   text="apply_simple_adc is executed symbolically at an arbitrary pixel for each of the 61 allowed resolutions with every float operation rounded by an abstract IEEE rounding function: range, zero at/below vmin, full scale at/above vmax, monotonicity, result dtype wide enough. apply_sar_adc and apply_sar_adc_with_noise (zero noise) are proved for a SYMBOLIC number of bits by loop invariants against a recursive specification of successive approximation: functional equality with the spec (hence the noisy variant with zero noise equals the plain one), range and monotonicity.",
   note="Trusted: fl abstraction (no overflow/underflow/NaN), real arithmetic for SAR, 2**n recurrence facts, np.random.normal(scale=0)==loc, numpy pointwise contracts. Known finding: simple ADC at 54..64 bits (binary64 cannot hold 2^b-1).", ref="6 (C16)"),
 "C20": dict(cat="proof", tech="contracts + AST->VC symbolic execution (LIA over symbolic shapes/offsets, pointwise arrays), callee contract for the alignment helper; def-use and call-graph obligations for the loaders, z3",
   text="fit_into_array is executed symbolically for arbitrary input/output shapes, offsets and the five alignment keywords: an accepted placement satisfies placed(out, array, p) at an arbitrary output pixel (input pixel the offset puts there, zero elsewhere), non-overlapping or too-small inputs are exactly the rejected ones; _set_relative_position is proved against the statement's alignment definitions and used through its contract. The loading models pass (position_y, position_x), align and the detector shape (def-use normalised call-argument obligations). A memoised loader that reads the file system must carry a file-signature key component (cache.fresh). Delimiter list and suffix table of load_image are AST obligations.",
   note="Trusted: np.intersect1d/np.array(range) contracts on integer ranges; file decoding by numpy/astropy/PIL is outside (not claimed); a file's (mtime_ns, size) changes when it is rewritten.", ref="6 (C20)"),
 "C01": dict(cat="proof", tech="modular contracts with a ghost call trace; loop invariants over symbolic-length model lists (z3 sequences + recursive spec functions)",
   text="Chain of contracts proved function by function on the real source: ModelFunction.__call__ invokes the user function once with the detector and exactly the configured arguments; ModelGroup.__iter__ yields the enabled models in list order (loop invariant over a symbolic list); ModelGroup.run appends exactly their events to the ghost TRACE, debug on or off, and lets a model's exception escape unchanged; Processor.run_pipeline yields TRACE' = TRACE ++ expected(pipeline) for the group order written in the STATEMENT, for arbitrary presence/absence of the ten groups (generic-index loop proof); DetectionPipeline.__init__ binds every group to its own list; to_pipeline builds the same groups for any key order; models are invoked from nowhere else (call-graph obligations).",
   note="Trusted: **mapping semantics, logging dropped, the xarray bookkeeping of the debug block (abstract block; model calls inside it are executed). call.args and yaml.to_pipeline are bounded in the number of arguments (0..3) / models per group (0..2); every other obligation is unbounded.", ref="6 (C01)"),
 "C02": dict(cat="proof", tech="contracts + loop invariant over a symbolic number of readouts on exposure.run_pipeline (real source), callee contracts for the pipeline run, z3",
   text="ReadoutProperties.__init__ is proved to accept only valid schedules and to compute steps[i] = times[i] - (times[i-1] | start). exposure.run_pipeline is executed symbolically with the real Detector/bucket classes, arbitrary prior bucket contents, both readout modes and a symbolic number of steps: at the call of the pipeline in a generic step i the clock fields, first/last flags, freshness of scene, emptiness of photon/signal/image, zeroed charge and the pixel rule (zero if destructive or i == 0, else exactly the content left by step i-1) are obligations; exactly n pipeline runs; invalid schedules raise before any run; the function raises only a model's exception.",
   note="Trusted: model contract (models change buckets arbitrarily, not the clock); xarray result assembly is a boundary; real arithmetic for one subtraction per step; Readout.__init__ (textual ranges, files) goes through eval/load_table boundaries and is not covered.", ref="6 (C02), App. D"),
 "C09": dict(cat="proof", tech="exception-identity contracts along the call chain (symbolic execution with exceptions as first-class outcomes), handler-shape obligations for dask/pygmo boundaries",
   text="The model call may raise an arbitrary exception object e; ModelGroup.run, Processor.run_pipeline, exposure.run_pipeline and Observation._run_single_pipeline are each proved to let exactly that object escape (reference equality), with a note naming group and model resp. one note per (key, value) of the failing run, and with the ghost trace being a prefix (no later model executed). Every handler around a pipeline call in the running modes, calibration fitness and the dask/pygmo wrappers must end in a bare raise; evolve() is followed by wait_check() before results are read.",
   note="Trusted: dask re-raises at compute time, pygmo wait_check re-raises (external); notes.parameters proved for 0..2 swept parameters (bounded in that dimension).", ref="6 (C09)"),
}
PENDING_REASON = "check not built yet in this session (planned in DESIGN.md section 6); not claimed until its obligations are generated from the real code"
def main():
    checks = []
    for pid, c in sorted(CLAIMED.items()):
        checks.append({"property_id": pid, "quick_cmd": f"python3-vt check.py {pid} --tier quick",
                       "thorough_cmd": f"python3-vt check.py {pid} --tier thorough",
                       "evidence_file": f"evidence/{pid}.json", "replay_cmd_template": f"python3-vt check.py {pid} --replay {{path}}",
                       "engine": "pyvc", "level_claimed": {"category": c["cat"], "text": c["text"], "design_ref": c["ref"]},
                       "level_note": c["note"], "technique": c["tech"]})
    na_file = HERE / "tools" / "not_applicable.json"
    na = json.loads(na_file.read_text()) if na_file.exists() else {}
    props = [json.loads(l)["id"] for l in (HERE / "properties.jsonl").read_text().splitlines() if l.strip()]
    not_app = [{"property_id": p, "reason": na.get(p, PENDING_REASON)} for p in props if p not in CLAIMED]
    m = {"version": 1, "setup_cmd": "python3-vt -m compileall -q pyvc contracts replay check.py",
         "hooks": {"guard": "PYXEL_VERIF", "enable": "none needed: contracts are sidecar files, replays import probe models from /verif/replay",
                   "baseline_off_cmd": "cd /repo && /venv/bin/python -m pytest -ra -q -p no:cacheprovider --timeout=900 --continue-on-collection-errors",
                   "source_commits": [], "add_only": True},
         "engines": [{"name": "pyvc", "path": "pyvc/", "serves_properties": sorted(CLAIMED),
                      "kind_free_text": "self-built verification-condition generator: symbolic execution of the real Python AST under sidecar contracts, obligations discharged by z3 (cvc5 second back end), counterexamples replayed on the real code"}],
         "checks": checks, "not_applicable": not_app,
         "notes": "Contract-based deductive verification of the real code; see DESIGN.md. Exit codes: 0 held, 1 violation (replayed), 2 undecided, 3 checker crash."}
    (HERE / "MANIFEST.json").write_text(json.dumps(m, indent=1))
if __name__ == "__main__":
    main()
