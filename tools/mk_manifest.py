#!/usr/bin/env python3
"""Generate /verif/MANIFEST.json from the table below (single source of truth)."""
import json, pathlib
HERE = pathlib.Path(__file__).resolve().parent.parent
CLAIMED = {
 "C12": dict(cat="proof", tech="contracts + AST->VC symbolic execution of the real setters/constructors, z3 (FP theory)",
   text="Class-invariant contracts (every validated field is None or inside its documented range) on the real constructors and setters of Geometry, Characteristics, Environment and APDCharacteristics; every path of each function is symbolically executed for every dynamic input type (None/bool/int/float incl. NaN, inf/str) and the postcondition is discharged by z3 over IEEE-754 terms. Refutations are replayed on the real classes.",
   note="Trusted: pyvc's encoding of Python semantics; library contracts float()/np.min/np.max on scalars; YAML parsing and eval of numpy expressions are outside. Non-numeric values stored unchanged are outside the range predicate.", ref="6 (C12)"),
 "C13": dict(cat="proof", tech="representation-invariant contracts, AST->VC symbolic execution with pointwise arrays, z3",
   text="Representation invariant rep(container) proved preserved (normal and exceptional exit, failure atomicity) by every public mutator of Pixel/Signal/Image/Phase/Photon and the Detector bucket setters, for ndarray inputs of symbolic shape (ndim 0..3) and symbolic dtype, DataArray, None, scalars and lists; equality specified on the empty/non-empty matrix. Induction over operation sequences follows from per-operation preservation.",
   note="Trusted: numpy in-place ufuncs keep shape/dtype and are all-or-nothing; abstract xr.DataArray (dtype/ndim/dims/sizes/coords preserved by copy/clip); ndim>3 behaves like 3.", ref="6 (C13)"),
}
PENDING_REASON = "check not built yet in this session (planned in DESIGN.md section 6); not claimed until its obligations are generated from the real code"
def main():
    checks = []
    for pid, c in sorted(CLAIMED.items()):
        checks.append({"property_id": pid, "quick_cmd": f"python3-vt check.py {pid} --tier quick",
                       "thorough_cmd": f"python3-vt check.py {pid} --tier thorough",
                       "evidence_file": f"evidence/{pid}.json", "replay_cmd_template": f"python3-vt check.py {pid} --replay {{path}}",
                       "engine": "pyvc", "level_claimed": {"category": c["cat"], "text": c["text"], "design_ref": c["ref"]},
                       "level_note": c["note"], "technique": c["tech"]})
    na_file = HERE / "tools" / "not_applicable.json"
    na = json.loads(na_file.read_text()) if na_file.exists() else {}
    props = [json.loads(l)["id"] for l in (HERE / "properties.jsonl").read_text().splitlines() if l.strip()]
    not_app = [{"property_id": p, "reason": na.get(p, PENDING_REASON)} for p in props if p not in CLAIMED]
    m = {"version": 1, "setup_cmd": "python3-vt -m compileall -q pyvc contracts replay check.py",
         "hooks": {"guard": "PYXEL_VERIF", "enable": "none needed: contracts are sidecar files, replays import probe models from /verif/replay",
                   "baseline_off_cmd": "cd /repo && /venv/bin/python -m pytest -ra -q -p no:cacheprovider --timeout=900 --continue-on-collection-errors",
                   "source_commits": [], "add_only": True},
         "engines": [{"name": "pyvc", "path": "pyvc/", "serves_properties": sorted(CLAIMED),
                      "kind_free_text": "self-built verification-condition generator: symbolic execution of the real Python AST under sidecar contracts, obligations discharged by z3 (cvc5 second back end), counterexamples replayed on the real code"}],
         "checks": checks, "not_applicable": not_app,
         "notes": "Contract-based deductive verification of the real code; see DESIGN.md. Exit codes: 0 held, 1 violation (replayed), 2 undecided, 3 checker crash."}
    (HERE / "MANIFEST.json").write_text(json.dumps(m, indent=1))
if __name__ == "__main__":
    main()
