#!/usr/bin/env python3
"""Self-test of the native replay scenarios: every module-level scenario of contracts/Cxx.py (names containing REPLAY, and the
STANDIN table) is built with an EMPTY witness and run on the unchanged tree. A scenario that reports `violated` or `error`
there would confirm any refutation it is attached to (or hide one): it must say `held`.
usage: python3-vt tools/replay_selftest.py [Cxx ...]     (exit 1 if any scenario does not hold on the current tree)"""
import importlib, json, os, pathlib, subprocess, sys, tempfile
from concurrent.futures import ThreadPoolExecutor
HERE = pathlib.Path(__file__).resolve().parent.parent
sys.path.insert(0, str(HERE))
REPO = os.environ.get("PYVC_REPO", "/repo")
KNOWN = [json.loads(l) for l in open(HERE / "known_findings.jsonl") if l.strip().startswith("{")] if (HERE / "known_findings.jsonl").exists() else []


def run(item):
    prop, name, sc = item
    with tempfile.NamedTemporaryFile("w", suffix=".json", delete=False) as f:
        json.dump({"property": prop, "obligation": name, "scenario": sc}, f)
    try:
        r = subprocess.run(["/venv/bin/python", "-c", "import runpy,sys; a=sys.argv; sys.argv=['run.py', a[1]]; runpy.run_path(a[2], run_name='__main__')",
                            f.name, str(HERE / "replay" / "run.py")], cwd=REPO, capture_output=True, text=True, timeout=600,
                           env={**os.environ, "PYTHONPATH": str(HERE / "replay"), "PYTHONDONTWRITEBYTECODE": "1"})
        last = [l for l in r.stdout.splitlines() if l.startswith("REPLAY ")]
        out = json.loads(last[-1][7:]) if last else {"status": "error", "detail": r.stderr[-400:]}
    except Exception as e:
        out = {"status": "error", "detail": repr(e)}
    finally:
        os.unlink(f.name)
    return prop, name, out


def main():
    props = sys.argv[1:] or [f"C{i:02d}" for i in range(1, 21)]
    items = []
    for prop in props:
        mod = importlib.import_module(f"contracts.{prop}")
        cands = {n: getattr(mod, n) for n in dir(mod) if "REPLAY" in n and callable(getattr(mod, n))}
        cands.update({f"STANDIN[{k}]": v for k, v in getattr(mod, "STANDIN", {}).items()})
        for n, fn in cands.items():
            if getattr(fn, "__module__", None) not in (mod.__name__, None) and n not in getattr(mod, "STANDIN", {}):
                pass
            try:
                sc = fn({})
            except Exception as e:
                print(f"{prop} {n}: needs a witness ({type(e).__name__}) - skipped")
                continue
            if isinstance(sc, dict) and sc.get("code"):
                items.append((prop, n, sc))
    bad = 0
    with ThreadPoolExecutor(8) as ex:
        for prop, n, out in ex.map(run, items):
            st = out.get("status")
            print(f"{prop} {n}: {st} {str(out.get('detail'))[:200] if st != 'held' else ''}")
            bad += st not in ("held",)
    print(f"{len(items)} scenarios, {bad} not holding")
    return 1 if bad else 0


if __name__ == "__main__":
    sys.exit(main())
