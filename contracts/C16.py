"""C16 — digitised images are bounded, monotone, saturating and never wrap.

For every allowed bit resolution b in 4..64 (a complete case split, not a bound) the real source of
apply_simple_adc / apply_sar_adc / apply_sar_adc_with_noise / get_dtype is executed symbolically at an
arbitrary pixel (pointwise arrays):
  simple.range[b]      0 <= code <= 2^b - 1
  simple.low[b]        v <= vmin  =>  code == 0
  simple.full_scale[b] v >= vmax  =>  code == 2^b - 1
  simple.monotone[b]   v1 <= v2   =>  code1 <= code2
  dtype.wide[b]        get_dtype(b) is unsigned with at least b bits (so an in-range code never wraps)
  sar.range[b], sar.monotone[b], sar_noise.zero_noise[b]
simple.* use the abstract rounding mode "rnd" (every float operation passes through fl, IEEE facts ground-
instantiated); sar.* use exact real arithmetic (monotonicity only needs monotone rounding; stated).
"""
from __future__ import annotations

from pyvc import rnd
from .common import *  # noqa: F401,F403
from . import detmodel as D
from pyvc import arrays

RE = "pyxel/models/readout_electronics/"
TRUSTED = ["rnd mode: binary64 rounding abstracted by fl with relative error 2^-53, monotone, exact on integers <= 2^53; no overflow/underflow/NaN (signal frames are finite)",
           "sar.*: machine arithmetic treated as mathematical (real mode)",
           "np.random.normal(loc=0, scale=0) returns an all-zero array (zero-noise obligation)",
           "A-NUMBA not involved; np.trunc/np.clip/astype pointwise contracts"]
BITS = list(range(4, 65))
R, Cc = z3.Int("R"), z3.Int("C")
G1 = (z3.Int("g1_r"), z3.Int("g1_c"))
G2 = (z3.Int("g2_r"), z3.Int("g2_c"))
LO, HI = z3.Real("vmin"), z3.Real("vmax")
SIG = z3.Function("signal", z3.IntSort(), z3.IntSort(), z3.RealSort())


def base_assume(ex):
    for g in (G1, G2):
        ex.st.assume(z3.And(g[0] >= 0, g[0] < R, g[1] >= 0, g[1] < Cc))
    ex.st.assume(z3.And(R > 0, Cc > 0))
    ex.st.ghost["generic"] = [G1, G2]


def signal_array(ex, any_float=False):
    """The signal frame; with any_float its type is any of the types a Signal container accepts (float16 / float32 / float64)."""
    dt = VDtype("float64")
    if any_float:
        d = z3.Int("signal_dtype")
        ex.st.assume(z3.Or(*[d == arrays.dt_code(n) for n in ("float16", "float32", "float64")]))
        dt = VDtype(d)
    return ex.st.alloc(HArr((R, Cc), dt, lambda ix: VFloat(SIG(z_int(ix[0]), z_int(ix[1])))))


def record_final_cast(cfg):
    """The SAR converters end with `<accumulated codes>.astype(<image type>)`: record the type the codes were accumulated in."""
    def astype_rec(ex, f, args, kwargs, fr):
        src = f.self_val if getattr(f, "self_val", None) is not None else args[0]
        if ex.is_arr(src):
            ex.__dict__.setdefault("cast_from", []).append(ex.st.cell(src).dtype)
        return ex.lib.call(ex, f, args, kwargs, fr)
    cfg.lib_overrides["ndarray.astype"] = astype_rec
    return cfg


def accumulated_in_binary64(u, p, tag, w, rp):
    """bit weights up to 2**(b-1) are summed before the cast: the sum is exact only in binary64 (b <= 53), whatever the frame's own type."""
    src = p.ex.__dict__.get("cast_from", [])
    ok = bool(src) and all(is_conc(d.v) and d.v == "float64" for d in src[-1:])
    u.oblige(p, f"{tag}.codes_accumulated_in_binary64", ok, dict(w, accumulator=str([str(d.v) for d in src[-1:]])), rp)


def prove_rnd(u: Unit, p: Path, name, hyps, goal, witness=None, replay=None, mono_only=False):
    """Discharge `goal` with the ground-instantiated fl axioms over the terms of the query. Monotonicity
    goals only need sign + monotonicity facts (a much easier NRA query than with the error bounds)."""
    terms = list(p.st.pc) + list(hyps) + [goal]
    ax = rnd.ground_axioms(terms, rel_error=not mono_only)
    return u.oblige(p, name, goal, witness, replay, hyps=list(hyps) + ax)


def simple_replay(b):
    def mk(w):
        return {"code": f"""
import numpy as np, itertools
from pyxel.models.readout_electronics.simple_adc import apply_simple_adc
from pyxel.util import get_dtype
b = {b}
K = 2**b - 1
VIOLATED, DETAIL = False, 'no failing voltage found among model and guided candidates'
cands = [({pylit(w.get('vmin', 0.0))}, {pylit(w.get('vmax', 1.0))}, {pylit(w.get('v1', 0.0))}, {pylit(w.get('v2', 0.0))})]
rng = np.random.default_rng(0)
for _ in range(4000):
    hi = float(rng.uniform(0.1, 10.0)); lo = float(rng.choice([0.0, -hi, rng.uniform(-1, 0.05)]))
    cands.append((lo, hi, hi, float(np.nextafter(hi, np.inf))))
for lo, hi, v1, v2 in cands:
    if not (lo < hi) or not all(map(np.isfinite, (lo, hi, v1, v2))):
        continue
    vs = np.array([[lo, hi, v1, v2, min(v1, v2), max(v1, v2)]], dtype=float)
    out = apply_simple_adc(signal=vs, bit_resolution=b, voltage_min=lo, voltage_max=hi, dtype=get_dtype(b))
    o = [int(x) for x in out[0]]
    bad = None
    if not all(0 <= x <= K for x in o): bad = 'code outside 0..2^b-1'
    elif o[0] != 0: bad = 'v = vmin does not give 0'
    elif o[1] != K: bad = 'v = vmax does not give full scale'
    elif o[4] > o[5]: bad = 'not monotone'
    elif vs[0, 2] >= hi and o[2] != K: bad = 'v >= vmax does not give full scale'
    if bad:
        VIOLATED = True
        DETAIL = f'{{b}}-bit ADC, range [{{lo.hex()}}, {{hi.hex()}}], inputs {{[float(x).hex() for x in vs[0]]}} -> codes {{o}} (full scale {{K}}): {{bad}}'
        break
""", "expect": "codes within 0..2^b-1, saturating at both ends, monotone"}
    return mk


def _simple_unit(b):
    def un(u: Unit):
        fi = u.fn(RE + "simple_adc.py::apply_simple_adc")
        fd = u.fn("pyxel/util/misc.py::get_dtype")
        cfg = Cfg("rnd")
        K = 2**b - 1

        def setup(ex):
            base_assume(ex)
            ex.st.assume(LO < HI)
            # the converter's own divisor is positive after rounding (ranges narrower than an ulp are excluded)
            ex.st.assume(fl(HI - LO) > 0)
            dt = ex.call(VFunc(fd), [VInt(b)], {}, Frame(None, fd.module))
            return [], {"signal": signal_array(ex), "bit_resolution": VInt(b), "voltage_min": VFloat(LO), "voltage_max": VFloat(HI), "dtype": dt}
        ps = u.paths(fi, setup, cfg, label=f"apply_simple_adc[{b}]")
        v1, v2 = SIG(*G1), SIG(*G2)
        w = {"vmin": LO, "vmax": HI, "v1": v1, "v2": v2, "bits": b}
        rp = simple_replay(b)
        for p in ps:
            if p.kind != "return" or not p.ex.is_arr(p.value):
                u.oblige(p, f"simple.returns_array[{b}]", False, w, rp)
                continue
            out = p.st.cell(p.value)
            c1, c2 = out.elem(G1), out.elem(G2)
            t1, t2 = z_int(as_int_term(c1)), z_int(as_int_term(c2))
            prove_rnd(u, p, f"simple.range[{b}]", [], z3.And(t1 >= 0, t1 <= K), w, rp)
            prove_rnd(u, p, f"simple.low[{b}]", [v1 <= LO], t1 == 0, w, rp)
            prove_rnd(u, p, f"simple.full_scale[{b}]", [v1 >= HI], t1 == K, w, rp)
            prove_rnd(u, p, f"simple.monotone[{b}]", [v1 <= v2], t1 <= t2, w, rp, mono_only=True)
            u.oblige(p, f"simple.shape[{b}]", z3.And(z_int(out.shape[0]) == R, z_int(out.shape[1]) == Cc), w)
            wide = is_conc(out.dtype.v) and out.dtype.v.startswith("uint") and int(out.dtype.v[4:]) >= b
            u.oblige(p, f"dtype.wide[{b}]", bool(wide), {"bits": b, "dtype": str(out.dtype.v)},
                     lambda w: {"code": f"""
import numpy as np
from pyxel.util import get_dtype
d = get_dtype({b})
VIOLATED = not (d.kind == 'u' and d.itemsize * 8 >= {b})
DETAIL = 'get_dtype({b}) = ' + str(d)
""", "expect": "unsigned type with at least b bits"})
        u.cover(f"simple.cover[{b}]", ps, lambda p: p.kind == "return")
    return un


for _b in BITS:
    unit("C16", f"simple[{_b}]")(_simple_unit(_b))


# ---- successive approximation: inductive proof for a symbolic number of bits ------------------------------
B = z3.Int("adc_bits")
_v, _m, _b, _k = z3.Real("v"), z3.Real("m"), z3.Int("b"), z3.Int("k")
refS = z3.RecFunction("refS", z3.RealSort(), z3.IntSort(), z3.RealSort())
sarDi = z3.RecFunction("sarD", z3.RealSort(), z3.RealSort(), z3.IntSort(), z3.IntSort(), z3.IntSort())
sarD = lambda v, m, b, k: z3.ToReal(sarDi(v, m, b, k))
sarS = z3.RecFunction("sarS", z3.RealSort(), z3.RealSort(), z3.IntSort(), z3.IntSort(), z3.RealSort())
z3.RecAddDefinition(refS, [_m, _k], z3.If(_k <= 0, _m / 2, refS(_m, _k - 1) / 2))
z3.RecAddDefinition(sarS, [_v, _m, _b, _k], z3.If(_k <= 0, _v, sarS(_v, _m, _b, _k - 1) - z3.If(
    sarS(_v, _m, _b, _k - 1) >= refS(_m, _k - 1), refS(_m, _k - 1), z3.RealVal(0))))
z3.RecAddDefinition(sarDi, [_v, _m, _b, _k], z3.If(_k <= 0, z3.IntVal(0), sarDi(_v, _m, _b, _k - 1) + z3.If(
    sarS(_v, _m, _b, _k - 1) >= refS(_m, _k - 1), pow2(_b - _k), z3.IntVal(0))))
SAR_SPEC = ("spec (from the statement's successive-approximation description): ref_0 = max/2, ref_(k+1) = ref_k/2; at step k the bit "
            "2^(b-k-1) is added and ref_k subtracted iff the residual >= ref_k")


def pow2_facts(st, k):
    """True facts about 2**n instantiated at the loop index (library contract of int.__pow__)."""
    st.assume(pow2(z3.IntVal(0)) == 1)
    st.assume(z3.Implies(z3.And(k >= 0, k < B), z3.And(pow2(B - k) == 2 * pow2(B - (k + 1)), pow2(B - (k + 1)) >= 1)))
    st.assume(z3.Implies(z3.And(k >= 0, k <= B), pow2(B - k) >= 1))
    st.assume(pow2(B) >= 1)


def sar_loop_spec(header, ref_is_array):
    def cells(ex, fr):
        return ex.st.cell(fr.locals["data_digitized_2d"]), ex.st.cell(fr.locals["signal_normalized_2d"])

    def havoc(ex, fr, k):
        for nm in ("data_digitized_2d", "signal_normalized_2d") + (("ref_2d",) if ref_is_array else ()):
            c = ex.st.cell(fr.locals[nm])
            f = z3.Function(ex.st.fresh_name(nm), z3.IntSort(), z3.IntSort(), z3.RealSort())
            c.elem = lambda ix, f=f: VFloat(f(z_int(ix[0]), z_int(ix[1])))
        pow2_facts(ex.st, k)

    def modifies(ex, fr):
        return [fr.locals[nm].addr for nm in ("data_digitized_2d", "signal_normalized_2d") + (("ref_2d",) if ref_is_array else ())]

    def invariant(ex, fr, k):
        d, s_ = cells(ex, fr)
        m = to_real(fr.locals["max_volt"])
        inv = {}
        D, S = {}, {}
        # UNIT of the auxiliary state (reference and residual): the kernel may work in volts (first reference = max_volt / 2, unit 1) or in
        # any other unit (e.g. normalised to the range: first reference 0.5, unit 1 / max_volt) -- the contract is about the CODES, the
        # unit is read off the first reference at loop entry (ghost) and must be positive
        unit = ex.st.ghost.get("SAR_UNIT")
        if unit is None:
            r0 = to_real(ex.st.cell(fr.locals["ref_2d"]).elem(G1)) if ref_is_array else to_real(fr.locals["ref"])
            unit = z3.RealVal(1) if not ex.st.feasible(r0 != m / 2) else r0 / (m / 2)
            ex.st.ghost["SAR_UNIT"] = unit
        one = z3.is_rational_value(unit) and unit.as_fraction() == 1
        sc = (lambda t: t) if one else (lambda t: unit * t)
        if not one:
            inv["unit_positive"] = unit > 0
        for name, g in (("g1", G1), ("g2", G2)):
            v = SIG(*g)
            D[name], S[name] = to_real(d.elem(g)), to_real(s_.elem(g))
            inv[f"functional.data.{name}"] = D[name] == sarD(v, m, B, k)
            inv[f"functional.residual.{name}"] = S[name] == sc(sarS(v, m, B, k))
            inv[f"range.{name}"] = z3.And(D[name] >= 0, D[name] + z3.ToReal(pow2(B - k)) <= z3.ToReal(pow2(B)))
        if ref_is_array:
            r = ex.st.cell(fr.locals["ref_2d"])
            for name, g in (("g1", G1), ("g2", G2)):
                inv[f"functional.ref.{name}"] = to_real(r.elem(g)) == sc(refS(m, k))
        else:
            inv["functional.ref"] = to_real(fr.locals["ref"]) == sc(refS(m, k))
        inv["monotone"] = z3.Implies(SIG(*G1) <= SIG(*G2), z3.And(
            D["g1"] <= D["g2"],
            z3.Implies(D["g1"] == D["g2"], S["g1"] <= S["g2"]),
            z3.Implies(D["g1"] != D["g2"], D["g2"] - D["g1"] >= z3.ToReal(pow2(B - k)))))
        inv["shapes"] = z3.And(z_int(d.shape[0]) == R, z_int(d.shape[1]) == Cc, z_int(s_.shape[0]) == R, z_int(s_.shape[1]) == Cc)
        return inv

    def seq(ex, fr, it):
        c = ex.st.cell(it)
        return VSeq(z_int(c.shape[0]), lambda i: VInt(i), None, "list")
    return LoopSpec(header, invariant, havoc=havoc, name="sar.loop", seq=seq, modifies=modifies)


def sar_replay(noisy=False):
    def mk(w):
        b = min(max(int(w.get("bits", 8)), 1), 64)
        return {"code": f"""
import numpy as np
from pyxel.models.readout_electronics.sar_adc import apply_sar_adc
from pyxel.models.readout_electronics.sar_adc_with_noise import apply_sar_adc_with_noise
b = {b}
vmax = {pylit(w.get('vmax', 1.0))}
vs = np.array([[{pylit(w.get('v1', 0.0))}, {pylit(w.get('v2', 0.0))}]], dtype=float)
def spec(v):
    d, s, ref = 0, v, vmax / 2
    for k in range(b):
        if s >= ref: d += 2 ** (b - k - 1); s -= ref
        ref /= 2
    return d
out = apply_sar_adc(signal_2d=vs.copy(), num_rows=1, num_cols=2, min_volt=0.0, max_volt=vmax, adc_bits=b)
o = [int(x) for x in out[0]]
outn = apply_sar_adc_with_noise(signal_2d=vs.copy(), num_rows=1, num_cols=2, strengths=np.zeros(b), noises=np.zeros(b), max_volt=vmax, adc_bits=b)
on = [int(x) for x in outn[0]]
exp = [spec(float(x)) for x in vs[0]]
VIOLATED = (not all(0 <= x <= 2**b - 1 for x in o + on) or (vs[0, 0] <= vs[0, 1] and (o[0] > o[1] or on[0] > on[1])) or o != exp or on != o)
DETAIL = f'{{b}}-bit SAR, max_volt={{vmax}}, inputs {{vs[0].tolist()}} -> plain {{o}}, zero-noise variant {{on}}, specification {{exp}}'
""", "expect": "SAR codes within 0..2^b-1, monotone, equal to the successive-approximation specification; zero-noise variant identical"}
    return mk


def sar_post(u: Unit, p: Path, tag, w, rp):
    out = p.st.cell(p.value)
    m = HI
    t1, t2 = z_int(as_int_term(out.elem(G1))), z_int(as_int_term(out.elem(G2)))
    u.oblige(p, f"{tag}.functional", z3.And(z3.ToReal(t1) == sarD(SIG(*G1), m, B, B), z3.ToReal(t2) == sarD(SIG(*G2), m, B, B)), w, rp)
    u.oblige(p, f"{tag}.range", z3.And(t1 >= 0, t1 <= pow2(B) - 1), w, rp)
    u.oblige(p, f"{tag}.monotone", t1 <= t2, w, rp, hyps=[SIG(*G1) <= SIG(*G2)])
    u.oblige(p, f"{tag}.shape", z3.And(z_int(out.shape[0]) == R, z_int(out.shape[1]) == Cc), w, rp)
    width = int(out.dtype.v[4:]) if is_conc(out.dtype.v) and out.dtype.v.startswith("uint") else 0
    u.oblige(p, f"{tag}.dtype.wide", B <= width, w, rp)


@unit("C16", "sar")
def sar_unit(u: Unit):
    fi = u.fn(RE + "sar_adc.py::apply_sar_adc")
    u.fn("pyxel/util/misc.py::get_dtype")
    cfg = record_final_cast(Cfg("real"))
    cfg.loops[(fi.qualname, 0)] = sar_loop_spec("i in np.arange(adc_bits)", False)

    def setup(ex):
        base_assume(ex)
        ex.st.assume(z3.And(B >= 4, B <= 64, HI > 0))
        pow2_facts(ex.st, z3.IntVal(0))
        return [], {"signal_2d": signal_array(ex, any_float=True), "num_rows": VInt(R), "num_cols": VInt(Cc), "min_volt": VFloat(LO),
                    "max_volt": VFloat(HI), "adc_bits": VInt(B)}
    w = {"vmax": HI, "v1": SIG(*G1), "v2": SIG(*G2), "bits": B}
    u.internal_witness, u.internal_replay = w, sar_replay()
    ps = u.paths(fi, setup, cfg, label="apply_sar_adc")
    for p in ps:
        if p.kind != "return" or not p.ex.is_arr(p.value):
            u.oblige(p, "sar.returns_array", False, w, sar_replay())
            continue
        sar_post(u, p, "sar", w, sar_replay())
        accumulated_in_binary64(u, p, "sar", w, SAR_MODEL_REPLAY)
    u.cover("sar.cover", ps, lambda p: p.kind == "return")


SAR_TRANSITIONS_REPLAY = lambda w: {"code": """
import numpy as np
from pyxel.models.readout_electronics.sar_adc import apply_sar_adc
from pyxel.models.readout_electronics.sar_adc_with_noise import apply_sar_adc_with_noise
VIOLATED, DETAIL = False, 'zero noise reproduces the plain converter at, just below and just above every code transition'
for bits in (8, 12):
    for vmax in (10.0, 3.3, 5.0, 1.8, 2.5):
        k = np.arange(1, 2 ** bits, dtype=float)
        t = k * vmax / 2 ** bits
        volts = np.concatenate([np.nextafter(t, 0.0), t, np.nextafter(t, np.inf), [0.0, vmax, np.nextafter(vmax, 0.0)]])
        n = int(np.ceil(len(volts) / 64.0)) * 64
        sig = np.zeros(n); sig[:len(volts)] = volts; sig = sig.reshape(-1, 64)
        plain = apply_sar_adc(signal_2d=sig.copy(), num_rows=sig.shape[0], num_cols=64, min_volt=0.0, max_volt=vmax, adc_bits=bits)
        noisy = apply_sar_adc_with_noise(signal_2d=sig.copy(), num_rows=sig.shape[0], num_cols=64, strengths=np.zeros(bits), noises=np.zeros(bits), max_volt=vmax, adc_bits=bits)
        bad = np.argwhere(np.asarray(plain) != np.asarray(noisy))
        if len(bad):
            i, j = bad[0]
            VIOLATED, DETAIL = True, f'{bits} bits, range maximum {vmax}: {len(bad)} of {len(volts)} voltages differ, e.g. V={sig[i, j]!r}: plain {plain[i, j]} zero-noise {noisy[i, j]}'
            break
    if VIOLATED: break
""", "expect": "apply_sar_adc_with_noise with zero strengths and noises gives the codes of apply_sar_adc (binary64, all transitions of 8 and 12 bit converters, five range maxima: BOUNDED)"}
STANDIN = {r"\bsar": SAR_TRANSITIONS_REPLAY}
# "its noisy variant with zero noise reproduces it exactly" is a statement about binary64 results: over the reals it is PROVED (both kernels
# compute the same specification function, whatever unit they keep the reference in); two kernels that round differently at a transition
# are only visible natively. The transitions scenario therefore runs in EVERY tier as a bounded audit (never counted as proved).
AUDITS = {"sar.zero_noise_binary64_transitions": lambda w: dict(SAR_TRANSITIONS_REPLAY(w), bound="every code transition -1 ulp / exact / +1 ulp of 8- and 12-bit converters x range maxima 10, 3.3, 5, 1.8, 2.5 V",
                                                               function="pyxel/models/readout_electronics/sar_adc.py::apply_sar_adc")}


@unit("C16", "sar_noise")
def sar_noise_unit(u: Unit):
    """Zero noise (all strengths and noises 0): the noisy variant computes the same specification
    function as the plain converter, hence the same codes (transitivity over the two contracts)."""
    fi = u.fn(RE + "sar_adc_with_noise.py::apply_sar_adc_with_noise")
    cfg = record_final_cast(Cfg("real"))
    cfg.loops[(fi.qualname, 0)] = sar_loop_spec("i in np.arange(adc_bits)", True)

    def setup(ex):
        base_assume(ex)
        ex.st.assume(z3.And(B >= 4, B <= 64, HI > 0))
        pow2_facts(ex.st, z3.IntVal(0))
        zeros = lambda: ex.st.alloc(HArr((B,), VDtype("float64"), lambda ix: VFloat(0.0)))
        return [], {"signal_2d": signal_array(ex, any_float=True), "num_rows": VInt(R), "num_cols": VInt(Cc), "strengths": zeros(), "noises": zeros(),
                    "max_volt": VFloat(HI), "adc_bits": VInt(B)}
    w = {"vmax": HI, "v1": SIG(*G1), "v2": SIG(*G2), "bits": B}
    u.internal_witness, u.internal_replay = w, sar_replay(True)
    ps = u.paths(fi, setup, cfg, label="apply_sar_adc_with_noise[zero noise]")
    for p in ps:
        if p.kind != "return" or not p.ex.is_arr(p.value):
            u.oblige(p, "sar_noise.returns_array", False, w, sar_replay(True))
            continue
        sar_post(u, p, "sar_noise.zero_noise", w, sar_replay(True))
        accumulated_in_binary64(u, p, "sar_noise", w, SAR_MODEL_REPLAY)
    u.cover("sar_noise.cover", ps, lambda p: p.kind == "return")


# ---- the simple_adc MODEL: which converter settings reach apply_simple_adc ------------------------------------------------
MODEL_REPLAY = lambda w: {"code": """
import numpy as np, verif_probes as VP
from pyxel.models.readout_electronics import simple_adc
VIOLATED, DETAIL = False, 'no requested image type narrower than the resolution was accepted'
for bits in (8, 12, 16, 32):
    for data_type in (None, 'uint8', 'uint16', 'uint32', 'uint64'):
        det = VP.detector(adc_bit_resolution=bits, adc_voltage_range=(0.0, 10.0))
        det.signal.array = np.array([[0.0, 2.5, 5.0, 10.0]] * 3)
        try:
            simple_adc(det, data_type=data_type)
        except Exception as e:
            continue
        img = det.image.array
        full = 2 ** bits - 1
        if int(img[0, 3]) != full or not np.all(np.diff(img[0].astype(np.int64)) >= 0):
            VIOLATED, DETAIL = True, f'{bits}-bit converter with data_type={data_type}: codes {img[0].tolist()} ({img.dtype}); full scale is {full}'
            break
    if VIOLATED: break
""", "expect": "the image type holds full scale: codes never wrap"}


def _model_units():
    for bits in (8, 12, 16, 24, 32, 33, 64):
        def un(u: Unit, bits=bits):
            fi = u.fn(RE + "simple_adc.py::simple_adc")
            u.fn("pyxel/util/misc.py::get_dtype")
            cci = u.cls("pyxel/detectors/characteristics.py::Characteristics")
            n_ok = 0
            for data_type in (None, "uint8", "uint16", "uint32", "uint64"):
                cfg = D.install(Cfg("real"))
                q = RE + "simple_adc.py::apply_simple_adc"

                def core(ex, args, kwargs, fr):
                    ex.hold["core"] = dict(kwargs)
                    dt = kwargs.get("dtype")
                    return arrays.new_array(ex, (D.ROWS, D.COLS), dt if isinstance(dt, VDtype) else VDtype("uint64"), lambda ix: VInt(z3.Int("code")))
                cfg.contracts[q] = Contract(q, core, "C16.simple[b]: bounded, monotone, saturating for a dtype of at least b bits")

                def setup(ex, data_type=data_type):
                    det = D.mk_detector(ex, u)
                    st = ex.st
                    ex.hold = {}
                    cht = st.alloc(HObj(cci, {"_adc_bit_resolution": VInt(bits), "_adc_voltage_range": VTuple([VFloat(LO), VFloat(HI)])}))
                    st.cell(det).fields["_characteristics"] = cht
                    sig = D.sym_frame(ex, "signal_in")
                    st.cell(ex.det_parts["signal"]).fields["_array"] = sig
                    ex.hold["signal"] = sig
                    return [det], {"data_type": NONE if data_type is None else VStr(data_type)}
                ps = u.paths(fi, setup, cfg, label=f"simple_adc[{bits} bits, data_type={data_type}]")
                for p in ps:
                    if p.kind != "return":
                        continue          # a refused setting is fine
                    n_ok += 1
                    kw = p.ex.hold.get("core", {})
                    dt = kw.get("dtype")
                    wide = isinstance(dt, VDtype) and is_conc(dt.v) and dt.v.startswith("uint") and int(dt.v[4:]) >= bits
                    u.oblige(p, f"model.simple_adc.image_type_holds_full_scale[{bits},{data_type}]", bool(wide), {"bits": bits, "data_type": str(data_type), "dtype": str(getattr(dt, "v", dt))}, MODEL_REPLAY)
                    okargs = isinstance(kw.get("bit_resolution"), VInt) and kw["bit_resolution"].v == bits and isinstance(kw.get("voltage_min"), VFloat) and z3.eq(kw["voltage_min"].v, LO) \
                        and isinstance(kw.get("voltage_max"), VFloat) and z3.eq(kw["voltage_max"].v, HI)
                    u.oblige(p, f"model.simple_adc.converter_settings_of_the_detector[{bits},{data_type}]", bool(okargs), {}, MODEL_REPLAY)
                    sig_in, sig0 = kw.get("signal"), p.ex.hold["signal"]
                    sig0 = sig0.val if isinstance(sig0, VMaybe) else sig0
                    img = p.st.cell(p.ex.det_parts["image"]).fields.get("_array")
                    flows = isinstance(sig_in, VRef) and sig_in.addr == sig0.addr and p.ex.is_arr(img)
                    u.oblige(p, f"model.simple_adc.digitises_the_detector_signal_into_the_image[{bits},{data_type}]",
                             z3.And(zb(bool(flows)), (to_real(p.st.cell(img).elem(D.GEN)) == z3.ToReal(z3.Int("code"))) if flows else z3.BoolVal(False)), {}, MODEL_REPLAY)
            u.cover(f"model.simple_adc.cover[{bits}]", [1] * n_ok, lambda _: True)
        unit("C16", f"model.simple_adc[{bits}]")(un)


_model_units()


# ---- the SAR MODELS: what reaches the converters and where the codes go ---------------------------------------------------------
SAR_MODEL_REPLAY = lambda w: {"code": """
import numpy as np, verif_probes as VP
from pyxel.models.readout_electronics import sar_adc, sar_adc_with_noise
VIOLATED, DETAIL = False, 'both SAR models digitise the detector signal with the detector converter settings; zero noise reproduces the plain model'
for bits, rng in ((8, (0.0, 5.0)), (12, (0.0, 3.3)), (16, (0.0, 10.0)), (10, (1.0, 5.0))):
    d1 = VP.detector(adc_bit_resolution=bits, adc_voltage_range=rng); d2 = VP.detector(adc_bit_resolution=bits, adc_voltage_range=rng)
    sig = np.array([[0.0, rng[1] / 3, rng[1] / 2, rng[1] * 0.999], [rng[1], rng[1] / 7, 0.1, 0.2], [0.3, 0.4, 0.5, 0.6]])
    d1.signal.array = sig.copy(); d2.signal.array = sig.copy()
    sar_adc(d1); sar_adc_with_noise(d2, strengths=[0.0] * bits, noises=[0.0] * bits)
    a, b = d1.image.array, d2.image.array
    exp = np.minimum(np.floor(sig / rng[1] * 2 ** bits), 2 ** bits - 1)
    if not np.array_equal(a, b) or not np.array_equal(a.astype(float), exp) or not np.array_equal(d1.signal.array, sig):
        VIOLATED, DETAIL = True, f'{bits} bits, range {rng}: plain {a[0].tolist()} zero-noise {b[0].tolist()} expected {exp[0].tolist()}'; break
    for ft, b2 in ((np.float32, 28), (np.float16, 12)):          # frames of the narrower types a Signal accepts
        e1 = VP.detector(adc_bit_resolution=b2, adc_voltage_range=(0.0, 4.0)); e2 = VP.detector(adc_bit_resolution=b2, adc_voltage_range=(0.0, 4.0))
        s2 = np.array([[0.0, 1.0, 3.0, 4.0], [4.0, 2.0, 0.5, 8.0], [3.5, 3.75, 1e3, 0.25]], dtype=ft)
        e1.signal.array = s2.copy(); e2.signal.array = s2.copy()
        sar_adc(e1); sar_adc_with_noise(e2, strengths=[0.0] * b2, noises=[0.0] * b2)
        full = 2 ** b2 - 1
        if int(e1.image.array.max()) > full or int(e2.image.array.max()) > full or not np.array_equal(e1.image.array, e2.image.array) or int(e2.image.array[0, 3]) != full:
            VIOLATED, DETAIL = True, f'{b2} bits on a {np.dtype(ft).name} frame: plain max {int(e1.image.array.max())}, zero-noise max {int(e2.image.array.max())}, full scale {full}'; break
    if VIOLATED: break
    for bad in (dict(strengths=[0.0] * (bits - 1), noises=[0.0] * bits), dict(strengths=[0.0] * bits, noises=[0.0] * (bits + 1)), dict(strengths=[0.0] * bits, noises=[0.0] * (bits - 1))):
        try:
            sar_adc_with_noise(d2, **bad); VIOLATED, DETAIL = True, 'a noise vector of the wrong length was accepted'
        except ValueError:
            pass
        except Exception as e:
            VIOLATED, DETAIL = True, f'a noise vector of the wrong length was not refused up front: {type(e).__name__}' 
""", "expect": "sar_adc and sar_adc_with_noise hand the detector's signal, geometry, range maximum and bit resolution to their converters and store the codes in the image"}


def _sar_model(name, kernel_q, noisy):
    def un(u: Unit):
        fi = u.fn(RE + f"{name}.py::{name}")
        cci = u.cls("pyxel/detectors/characteristics.py::Characteristics")
        for bits in (8, 16):
            cfg = D.install(Cfg("real"))

            def core(ex, args, kwargs, fr):
                ex.hold.setdefault("calls", []).append(dict(kwargs))
                return arrays.new_array(ex, (D.ROWS, D.COLS), VDtype("uint8" if bits == 8 else "uint16"), lambda ix: VInt(z3.Int("code")))
            cfg.contracts[kernel_q] = Contract(kernel_q, core, "C16.sar.*: the converter against its recursive specification")

            def setup(ex, bits=bits):
                det = D.mk_detector(ex, u)
                st = ex.st
                ex.hold = {}
                st.cell(det).fields["_characteristics"] = st.alloc(HObj(cci, {"_adc_bit_resolution": VInt(bits), "_adc_voltage_range": VTuple([VFloat(LO), VFloat(HI)])}))
                sig = D.sym_frame(ex, "signal_in")
                st.cell(ex.det_parts["signal"]).fields["_array"] = sig
                ex.hold["signal"] = sig
                ex.hold["others"] = {k: st.cell(ex.det_parts[k]).fields.get("_array") for k in ("photon", "pixel", "charge")}
                if not noisy:
                    return [det], {}
                ex.hold["str"] = [VFloat(z3.Real(f"strength{i}")) for i in range(bits)]
                ex.hold["noi"] = [VFloat(z3.Real(f"noise{i}")) for i in range(bits)]
                short = 1 if ex.st.branch(z3.Bool("strengths_too_short")) else (2 if ex.st.branch(z3.Bool("noises_too_short")) else 0)
                ex.hold["short"] = short
                return [det], {"strengths": st.alloc(HList(ex.hold["str"][: bits - 1] if short == 1 else list(ex.hold["str"]))),
                               "noises": st.alloc(HList(ex.hold["noi"][: bits - 1] if short == 2 else list(ex.hold["noi"])))}
            ps = u.paths(fi, setup, cfg, label=f"{name}[{bits}]")
            for p in ps:
                h = p.ex.hold
                img = p.st.cell(p.ex.det_parts["image"]).fields.get("_array")
                if noisy and h.get("short"):
                    u.oblige(p, f"model.{name}.refuses_wrong_vector_length[{bits}]", p.kind == "raise" and p.exc_name() == "ValueError" and not h.get("calls"), {}, SAR_MODEL_REPLAY)
                    continue
                if p.kind != "return":
                    u.oblige(p, f"model.{name}.no_raise[{bits}]", False, {"exc": p.exc_name()}, SAR_MODEL_REPLAY)
                    continue
                calls = h.get("calls", [])
                ok = len(calls) == 1
                c = calls[0] if ok else {}
                ok = ok and isinstance(c.get("signal_2d"), VRef) and isinstance(h["signal"], (VRef, VMaybe)) and c["signal_2d"].addr == (h["signal"].val if isinstance(h["signal"], VMaybe) else h["signal"]).addr
                ok = ok and isinstance(c.get("adc_bits"), VInt) and c["adc_bits"].v == bits and isinstance(c.get("max_volt"), VFloat) and z3.eq(c["max_volt"].v, HI)
                ok = ok and isinstance(c.get("num_rows"), VInt) and z3.eq(z_int(c["num_rows"].v), D.ROWS) and isinstance(c.get("num_cols"), VInt) and z3.eq(z_int(c["num_cols"].v), D.COLS)
                if ok and not noisy:
                    ok = c.get("min_volt") is None or (isinstance(c["min_volt"], VFloat) and z3.eq(c["min_volt"].v, LO))
                u.oblige(p, f"model.{name}.converter_gets_detector_signal_and_settings[{bits}]", bool(ok), {"got": str({k: str(v)[:40] for k, v in c.items()})[:300]}, SAR_MODEL_REPLAY)
                if noisy and ok:
                    def arr_is(v, items):
                        if not p.ex.is_arr(v):
                            return z3.BoolVal(False)
                        cc = p.st.cell(v)
                        if len(cc.shape) != 1 or not is_conc(cc.shape[0]) or cc.shape[0] != len(items):
                            return z3.BoolVal(False)
                        return z3.And(*[to_real(cc.elem((i,))) == to_real(items[i]) for i in range(len(items))])
                    u.oblige(p, f"model.{name}.own_noise_vectors[{bits}]", z3.And(arr_is(c.get("strengths"), h["str"]), arr_is(c.get("noises"), h["noi"])), {}, SAR_MODEL_REPLAY)
                stored = p.ex.is_arr(img) and is_conc(p.st.cell(img).dtype.v) and p.st.cell(img).dtype.v == ("uint8" if bits == 8 else "uint16")
                u.oblige(p, f"model.{name}.codes_stored_in_the_image[{bits}]", z3.And(zb(bool(stored)), (to_real(p.st.cell(img).elem(D.GEN)) == z3.ToReal(z3.Int("code"))) if stored else z3.BoolVal(False)), {}, SAR_MODEL_REPLAY)
                same = all(p.st.cell(p.ex.det_parts[k]).fields.get("_array") is v for k, v in h["others"].items()) and p.st.cell(p.ex.det_parts["signal"]).fields.get("_array") is h["signal"]
                u.oblige(p, f"model.{name}.nothing_else_written[{bits}]", bool(same), {}, SAR_MODEL_REPLAY)
            u.cover(f"model.{name}.cover[{bits}]", ps, lambda p: p.kind == "return")
    return un


unit("C16", "model.sar_adc")(_sar_model("sar_adc", RE + "sar_adc.py::apply_sar_adc", False))
unit("C16", "model.sar_adc_with_noise")(_sar_model("sar_adc_with_noise", RE + "sar_adc_with_noise.py::apply_sar_adc_with_noise", True))



def _image_setter(u: Unit):
    """C13's Image.array setter unit (imported late): the codes a converter returns are STORED as given -- in their own unsigned type, whatever
    (narrower) type the image held before -- so 'stored in an unsigned type wide enough for full scale' survives the assignment."""
    from . import C13 as _C13
    return _C13.IMAGE_SETTER_UNIT(u)


unit("C16", "image.setter")(_image_setter)
