"""C09 — a failing model always fails the run, with its identity attached.

The model call is specified as "may raise an arbitrary exception object e" (contract of ModelFunction.__call__).
Transparency obligations are equalities between exception REFERENCES along the chain
  ModelGroup.run -> Processor.run_pipeline -> exposure.run_pipeline -> Observation._run_single_pipeline
plus notes (group / model name; parameter values of the failing run), "no later model runs" (the trace is a prefix),
and handler-shape obligations (every handler on the chain re-raises the same object) for the functions whose bodies are
boundary-heavy (dask / pygmo).
"""
from __future__ import annotations

import ast

from .common import *  # noqa: F401,F403
from .trace import *  # noqa: F401,F403
from . import C01, C02, boundary

OBS = "pyxel/observation/observation.py"
BOUNDED = {
    r'^observation\.sweep': 'sweeps of three runs, failure at run 0, 1 or 2',
    r'^observation\.single_pipeline': 'runs with 0..2 swept parameters',
}      # unit-name / obligation-name patterns -> the family these obligations are proved for
TRUSTED = ["dask re-raises task exceptions at compute time; pygmo's wait_check re-raises island errors (external libraries)",
           "the user's model function may raise any exception object", "logging calls are effect-free (dropped)"]

# the same proofs as C01 / C02 carry the transparency obligations of the inner chain
unit("C09", "group_run")(C01.group_run)
unit("C09", "processor.run_pipeline")(C01.run_pipeline_order)
unit("C09", "exposure.run_pipeline")(C02.run_entry)
from . import C04 as _C04  # noqa: E402
unit("C09", "seed_context")(_C04.cm_restore)         # set_random_seed around each pipeline run: the block's exception leaves the with-statement


SINGLE_REPLAY = lambda w: {"code": """
import verif_probes as VP, pyxel
from pyxel.pipelines import DetectionPipeline, ModelFunction, Processor
from pyxel.exposure import Readout
from pyxel.observation import Observation, ParameterValues
VP.LOG.clear()
det = VP.detector()
pipe = DetectionPipeline(photon_collection=[ModelFunction(func='verif_probes.probe', name='ok', arguments={'level': 1})],
                         charge_generation=[ModelFunction(func='verif_probes.fail_if', name='bad', arguments={'level': 0})])
obs = Observation(parameters=[ParameterValues(key='pipeline.charge_generation.bad.arguments.level', values=[1, 2, 3, 4])], readout=Readout(times=[1.0, 2.0]))
try:
    r = obs.run_pipelines(Processor(detector=det, pipeline=pipe), with_inherited_coords=True) if hasattr(obs, 'run_pipelines') else None
    VIOLATED, DETAIL = True, 'observation returned a result although a model failed'
except VP.ProbeError as e:
    notes = ' '.join(getattr(e, '__notes__', []))
    ran = [x['kwargs'].get('level') for x in VP.LOG if x['name'] == 'bad']
    VIOLATED = ('charge_generation' not in notes or 'bad' not in notes or 'level' not in notes or '2' not in notes or max(ran) > 2)
    DETAIL = 'notes=' + repr(notes)[:300] + ' ; failing-model levels executed: ' + repr(ran)
except Exception as e:
    VIOLATED, DETAIL = True, 'original exception replaced by ' + repr(e)[:200]
""", "expect": "the model's own exception reaches the caller with group, model and parameter notes; later runs not executed"}


@unit("C09", "observation.single_pipeline")
def single_pipeline(u: Unit):
    fi = u.fn(f"{OBS}::Observation._run_single_pipeline")
    oci = u.cls(f"{OBS}::Observation")
    pci = u.cls("pyxel/observation/misc.py::ParameterEntry")
    for nparams in (0, 1, 2):
        cfg = Cfg("real")
        boundary.install(cfg)
        cfg.lib_overrides[("sym_attr", "exc")] = exc_attr
        cfg.lib_overrides["symexc.add_note"] = exc_add_note
        calls = []

        def new_proc(ex, args, kwargs, fr):
            calls.append(("create_new_processor", kwargs))
            return VOpaque("xr", ex.st.fresh_int("new_processor"), {"label": "new_processor", "truthy": True})

        def run_pipe(ex, args, kwargs, fr):
            calls.append(("run_pipeline", kwargs))
            if ex.st.choose([True, True]) == 1:
                e = VSym("exc", ex.st.fresh_int("model_exc"))
                ex.st.ghost["MODEL_EXC"] = e
                raise PyExc(e)
            return VOpaque("xr", ex.st.fresh_int("tree"), {"label": "data_tree"})
        cfg.contracts["pyxel/observation/misc.py::create_new_processor"] = Contract("pyxel/observation/misc.py::create_new_processor", new_proc, "C06")
        cfg.contracts["pyxel/exposure/exposure.py::run_pipeline"] = Contract("pyxel/exposure/exposure.py::run_pipeline", run_pipe, "C02/C09: a model's exception escapes unchanged")
        for q in ("_add_product_parameters", "_add_custom_parameters"):
            cfg.contracts[f"{OBS}::{q}"] = Contract(f"{OBS}::{q}", lambda ex, args, kwargs, fr: VOpaque("xr", ex.st.fresh_int("tree"), {"label": "final"}), "C05 labelling (boundary here)")
        keys = [VStr(z3.String(f"key{i}")) for i in range(nparams)]
        vals = [VInt(z3.Int(f"val{i}")) for i in range(nparams)]

        def setup(ex, nparams=nparams):
            calls.clear()
            obs = ex.st.alloc(HObj(oci, {"readout": VOpaque("xr", None, {"label": "readout"}), "outputs": NONE, "_pipeline_seed": VInt(z3.Int("seed"))}))
            item = ex.st.alloc(HObj(pci, {"index": VTuple([VInt(z3.Int("idx"))]), "parameters": ex.st.alloc(HDict(list(zip(keys, vals)))), "run_index": VInt(z3.Int("run"))}))
            return [obs], {"param_item": item, "dimension_names": ex.st.alloc(HDict([])), "processor": VOpaque("xr", None, {"label": "processor"}),
                           "types": ex.st.alloc(HDict([])), "with_inherited_coords": VBool(z3.Bool("wic"))}
        ps = u.paths(fi, setup, cfg, label=f"_run_single_pipeline[{nparams} params]")
        from pyvc.engine import exc_subclass
        for p in ps:
            if p.kind == "return":
                u.oblige(p, f"single.no_result_on_failure[{nparams}]", p.st.ghost.get("MODEL_EXC") is None, {}, SINGLE_REPLAY)
                continue
            e = p.st.ghost.get("MODEL_EXC")
            same = isinstance(p.value, VSym) and e is not None and z3.eq(p.value.t, e.t)
            u.oblige(p, f"transparent[Observation._run_single_pipeline:{nparams}]", bool(same), {}, SINGLE_REPLAY)
            if not same:
                continue
            notes = [n for n in p.st.ghost.get("NOTES", {}).get(str(e.t), []) if isinstance(n, VStr)]
            for i in range(nparams):
                has = z_or(*[z3.And(z3.Contains(z_str(n.v), z_str(keys[i].v)), z3.Contains(z_str(n.v), z3.IntToStr(vals[i].v))) for n in notes])
                u.oblige(p, f"notes.parameters[{nparams}:{i}]", z3.Implies(z3.And(exc_subclass(e.t, z3.StringVal("Exception")), vals[i].v >= 0), zb(has)), {}, SINGLE_REPLAY)
        u.cover(f"single.cover[{nparams}]", ps, lambda p: p.kind == "return")
        u.cover(f"single.cover_failure[{nparams}]", ps, lambda p: p.kind == "raise")


# ---- handler shape over the whole chain -----------------------------------------------------------------
CHAIN_MODULES = ["pyxel/pipelines/model_function.py", "pyxel/pipelines/model_group.py", "pyxel/pipelines/processor.py", "pyxel/exposure/exposure.py",
                 "pyxel/observation/observation.py", "pyxel/observation/observation_dask.py", "pyxel/observation/misc.py", "pyxel/calibration/fitting_datatree.py",
                 "pyxel/calibration/user_defined.py", "pyxel/calibration/archipelago_datatree.py", "pyxel/calibration/calibration.py", "pyxel/run.py"]
CHAIN_CALLS = {"run_pipeline", "run_pipelines", "_run_single_pipeline", "run_exposure", "run_observation", "run_calibration", "_run_exposure_mode", "_run_observation_mode",
               "_run_calibration_mode", "fitness", "_apply_parameters", "run_evolve", "evolve", "run", "func", "model", "run_pipelines_with_dask",
               "_run_pipelines_array_to_datatree", "_run_pipelines_tuple_to_array", "run_mode", "run_mode_gen", "compute", "load", "batch_fitness", "fitness_func"}
BROAD = {"Exception", "BaseException"}


def calls_chain(stmts):
    for n in ast.walk(ast.Module(body=list(stmts), type_ignores=[])):
        if isinstance(n, ast.Call):
            f = n.func
            nm = f.id if isinstance(f, ast.Name) else f.attr if isinstance(f, ast.Attribute) else None
            if nm in CHAIN_CALLS:
                return nm
    return None


SAFE_CALLS = {"add_note", "items", "join", "format", "str", "repr", "type", "len", "info", "debug", "warning", "error", "exception", "warn", "getLogger", "isinstance", "getattr"}


def handler_can_only_reraise(h: ast.ExceptHandler, module_functions=None, depth=0):
    """The statements before the final bare `raise` cannot themselves fail in a way the contracts know of: notes, string formatting, logging,
    version checks, loops over a mapping's items. Returns the text of the first statement outside that fragment (None: all inside)."""
    def safe_expr(e):
        for n in ast.walk(e):
            if isinstance(n, ast.Call):
                f = n.func
                nm = f.id if isinstance(f, ast.Name) else f.attr if isinstance(f, ast.Attribute) else None
                if nm not in SAFE_CALLS:
                    # a helper of the same module whose own body stays inside the fragment (e.g. the note-building code moved into a function)
                    helper = (module_functions or {}).get(nm) if isinstance(f, ast.Name) else None
                    if helper is None or depth >= 2:
                        return False
                    fake = ast.ExceptHandler(type=None, name=None, body=[x for x in helper.body if not (isinstance(x, ast.Expr) and isinstance(x.value, ast.Constant))])
                    if handler_can_only_reraise(fake, module_functions, depth + 1) is not None:
                        return False
            if isinstance(n, (ast.Await, ast.Yield, ast.YieldFrom, ast.Subscript)) and not isinstance(getattr(n, "ctx", None), ast.Load):
                return False
        return True

    def safe_stmt(st):
        if isinstance(st, ast.Raise):
            return st.exc is None or True
        if isinstance(st, ast.Expr):
            return safe_expr(st.value)
        if isinstance(st, (ast.Assign, ast.AnnAssign)):
            tg = st.targets if isinstance(st, ast.Assign) else [st.target]
            return all(isinstance(t, ast.Name) for t in tg) and (st.value is None or safe_expr(st.value))
        if isinstance(st, ast.If):
            return safe_expr(st.test) and all(safe_stmt(x) for x in st.body + st.orelse)
        if isinstance(st, ast.For):
            return safe_expr(st.iter) and all(safe_stmt(x) for x in st.body + st.orelse)
        if isinstance(st, ast.Pass):
            return True
        if isinstance(st, ast.Return):
            return st.value is None or safe_expr(st.value)
        return False
    for st in h.body:
        if not safe_stmt(st):
            return ast.unparse(st).splitlines()[0][:120]
    return None


RUNMODE_REPLAY = lambda w: {"code": """
import tempfile, pathlib, warnings, verif_probes as VP, pyxel
from pyxel.exposure import Readout
from pyxel.observation import Observation, ParameterValues
from pyxel.outputs import ObservationOutputs
from pyxel.pipelines import DetectionPipeline, ModelFunction
warnings.simplefilter('ignore')
VIOLATED, DETAIL = False, 'the failing model error reaches the caller of run_mode unchanged, whatever was written before'
for values in ([1, 2, 3], [1, 3, 2], [2, 1]):          # the probe fails at level 2: in the 2nd, 3rd or 1st run
    root = pathlib.Path(tempfile.mkdtemp())
    pipe = DetectionPipeline(photon_collection=[ModelFunction(func='verif_probes.writer', name='w', arguments={'photon': 3.0})],
                             charge_generation=[ModelFunction(func='verif_probes.fail_if', name='bad', arguments={'level': 0})])
    obs = Observation(parameters=[ParameterValues(key='pipeline.charge_generation.bad.arguments.level', values=values)], readout=Readout(times=[1.0]),
                      outputs=ObservationOutputs(output_folder=root, save_data_to_file=[{'detector.photon.array': ['npy']}]))
    try:
        pyxel.run_mode(mode=obs, detector=VP.detector(), pipeline=pipe)
        VIOLATED, DETAIL = True, f'sweep {values}: run_mode returned normally'
    except VP.ProbeError as e:
        notes = ' '.join(getattr(e, '__notes__', []))
        if 'charge_generation' not in notes or 'bad' not in notes:
            VIOLATED, DETAIL = True, f'sweep {values}: note lacks group / model: {notes!r}'
    except Exception as e:
        VIOLATED, DETAIL = True, f'sweep {values} ({values.index(2)} run(s) had written their files before the failure): the caller gets {type(e).__name__}: {e} instead of the model error'
    if VIOLATED: break
# a failing run whose swept values include a SEQUENCE of numbers (product and sequential mode): type, message, notes still arrive
for mode in ('product', 'sequential'):
    if VIOLATED: break
    pipe2 = DetectionPipeline(charge_generation=[ModelFunction(func='verif_probes.fail_if', name='bad', arguments={'level': 2, 'table': [0, 0]})])
    obs2 = Observation(parameters=[ParameterValues(key='pipeline.charge_generation.bad.arguments.table', values=[[1, 2], [3, 4]])], mode=mode, readout=Readout(times=[1.0]))
    try:
        pyxel.run_mode(mode=obs2, detector=VP.detector(), pipeline=pipe2)
        VIOLATED, DETAIL = True, f'{mode} sweep over a sequence-valued argument: run_mode returned normally'
    except VP.ProbeError as e:
        notes = ' '.join(getattr(e, '__notes__', []))
        if 'charge_generation' not in notes or 'bad' not in notes:
            VIOLATED, DETAIL = True, f'{mode} sweep over a sequence-valued argument: note lacks group / model: {notes!r}'
    except Exception as e:
        VIOLATED, DETAIL = True, f'{mode} sweep over a sequence-valued argument: the caller gets {type(e).__name__}: {e} instead of the model error'
# a fault at a chosen readout step of an exposure (with progress bar: several readout times) and of a dask observation
from pyxel.exposure import Exposure
def check(label, call):
    global VIOLATED, DETAIL
    try:
        r = call()
        if hasattr(r, 'compute'): r.compute()
        VIOLATED, DETAIL = True, f'{label}: returned normally'
    except VP.ProbeError as e:
        notes = ' '.join(getattr(e, '__notes__', []))
        if 'charge_generation' not in notes or 'bad' not in notes:
            VIOLATED, DETAIL = True, f'{label}: note lacks group / model: {notes!r}'
    except Exception as e:
        VIOLATED, DETAIL = True, f'{label}: the caller gets {type(e).__name__}: {e} instead of the model error'
for step in (0, 1, 2):
    if VIOLATED: break
    pipe = DetectionPipeline(photon_collection=[ModelFunction(func='verif_probes.writer', name='w', arguments={'photon': 3.0})],
                             charge_generation=[ModelFunction(func='verif_probes.fail_at_step', name='bad', arguments={'step': step})])
    for times in ([1.0, 2.0, 3.0], [1.0] if step == 0 else [1.0, 2.0, 3.0, 4.0]):
        if VIOLATED: break
        check(f'exposure with readout times {times}, fault at step {step}', lambda: pyxel.run_mode(mode=Exposure(readout=Readout(times=times)), detector=VP.detector(), pipeline=pipe))
    if not VIOLATED:
        obs = Observation(parameters=[ParameterValues(key='pipeline.photon_collection.w.arguments.photon', values=[1.0, 2.0])], readout=Readout(times=[1.0, 2.0, 3.0]), with_dask=True)
        check(f'dask observation, fault at step {step} of every run', lambda: pyxel.run_mode(mode=obs, detector=VP.detector(), pipeline=pipe))
""", "expect": "run_mode lets the failing model's exception through: when earlier runs have written output files, at any readout step, with or without a progress bar, sequentially or through dask"}
BODY_ERRORS_REPLAY = lambda w: {"code": """
import types, sys, verif_probes as VP
from pyxel.pipelines import DetectionPipeline, ModelFunction, Processor
from pyxel.exposure import Readout, run_pipeline
mod = types.ModuleType('c09_body')
def faulty(detector, level=1.0, kind='TypeError'):
    VP.probe(detector, level=level)
    if kind == 'TypeError':
        return float(level) + None                      # a genuine TypeError raised INSIDE a correctly called model
    raise {'ValueError': ValueError, 'KeyError': KeyError, 'AttributeError': AttributeError, 'ZeroDivisionError': ZeroDivisionError, 'OSError': OSError}[kind]('original message 4711')
mod.faulty = faulty
sys.modules['c09_body'] = mod
VIOLATED, DETAIL = False, 'an error raised in the body of a model reaches the caller as that error, message included'
for kind in ('TypeError', 'ValueError', 'KeyError', 'AttributeError', 'ZeroDivisionError', 'OSError'):
    pipe = DetectionPipeline(photon_collection=[ModelFunction(func='c09_body.faulty', name='f', arguments={'level': 2.0, 'kind': kind})])
    try:
        run_pipeline(processor=Processor(detector=VP.detector(), pipeline=pipe), readout=Readout(times=[1.0]), outputs=None, debug=False, with_inherited_coords=False)
        VIOLATED, DETAIL = True, f'{kind} raised in a model body: the run returned normally'; break
    except Exception as e:
        text = str(e) + ' '.join(getattr(e, '__notes__', []))
        want = 'NoneType' if kind == 'TypeError' else 'original message 4711'
        if type(e).__name__ != kind or want not in text:
            VIOLATED, DETAIL = True, f'{kind} raised in a model body surfaced as {type(e).__name__}: {str(e)[:120]!r} (original message lost: {want!r} not in it)'; break
""", "expect": "errors raised inside a model body (TypeError included) reach the caller with their own message"}
STANDIN = {r"no_swallow": RUNMODE_REPLAY, r"no_swallow\[ModelFunction|no_swallow\[ModelGroup": BODY_ERRORS_REPLAY}


TRANSPARENT_CMS = {"warnings.catch_warnings", "np.errstate", "numpy.errstate", "ThreadPoolExecutor", "change_pipeline", "dask.config.set", "tempfile.TemporaryDirectory", "TemporaryDirectory", "SimpleTimer", "ProgressBar", "tqdm", "tqdm.auto.tqdm"}


FINALLY_REPLAY = lambda w: {"code": """
import os, sys, tempfile, pathlib
import pyxel
d = pathlib.Path(tempfile.mkdtemp()); os.chdir(d)
(d / 'c09_yaml_models.py').write_text('def boom(detector, level=0):\\n    raise RuntimeError("detector on fire 4711")\\n')
sys.path.insert(0, str(d))
VIOLATED, DETAIL = False, 'a model error reaches the caller of pyxel.run with and without an outputs section'
TEMPLATE = '\\n'.join(['exposure:', '  readout:', '    times: [1.0]', 'OUTPUTS', 'ccd_detector:', '  geometry:', '    row: 3', '    col: 3', '  environment:', '  characteristics:',
                       'pipeline:', '  photon_collection:', '    - name: boom', '      func: c09_yaml_models.boom', '      enabled: true', '      arguments:', '        level: 1', ''])
for with_outputs in (True, False):
    outputs = '\\n'.join(['  outputs:', '    output_folder: "' + str(d / 'out') + '"', '    save_data_to_file:']) if with_outputs else ''
    (d / 'cfg.yaml').write_text(TEMPLATE.replace('OUTPUTS', outputs))
    try:
        r = pyxel.run(str(d / 'cfg.yaml'))
        VIOLATED, DETAIL = True, f'outputs section present: {with_outputs}: the model raised, pyxel.run returned {r!r}'; break
    except RuntimeError as e:
        if 'detector on fire 4711' not in str(e):
            VIOLATED, DETAIL = True, f'outputs section present: {with_outputs}: pyxel.run raised another error: {e!r}'; break
""", "expect": "pyxel.run propagates a model's error whether or not an outputs section is configured"}


@unit("C09", "no_swallow")
def no_swallow(u: Unit):
    """On every path from a model call to the caller of run_mode: no `except` clause that can catch a model's
    exception ends without re-raising THE SAME object (bare `raise`), and nothing suppresses exceptions."""
    n_handlers = 0
    with_cms = set()
    for rel in CHAIN_MODULES:
        mi = u.world.module_by_path(rel)
        fns = list(mi.functions.values()) + [m for c in mi.classes.values() for m in list(c.methods.values()) + list(c.getters.values())]
        for fn in fns:
            for n in ast.walk(fn.node):
                if isinstance(n, ast.Try):
                    inner = calls_chain(n.body)
                    if inner is None:
                        continue
                    for h in n.handlers:
                        tnames = [ast.unparse(t) for t in (h.type.elts if isinstance(h.type, ast.Tuple) else [h.type])] if h.type is not None else ["<bare>"]
                        narrow = all(t not in BROAD and t != "<bare>" for t in tnames) and all(t in ("ModuleNotFoundError", "ImportError", "KeyError", "AttributeError") for t in tnames)
                        if narrow and not any(t in ("KeyError", "AttributeError") and inner in ("run_pipeline", "model", "func") for t in tnames):
                            continue
                        n_handlers += 1
                        last = h.body[-1] if h.body else None
                        ok = isinstance(last, ast.Raise) and last.exc is None
                        u.functions.setdefault(fn.qualname, {"sha": fn.sha, "file_sha": mi.sha, "paths": 0, "obligations": 0, "role": "under contract"})
                        u.static(f"no_swallow[{fn.qualname.split('::')[1]}:{h.lineno}]", ok, fn.qualname,
                                 f"except {', '.join(tnames)} around {inner}() at line {h.lineno} " + ("re-raises the same object" if ok else "does not end with a bare raise"),
                                 witness={"function": fn.qualname, "line": h.lineno}, replay=SINGLE_REPLAY)
                        odd = handler_can_only_reraise(h, {k: v.node for k, v in mi.functions.items()}) if ok else None
                        if odd is not None:
                            # work done in the handler before the re-raise may itself raise and replace the model's exception: not decided on
                            # the syntax alone -> undecided, the native stand-in (a failure after files were written) decides
                            u.undecide(f"no_swallow.handler_cannot_fail[{fn.qualname.split('::')[1]}:{h.lineno}]", fn.qualname, f"statement in the handler outside the harmless fragment: {odd}")
                if isinstance(n, ast.Try) and n.finalbody and calls_chain(n.body) is not None:
                    # a jump out of a `finally` block (return / break / continue) DISCARDS the exception in flight
                    jumps = []
                    for st_ in n.finalbody:
                        loops = [a for a in ast.walk(st_) if isinstance(a, (ast.For, ast.While))]
                        inner_defs = {id(x) for a in ast.walk(st_) if isinstance(a, (ast.FunctionDef, ast.AsyncFunctionDef, ast.Lambda)) for x in ast.walk(a) if x is not a}
                        for m in ast.walk(st_):
                            if id(m) in inner_defs:
                                continue              # (a return inside a function DEFINED in the finally block does not leave the block)
                            if isinstance(m, ast.Return) or (isinstance(m, (ast.Break, ast.Continue)) and not any(m in list(ast.walk(a)) for a in loops)):
                                jumps.append((type(m).__name__.lower(), m.lineno))
                    u.functions.setdefault(fn.qualname, {"sha": fn.sha, "file_sha": mi.sha, "paths": 0, "obligations": 0, "role": "under contract"})
                    u.static(f"no_swallow.finally_does_not_jump[{fn.qualname.split('::')[1]}:{n.lineno}]", not jumps, fn.qualname,
                             f"finally block of the try at line {n.lineno} around {calls_chain(n.body)}(): " + (f"{jumps} discards the exception in flight" if jumps else "no return / break / continue"),
                             witness={"function": fn.qualname, "jumps": str(jumps)}, replay=FINALLY_REPLAY)
                if isinstance(n, ast.With):
                    for it in n.items:
                        src = ast.unparse(it.context_expr)
                        if not calls_chain(n.body):
                            continue
                        if src.startswith(("suppress(", "contextlib.suppress(")):
                            u.static(f"no_swallow[{fn.qualname.split('::')[1]}:suppress@{n.lineno}]", False, fn.qualname, f"{src} around a pipeline call", replay=SINGLE_REPLAY)
                            continue
                        # every other context manager around a pipeline call must let the block's exception through: set_random_seed is
                        # executed (unit seed_context, all exits), the library ones below are transparent by their documentation (trusted)
                        callee = ast.unparse(it.context_expr.func) if isinstance(it.context_expr, ast.Call) else src
                        with_cms.add(callee)
                        if callee.split(".")[-1] == "set_random_seed" or callee in TRANSPARENT_CMS:
                            continue
                        u.undecide(f"no_swallow.context_manager[{fn.qualname.split('::')[1]}:{n.lineno}]", fn.qualname, f"context manager {callee} around a pipeline call is not one with a transparency contract")
    u.static("no_swallow.context_managers", True, "", f"context managers around pipeline calls: {sorted(with_cms)} (set_random_seed: unit seed_context; {sorted(TRANSPARENT_CMS)}: library, transparent)")
    u.guard("no_swallow.cover", n_handlers >= 3, "", f"{n_handlers} handlers on the chain inspected")


@unit("C09", "calibration")
def calibration(u: Unit):
    fit = u.fn("pyxel/calibration/fitting_datatree.py::ModelFittingDataTree.fitness")
    src = ast.unparse(fit.node)
    handlers = [h for n in ast.walk(fit.node) if isinstance(n, ast.Try) for h in n.handlers]
    ok = len(handlers) == 1 and isinstance(handlers[0].body[-1], ast.Raise) and handlers[0].body[-1].exc is None and "add_note" in ast.unparse(handlers[0]) and "decision_vector_1d" in ast.unparse(handlers[0])
    u.static("notes.decision_vector", ok, fit.qualname, "fitness: handler adds a note with the decision vector and re-raises the same object")
    ev = u.fn("pyxel/calibration/archipelago_datatree.py::ArchipelagoDataTree.run_evolve")
    order_ok = False
    for n in ast.walk(ev.node):
        if isinstance(n, ast.For):
            calls = [ast.unparse(c.func) for s in n.body for c in ast.walk(s) if isinstance(c, ast.Call)]
            if "self._pygmo_archi.evolve" in calls:
                i = calls.index("self._pygmo_archi.evolve")
                rest = calls[i + 1:]
                order_ok = "self._pygmo_archi.wait_check" in rest and all(
                    rest.index("self._pygmo_archi.wait_check") < rest.index(c) for c in rest if c in ("self._get_champions", "self.get_best_individuals"))
    u.static("calib.wait_check", order_ok, ev.qualname, "every archi.evolve() is followed by wait_check() before champions are read", replay=lambda w: WAIT_REPLAY)


WAIT_REPLAY = {"code": """
import numpy as np, tempfile, pathlib, warnings, logging
import verif_probes as VP
import pyxel
from pyxel.calibration import Algorithm, Calibration
from pyxel.calibration.fitness import sum_of_abs_residuals
from pyxel.observation import ParameterValues
from pyxel.pipelines import DetectionPipeline, ModelFunction
warnings.filterwarnings('ignore'); logging.disable(logging.CRITICAL)
d = pathlib.Path(tempfile.mkdtemp())
det = VP.detector()
rows, cols = det.geometry.row, det.geometry.col
np.save(d / 'target.npy', np.full((rows, cols), 50.0))
pop = 8
VP.CALLS.update(n=0, fail_at=pop + 3)        # after the initial population: inside the first evolve round
pipe = DetectionPipeline(photon_collection=[ModelFunction(func='verif_probes.set_image', name='img', arguments={'level': 1.0, 'gain': 1.0}),
                                            ModelFunction(func='verif_probes.fail_at_call', name='flaky', arguments={})])
cal = Calibration(target_data_path=[d / 'target.npy'], fitness_function=sum_of_abs_residuals, algorithm=Algorithm(type='sade', generations=2, population_size=pop),
                  parameters=[ParameterValues(key='pipeline.photon_collection.img.arguments.level', values='_', boundaries=(1.0, 100.0))],
                  result_type='image', result_fit_range=(0, rows, 0, cols), target_fit_range=(0, rows, 0, cols), num_islands=1, num_evolutions=2,
                  pygmo_seed=1234, pipeline_seed=1, topology='unconnected')
try:
    pyxel.run_mode(mode=cal, detector=det, pipeline=pipe, with_inherited_coords=True)
    VIOLATED, DETAIL = (VP.CALLS['n'] >= VP.CALLS['fail_at']), f"a model failed on call {VP.CALLS['fail_at']} (inside an evolve round; {VP.CALLS['n']} calls made) but the calibration returned a result"
except BaseException as e:
    import traceback
    text = ''.join(traceback.format_exception(e))
    VIOLATED = 'probe failure at call' not in text
    DETAIL = 'calibration raised ' + type(e).__name__ + ('' if not VIOLATED else ' without the model failure: ' + text[-300:])
""", "expect": "a model failing inside an evolve round makes the calibration fail with that exception"}


# ---- a failing run inside the sequential sweep --------------------------------------------------------------------------
SEQ_REPLAY = lambda w: {"code": """
import verif_probes as VP
from pyxel.pipelines import DetectionPipeline, ModelFunction, Processor
from pyxel.exposure import Readout
from pyxel.observation import Observation, ParameterValues
import types, sys
mod = types.ModuleType('c09_models')
def raiser(detector, level=0, kind='ProbeError'):
    VP.probe(detector, level=level)
    if level == 2:
        raise {'ProbeError': VP.ProbeError, 'StopIteration': StopIteration, 'KeyError': KeyError, 'GeneratorExit': GeneratorExit, 'RuntimeError': RuntimeError}[kind]('fault at level 2')
mod.raiser = raiser
sys.modules['c09_models'] = mod
VIOLATED, DETAIL = False, 'every failing run surfaced as its own exception and stopped the sweep'
for kind in ('StopIteration', 'ProbeError', 'KeyError', 'RuntimeError'):
    VP.LOG.clear()
    pipe = DetectionPipeline(photon_collection=[ModelFunction(func='c09_models.raiser', name='r', arguments={'level': 0, 'kind': kind})])
    obs = Observation(parameters=[ParameterValues(key='pipeline.photon_collection.r.arguments.level', values=[1, 2, 3, 4])], readout=Readout(times=[1.0]))
    try:
        obs.run_pipelines(Processor(detector=VP.detector(), pipeline=pipe), with_inherited_coords=True)
        VIOLATED, DETAIL = True, f'a model raised {kind} in run 2 of 4: the observation returned a result instead of failing'
        break
    except BaseException as e:
        ran = [x['kwargs'].get('level') for x in VP.LOG]
        if type(e).__name__ != kind or max(ran) > 2:
            VIOLATED, DETAIL = True, f'a model raised {kind} in run 2 of 4: surfaced as {type(e).__name__}; levels executed {ran}'
            break
""", "expect": "whatever a model raises in run k reaches the caller unchanged and no later run executes"}


@unit("C09", "observation.sweep")
def observation_sweep(u: Unit):
    """Observation.run_pipelines (sequential path) around its per-run call: when run k fails with ANY exception (its class is
    symbolic: StopIteration, KeyboardInterrupt, ... included), run_pipelines fails with that very exception and no run after k
    is started; without a failure every entry is run once, in order."""
    from . import C05 as _C05
    fi = u.fn(f"{OBS}::Observation.run_pipelines")
    oci = u.cls(f"{OBS}::Observation")
    pmc = u.cls("pyxel/observation/misc.py::ProductMode")
    n = 3
    for fail_at in (None, 0, 1, 2):
        cfg = Cfg("real")
        boundary.install(cfg)
        cfg.lib_overrides[("sym_attr", "exc")] = exc_attr
        cfg.lib_overrides["symexc.add_note"] = exc_add_note
        entries = [VOpaque("entry", z3.Int(f"entry{i}"), {"i": i}) for i in range(n)]

        def single(ex, args, kwargs, fr, fail_at=fail_at):
            item = args[1] if len(args) > 1 else kwargs.get("param_item")
            ex.hold["started"].append(item)
            if fail_at is not None and item is entries[fail_at]:
                e = VSym("exc", ex.st.fresh_int("model_exc"))
                ex.st.ghost["MODEL_EXC"] = e
                raise PyExc(e)
            return VOpaque("xr", ex.st.fresh_int("tree"), {"label": "tree"})
        M = f"{OBS}::Observation."
        cfg.contracts[M + "_run_single_pipeline"] = Contract(M + "_run_single_pipeline", single, "one exposure on a copy; a model's exception escapes unchanged (C09.single)")
        cfg.contracts[M + "validate_steps"] = Contract(M + "validate_steps", lambda ex, args, kwargs, fr: NONE, "C08")
        cfg.contracts[M + "_get_parameter_types"] = Contract(M + "_get_parameter_types", lambda ex, args, kwargs, fr: ex.st.alloc(HDict([])), "types")
        cfg.contracts[f"{OBS}::_get_short_dimension_names_new"] = Contract(f"{OBS}::_get_short_dimension_names_new", lambda ex, args, kwargs, fr: ex.st.alloc(HDict([])), "names")
        cfg.contracts["pyxel/observation/misc.py::ProductMode.get_parameters_item"] = Contract("pyxel/observation/misc.py::ProductMode.get_parameters_item",
                                                                                               lambda ex, args, kwargs, fr: ex.st.alloc(HList(list(entries))), "enumeration (C05)")
        cfg.lib_prefix["tqdm."] = lambda ex, f, args, kwargs, fr: args[0]

        def setup(ex):
            ex.hold = {"started": []}
            mode = ex.st.alloc(HObj(pmc, {"parameters": ex.st.alloc(HList([]))}))
            obs = ex.st.alloc(HObj(oci, {"parameter_mode": mode, "with_dask": VBool(False), "readout": NONE, "outputs": NONE, "_pipeline_seed": NONE}))
            return [obs], {"processor": VOpaque("xr", None, {"label": "processor", "truthy": True}), "with_inherited_coords": VBool(True)}
        ps = u.paths(fi, setup, cfg, label=f"Observation.run_pipelines[fail_at={fail_at}]")
        for p in ps:
            started = p.ex.hold["started"]
            if fail_at is None:
                u.oblige(p, "sweep.all_runs_in_order", bool(p.kind == "return" and len(started) == n and all(a is b for a, b in zip(started, entries))), {}, SEQ_REPLAY)
                continue
            e = p.st.ghost.get("MODEL_EXC")
            same = p.kind == "raise" and isinstance(p.value, VSym) and e is not None and z3.eq(p.value.t, e.t)
            from pyvc.engine import exc_subclass
            w = {"fails_at_run": fail_at, "is_StopIteration": exc_subclass(e.t, z3.StringVal("StopIteration")) if e is not None else None}
            u.oblige(p, f"sweep.failure_surfaces_unchanged[{fail_at}]", bool(same), w, SEQ_REPLAY)
            u.oblige(p, f"sweep.no_run_after_failure[{fail_at}]", bool(len(started) == fail_at + 1), dict(w, started=len(started)), SEQ_REPLAY)
        u.cover(f"sweep.cover[{fail_at}]", ps, lambda p: True)


@unit("C09", "calib.fitness_transparent")
def fitness_transparent(u: Unit):
    """ModelFittingDataTree.fitness (real method, shared symbolic model): when the exposure of pair k fails with any exception,
    fitness fails with that very exception object (after adding its note); no fitness value is returned."""
    from . import fitmodel as FM
    rec = {}
    cfg, fi = FM.mk_cfg(u, rec, may_raise=True)
    ps = u.paths(fi, lambda ex: FM.setup(u, ex), cfg, label="ModelFittingDataTree.fitness[a run may fail]")
    n_raise = 0
    for p in ps:
        e = p.st.ghost.get("MODEL_EXC")
        if p.kind == "return":
            u.oblige(p, "calib.fitness.no_value_on_failure", e is None, {}, lambda w: WAIT_REPLAY)
            continue
        n_raise += 1
        same = isinstance(p.value, VSym) and e is not None and z3.eq(p.value.t, e.t)
        u.oblige(p, "transparent[ModelFittingDataTree.fitness]", bool(same), {"raised": p.exc_name() or str(p.value)}, lambda w: WAIT_REPLAY)
        notes = p.st.ghost.get("NOTES", {}).get(str(e.t), []) if e is not None else []
        from pyvc.engine import exc_subclass
        u.oblige(p, "notes.fitness_adds_a_note", z3.Implies(exc_subclass(e.t, z3.StringVal("Exception")), zb(len(notes) >= 1)) if e is not None else False, {}, lambda w: WAIT_REPLAY)
    u.cover("calib.fitness.cover_failure", [1] * n_raise, lambda _: True)


# ---- run_mode: one run of the given mode on a processor of the given detector and pipeline; its result and its failure pass through --------
DISPATCH_REPLAY = lambda w: {"code": """
import warnings, numpy as np, verif_probes as VP, pyxel
from pyxel.exposure import Exposure, Readout
from pyxel.observation import Observation, ParameterValues
from pyxel.pipelines import DetectionPipeline, ModelFunction
warnings.simplefilter('ignore')
VIOLATED, DETAIL = False, 'run_mode runs the given mode once on the given detector and pipeline, with the given flags, and hands back its result'
pipe = DetectionPipeline(photon_collection=[ModelFunction(func='verif_probes.writer', name='w', arguments={'photon': 3.0, 'pixel_add': 2.0})])
for wic in (False, True):
    for debug in (False, True):
        VP.LOG.clear()
        dt = pyxel.run_mode(mode=Exposure(readout=Readout(times=[1.0, 2.0])), detector=VP.detector(), pipeline=pipe, debug=debug, with_inherited_coords=wic)
        node = dt['/bucket'] if wic else dt
        if len(VP.LOG) != 2 or float(np.asarray(node['photon'].values).ravel()[0]) != 3.0 or ('intermediate' in [g.strip('/') for g in dt.groups]) != debug:
            VIOLATED, DETAIL = True, f'exposure (inherited coords {wic}, debug {debug}): {len(VP.LOG)} model calls, groups {dt.groups}'; break
    if VIOLATED: break
if not VIOLATED:
    obs = Observation(parameters=[ParameterValues(key='pipeline.photon_collection.w.arguments.pixel_add', values=[1.0, 2.0])], readout=Readout(times=[1.0]))
    for bad in (dict(debug=True),):
        try:
            pyxel.run_mode(mode=obs, detector=VP.detector(), pipeline=pipe, **bad); VIOLATED, DETAIL = True, 'debug accepted for an observation'
        except NotImplementedError:
            pass
    VP.LOG.clear()
    dt = pyxel.run_mode(mode=obs, detector=VP.detector(), pipeline=pipe, override_dct={'pipeline.photon_collection.w.arguments.photon': 7.0})
    ph = np.asarray((dt['/bucket'] if '/bucket' in dt.groups else dt)['photon'].values)
    if len(VP.LOG) != 2 or sorted(x['kwargs'].get('pixel_add') for x in VP.LOG) != [1.0, 2.0] or not np.all(ph == 7.0):
        VIOLATED, DETAIL = True, f'observation with the override photon=7: calls {[(x["kwargs"]) for x in VP.LOG]}, photon bucket {ph.ravel()[:3]}'
""", "expect": "run_mode: given detector / pipeline / flags / overrides reach the run; the run's result comes back"}


@unit("C09", "run_mode.dispatch")
def run_mode_dispatch(u: Unit):
    """run_mode for an Exposure, an Observation (with and without dask) and a Calibration, debug and layout flags and the presence of
    outputs / overrides arbitrary: debug with a mode other than Exposure is refused before anything is built; otherwise ONE processor is
    built from the given detector and pipeline (the observation registered on it), overrides are applied to it before the run, the
    output folder is created before the run when outputs are configured, the mode's own run method is called exactly once with that
    processor and the given flags (the hierarchical layout forced for a dask observation), its result is returned as it is (C03) and an
    exception it raises leaves run_mode as the same object (C09)."""
    fi = u.fn("pyxel/run.py::run_mode")
    for q in ("_run_exposure_mode", "_run_calibration_mode"):
        u.fn(f"pyxel/run.py::{q}")
    EXQ, OBQ, CAQ, PRQ = "pyxel/exposure/exposure.py::Exposure", "pyxel/observation/observation.py::Observation", "pyxel/calibration/calibration.py::Calibration", "pyxel/pipelines/processor.py::Processor"
    for kind, cq, runq in (("exposure", EXQ, "run_exposure"), ("observation", OBQ, "run_pipelines"), ("calibration", CAQ, "run_calibration")):
        mci = u.cls(cq)
        cfg = Cfg("real")
        boundary.install(cfg)
        rec = u.track({})

        def run(ex, args, kwargs, fr, rec=rec, kind=kind):
            rec.setdefault("runs", []).append((args[0], dict(kwargs), list(args[1:]), len(rec.get("order", []))))
            rec.setdefault("order", []).append("run")
            if ex.st.choose([True, True]) == 1:
                e = VSym("exc", ex.st.fresh_int("run_exc"))
                rec["exc"] = e
                raise PyExc(e)
            r = VOpaque("xr", None, {"label": "result of the run"})
            rec["result"] = r
            return r
        cfg.contracts[f"{cq}.{runq}"] = Contract(f"{cq}.{runq}", run, "the running mode's own run (C02/C05/C11)")
        cfg.contracts[f"{PRQ}.__init__"] = Contract(f"{PRQ}.__init__", lambda ex, args, kwargs, fr, rec=rec: (rec.setdefault("procs", []).append((args[0], dict(kwargs), list(args[1:]))), rec.setdefault("order", []).append("processor"), NONE)[2], "Processor(detector, pipeline[, observation_mode])")
        aq = "pyxel/run.py::apply_overrides"
        cfg.contracts[aq] = Contract(aq, lambda ex, args, kwargs, fr, rec=rec: (rec.setdefault("overrides", []).append(dict(kwargs)), rec.setdefault("order", []).append("overrides"), NONE)[2], "C08.overrides")

        def out_attr(ex, obj, name, fr):
            return VLib("outputs." + name, obj) if name == "create_output_folder" else VOpaque("xr", None, {"label": "outputs." + name, "truthy": True})
        cfg.lib_overrides[("opaque_attr", "outputs")] = out_attr
        cfg.lib_overrides["outputs.create_output_folder"] = lambda ex, f, args, kwargs, fr, rec=rec: (rec.setdefault("order", []).append("folder"), NONE)[1]
        cfg.lib_overrides[("truth", "outputs")] = lambda ex, v: True

        def setup(ex, kind=kind, rec=rec):
            rec.clear()
            h = ex.hold = {k: VOpaque("xr", None, {"label": k, "truthy": True}) for k in ("detector", "pipeline", "override_dct")}
            has_out = ex.st.choose([True, True]) == 0
            fields = {"outputs": VOpaque("outputs", None, {}) if has_out else NONE, "with_dask": VBool(z3.Bool("with_dask"))}
            mode = ex.st.alloc(HObj(mci, fields))
            has_ovr = ex.st.choose([True, True]) == 0
            h.update(mode=mode, has_out=has_out, has_ovr=has_ovr)
            return [], {"mode": mode, "detector": h["detector"], "pipeline": h["pipeline"], "override_dct": h["override_dct"] if has_ovr else NONE,
                        "debug": VBool(z3.Bool("debug")), "with_inherited_coords": VBool(z3.Bool("inherited"))}
        ps = u.paths(fi, setup, cfg, label=f"run_mode[{kind}]")
        dbg, inh, dask_ = z3.Bool("debug"), z3.Bool("inherited"), z3.Bool("with_dask")
        for p in ps:
            h = p.ex.hold
            runs, procs, order = rec.get("runs", []), rec.get("procs", []), rec.get("order", [])
            if p.kind == "raise" and not runs:
                u.oblige(p, f"run_mode.dispatch[{kind}].refused_only_for_debug", z3.And(zb(p.exc_name() == "NotImplementedError" and not procs and kind != "exposure"), dbg), {"exc": p.exc_name()}, DISPATCH_REPLAY)
                continue
            ok = len(runs) == 1 and len(procs) == 1
            proc_ok = ok and procs[0][1].get("detector") is h["detector"] and procs[0][1].get("pipeline") is h["pipeline"] and not procs[0][2] \
                and ((procs[0][1].get("observation_mode") is not None and isinstance(procs[0][1]["observation_mode"], VRef) and procs[0][1]["observation_mode"].addr == h["mode"].addr) if kind == "observation" else "observation_mode" not in procs[0][1])
            run_ok = ok and isinstance(runs[0][0], VRef) and runs[0][0].addr == h["mode"].addr and isinstance(runs[0][1].get("processor"), VRef) and runs[0][1]["processor"].addr == procs[0][0].addr and not runs[0][2]
            seq_ok = ok and order.index("processor") < order.index("run") and (("overrides" in order and order.index("processor") < order.index("overrides") < order.index("run") and
                                                                              rec["overrides"][0].get("overrides") is h["override_dct"] and rec["overrides"][0].get("processor").addr == procs[0][0].addr)
                                                                             if h["has_ovr"] else "overrides" not in order) \
                and (("folder" in order and order.index("folder") < order.index("run")) if h["has_out"] else "folder" not in order)
            u.oblige(p, f"run_mode.dispatch[{kind}].one_run_on_the_given_parts", bool(proc_ok and run_ok), {"runs": len(runs), "processors": len(procs)}, DISPATCH_REPLAY)
            u.oblige(p, f"run_mode.dispatch[{kind}].overrides_and_folder_before_the_run", bool(seq_ok), {"order": str(order)}, DISPATCH_REPLAY)
            if ok:
                kw = runs[0][1]
                wic = kw.get("with_inherited_coords")
                flags = [z_bool(wic.v) == (z3.Or(inh, dask_) if kind == "observation" else inh) if isinstance(wic, VBool) else z3.BoolVal(False)]
                if kind == "exposure":
                    flags.append(z_bool(kw["debug"].v) == dbg if isinstance(kw.get("debug"), VBool) else z3.BoolVal(False))
                else:
                    flags.append(z3.Not(dbg))
                u.oblige(p, f"run_mode.dispatch[{kind}].flags_as_given", z3.And(*flags), {}, DISPATCH_REPLAY)
            if p.kind == "return":
                u.oblige(p, f"run_mode.dispatch[{kind}].result_returned_as_it_is", p.value is rec.get("result"), {}, DISPATCH_REPLAY)
            else:
                e = rec.get("exc")
                u.oblige(p, f"run_mode.dispatch[{kind}].failure_passes_through", bool(isinstance(p.value, VSym) and e is not None and z3.eq(p.value.t, e.t)), {"exc": p.exc_name()}, DISPATCH_REPLAY)
        u.cover(f"run_mode.dispatch.cover[{kind}]", ps, lambda p: p.kind == "return")
        u.cover(f"run_mode.dispatch.cover_failure[{kind}]", ps, lambda p: p.kind == "raise" and bool(rec.get("runs")))
