"""Data-flow contracts of the calibration REPORTING path (shared by C10 and C11).

ArchipelagoDataTree._get_champions, get_best_individuals and run_evolve are xarray/pygmo glue: the values are library
objects, so the contracts are about PROVENANCE. The real functions are executed symbolically with pygmo / xarray / pandas as
boundary objects (contracts/boundary.py: every call is recorded with its arguments, results are fresh objects that remember
how they were made) and the obligations state, for every reported node, the term it must have been computed from:

  champions      champion_fitness = ravel(archi.get_champions_f()),  champion_decision = archi.get_champions_x(),
                 champion_parameters = problem.convert_to_parameters(<the SAME decision array>)
  best           per island i, in island order: decision = pop_i.get_x(), parameters = convert_to_parameters(<that array>),
                 fitness = pop_i.get_f().flatten(); the selection is ONE .sel(individual=argsort(best_fitness)[:n]) of the
                 whole island dataset (so the three variables stay aligned); islands concatenated in order
  run_evolve     each evolution: evolve(); wait_check(); then the champions of THAT evolution, labelled with its index, in
                 order; the re-simulation is apply_parameters_to_processors(<champion_parameters of the LAST evolution>);
                 every /champion, /best, /simulated, /full_size node is assigned the like-named variable (bounded: 1..3
                 evolutions, with and without best individuals)
"""
from __future__ import annotations

from .common import *  # noqa: F401,F403
import json
import re

from . import boundary

AD = "pyxel/calibration/archipelago_datatree.py"
FD = "pyxel/calibration/fitting_datatree.py"


def term(ex, v, sets=None, depth=0) -> str:
    """Canonical text of how a boundary value was made. `sets`: {(id(dataset), key): value} lets ds[key] stand for the value stored."""
    if depth > 12:
        return "..."
    if isinstance(v, VOpaque):
        i = v.info
        if "fn" in i:                       # result of calling an attribute of a boundary object
            fn = i["fn"].info
            args = ", ".join([term(ex, a, sets, depth + 1) for a in i.get("args", [])] + [f"{k}={term(ex, a, sets, depth + 1)}" for k, a in sorted(i.get("kwargs", {}).items())])
            if "attr" not in fn:            # the callee is itself a made object, e.g. dask.delayed(f)(...)
                return f"{term(ex, i['fn'], sets, depth + 1)}({args})"
            return f"{term(ex, fn.get('of'), sets, depth + 1)}.{fn.get('attr')}({args})"
        if "key" in i and "of" in i:        # ds[key]
            k = i["key"]
            if sets is not None and isinstance(k, VStr) and (id(i["of"]), k.v) in sets:
                return term(ex, sets[(id(i["of"]), k.v)], sets, depth + 1)
            return f"{term(ex, i['of'], sets, depth + 1)}[{term(ex, k, sets, depth + 1)}]"
        if "attr" in i and "of" in i:
            return f"{term(ex, i['of'], sets, depth + 1)}.{i['attr']}"
        lab = str(i.get("label"))
        if lab.endswith("()") and "args" in i:      # library constructor / function
            args = ", ".join([term(ex, a, sets, depth + 1) for a in i.get("args", [])] + [f"{k}={term(ex, a, sets, depth + 1)}" for k, a in sorted(i.get("kwargs", {}).items())])
            return f"{lab[:-2]}({args})"
        return lab
    if isinstance(v, (VStr, VInt, VFloat, VBool)):
        return repr(v.v) if is_conc(v.v) else str(v.v)
    if isinstance(v, VNone):
        return "None"
    if isinstance(v, VTuple):      # a tuple of names / values says the same as a list of them
        return "[" + ", ".join(term(ex, x, sets, depth + 1) for x in v.items) + "]"
    if isinstance(v, VSlice):
        return f"slice({term(ex, v.lo, sets, depth + 1)}, {term(ex, v.hi, sets, depth + 1)}, {term(ex, v.step, sets, depth + 1)})"
    if isinstance(v, VRef):
        c = ex.st.cell(v)
        if isinstance(c, HList):
            return "[" + ", ".join(term(ex, x, sets, depth + 1) for x in c.items) + "]"
        if isinstance(c, HDict):
            return "{" + ", ".join(f"{term(ex, k, sets, depth + 1)}: {term(ex, x, sets, depth + 1)}" for k, x in c.items) + "}"
    if isinstance(v, VLib):
        return v.name
    if isinstance(v, VFunc):
        return v.fi.qualname
    return repr(v)


ROOT = re.compile(r"archi\.get_champions_[fx]\(\)|island\d+\.get_population\(\)\.get_[xf]\(\)|champions\d+|best\d+|row\d+\['[a-z_]+'\](?:\['[a-z]+'\])?|processor\d+|champions@'island'=\d+"
                  r"|extract_data_3d\(\)|problem\.[a-z_]+|df_results|\['(?:simulated_[a-z]+|champion_[a-z]+|best_[a-z]+)'\]|evolution=\[?-?\d+\]?|island=\d+|num_best|_apply_parameters|\\?\"(?:island|id_processor)\\?\": \\?\"\d+\\?\"")


def roots(t) -> list:
    return sorted(ROOT.findall(str(t)))


def judge(u, p, name, got, want, replay, witness=None):
    """Provenance obligation with three outcomes: the term has the expected form -> discharged; it is built from OTHER sources than the
    expected ones (another optimiser call, island, row, bucket, evolution index ...) -> refuted; the same sources in a form the contract
    does not recognise (an equivalent re-expression, or a re-ordering it cannot see through) -> undecided, and the native stand-in
    scenarios decide (check.py): a behaviour-preserving rewrite must never be reported."""
    if got == want:
        return u.oblige(p, name, True, witness or {}, replay)
    if roots(got) != roots(want):
        return u.oblige(p, name, False, dict(witness or {}, got=str(got)[:300], expected=str(want)[:300]), replay)
    u.undecide(name, p.ex.root_fn.qualname if p.ex.root_fn else "", f"same sources in an unrecognised form: {str(got)[:200]}")
    return False


def data_of(t: str) -> str:
    """xarray.DataArray(X, dims=...) carries the data X."""
    if t.startswith("xarray.DataArray(") :
        inner = t[len("xarray.DataArray("):]
        d, out = 0, ""
        for ch in inner:
            if ch in "([{":
                d += 1
            if ch in ")]}":
                d -= 1
            if (ch == "," and d == 0) or d < 0:
                break
            out += ch
        return out
    return t


def stores(ex, p, ds) -> dict:
    """{key: value} of the item assignments made on boundary object ds (last one wins)."""
    out = {}
    for ev in p.st.events:
        if ev[0] == "xr_setitem" and ev[4] is ds and isinstance(ev[2], VStr) and is_conc(ev[2].v):
            out[ev[2].v] = ev[3]
    return out


def all_sets(p) -> dict:
    return {(id(ev[4]), ev[2].v): ev[3] for ev in p.st.events if ev[0] == "xr_setitem" and isinstance(ev[2], VStr) and is_conc(ev[2].v)}


def mk_cfg(u, rec):
    cfg = Cfg("real")
    boundary.install(cfg, prefixes=("xarray.", "dask.", "tqdm.", "pandas.", "pygmo."))

    def conv(ex, args, kwargs, fr):
        x = args[1] if len(args) > 1 else kwargs.get("decisions_vector")
        rec.setdefault("conv", []).append(x)
        return VOpaque("xr", ex.st.fresh_int("converted"), {"label": "problem.convert_to_parameters()", "args": [x]})
    cfg.contracts[f"{FD}::ModelFittingDataTree.convert_to_parameters"] = Contract(f"{FD}::ModelFittingDataTree.convert_to_parameters", conv, "C10.convert.layout")

    def ravel(ex, f, args, kwargs, fr):
        if isinstance(args[0], VOpaque):
            return VOpaque("xr", ex.st.fresh_int("ravel"), {"label": "numpy.ravel()", "args": [args[0]]})
        return ex.lib.call(ex, f, args, kwargs, fr)
    cfg.lib_overrides["numpy.ravel"] = ravel

    def same_data(ex, f, args, kwargs, fr):       # np.asarray / np.array of a library array-like: the same data
        if args and isinstance(args[0], VOpaque) and len(args) == 1 and not kwargs:
            return args[0]
        return ex.lib.call(ex, f, args, kwargs, fr)
    cfg.lib_overrides["numpy.asarray"] = same_data
    cfg.lib_overrides["numpy.array"] = same_data
    return cfg


def mk_archi(ex, u, n_islands=None):
    aci = u.cls(f"{AD}::ArchipelagoDataTree")
    pci = u.cls(f"{FD}::ModelFittingDataTree")
    problem = ex.st.alloc(HObj(pci, {"sim_fit_range": NONE, "all_target_data": VOpaque("xr", None, {"label": "problem.all_target_data"}),
                                     "target_full_scale": VOpaque("xr", None, {"label": "problem.target_full_scale"})}))
    if n_islands is None:
        archi = VOpaque("xr", None, {"label": "archi", "truthy": True})
    else:
        archi = ex.st.alloc(HList([VOpaque("xr", None, {"label": f"island{i}"}) for i in range(n_islands)]))
    algo = ex.st.alloc(HObj("algo", {"generations": VInt(z3.Int("generations")), "population_size": VInt(z3.Int("population_size"))}))
    me = ex.st.alloc(HObj(aci, {"_pygmo_archi": archi, "problem": problem, "_log": VOpaque("logger"), "num_islands": VInt(z3.Int("num_islands")),
                                "algorithm": algo, "with_bar": VBool(False), "parallel": VBool(z3.Bool("parallel"))}))
    return me


CHAMP_REPLAY = lambda w: {"code": """
import numpy as np
from pyxel.calibration.archipelago_datatree import ArchipelagoDataTree
class Archi:
    def get_champions_f(self): return [np.array([30.0]), np.array([10.0]), np.array([20.0])]
    def get_champions_x(self): return [np.array([1.0, -2.0]), np.array([3.0, -1.0]), np.array([5.0, 0.0])]
    def __iter__(self): return iter([Isl(0), Isl(1), Isl(2)])
    def __len__(self): return 3
class Pop:
    def __init__(self, i): self.i = i
    def get_x(self): return np.array([[1.0 + self.i, -2.0], [2.0 + self.i, -1.0], [3.0 + self.i, 0.0]])
    def get_f(self): return np.array([[9.0], [7.0 - self.i], [8.0]])
class Isl:
    def __init__(self, i): self.i = i
    def get_population(self): return Pop(self.i)
class Problem:
    def convert_to_parameters(self, d):
        out = np.array(d, dtype=float); out[..., 1] = 10 ** out[..., 1]; return out
a = ArchipelagoDataTree.__new__(ArchipelagoDataTree)
a._pygmo_archi, a.problem = Archi(), Problem()
ch = a._get_champions()
VIOLATED, DETAIL = False, 'reported parameters are convert_to_parameters of the reported decisions; fitness / decision / parameters stay aligned'
if (ch['champion_fitness'].values.tolist() != [30.0, 10.0, 20.0] or not np.allclose(ch['champion_decision'].values, [[1, -2], [3, -1], [5, 0]])
        or not np.allclose(ch['champion_parameters'].values, [[1, 0.01], [3, 0.1], [5, 1.0]])):
    VIOLATED, DETAIL = True, f"champions: fitness {ch['champion_fitness'].values.tolist()} decision {ch['champion_decision'].values.tolist()} parameters {ch['champion_parameters'].values.tolist()}"
best = a.get_best_individuals(num_best_decisions=2)
for i in range(3):
    f = best['best_fitness'].sel(island=i).values.tolist(); d = best['best_decision'].sel(island=i).values; q = best['best_parameters'].sel(island=i).values
    want_f = sorted([9.0, 7.0 - i, 8.0])[:2]
    want_d = np.array([[2.0 + i, -1.0], [3.0 + i, 0.0]])
    if f != want_f or not np.allclose(d, want_d) or not np.allclose(q[:, 0], want_d[:, 0]) or not np.allclose(q[:, 1], 10 ** want_d[:, 1]):
        VIOLATED, DETAIL = True, f'best individuals of island {i}: fitness {f} decision {d.tolist()} parameters {q.tolist()}'; break
""", "expect": "the reported champions and best individuals are (decision, convert_to_parameters(decision), fitness) of the same individual"}


def champions_unit(u: Unit):
    fi = u.fn(f"{AD}::ArchipelagoDataTree._get_champions")
    rec = {}
    cfg = mk_cfg(u, rec)

    def setup(ex):
        rec.clear()
        return [mk_archi(ex, u)], {}
    ps = u.paths(fi, setup, cfg, label="_get_champions")
    for p in ps:
        if p.kind != "return":
            u.oblige(p, "report.champions.no_raise", False, {"exc": p.exc_name()}, CHAMP_REPLAY)
            continue
        sets = all_sets(p)
        got = {k: term(p.ex, v, sets) for k, v in stores(p.ex, p, p.value).items()}
        X, F = "archi.get_champions_x()", "numpy.ravel(archi.get_champions_f())"
        u.oblige(p, "report.champions.nodes", sorted(got) == ["champion_decision", "champion_fitness", "champion_parameters"], {"nodes": str(sorted(got))}, CHAMP_REPLAY)
        judge(u, p, "report.champions.decision_is_the_optimisers", data_of(got.get("champion_decision", "")), X, CHAMP_REPLAY)
        judge(u, p, "report.champions.fitness_is_the_optimisers", data_of(got.get("champion_fitness", "")), F, CHAMP_REPLAY)
        conv = [data_of(term(p.ex, x, sets)) for x in rec.get("conv", [])]
        par = data_of(got.get("champion_parameters", ""))
        par_n = "problem.convert_to_parameters(" + data_of(par[len("problem.convert_to_parameters("):-1]) + ")" if par.startswith("problem.convert_to_parameters(") else par
        judge(u, p, "report.champions.parameters_are_the_converted_decision", (conv, par_n), ([X], f"problem.convert_to_parameters({X})"), CHAMP_REPLAY)
        dims = {k: re.findall(r"dims=\[?((?:'[a-z_]+'(?:, )?)+)\]?", v) for k, v in got.items()}
        ok = dims.get("champion_fitness", [None])[-1] == "'island'" and dims.get("champion_decision", [None])[-1] == "'island', 'param_id'" and dims.get("champion_parameters", [None])[-1] == "'island', 'param_id'"
        u.oblige(p, "report.champions.dimensions", ok, {"got": str(dims)[:300]}, CHAMP_REPLAY)
    u.cover("report.champions.cover", ps, lambda p: p.kind == "return")


def best_unit(u: Unit):
    fi = u.fn(f"{AD}::ArchipelagoDataTree.get_best_individuals")
    for n_isl in (1, 3):
        rec = {}
        cfg = mk_cfg(u, rec)

        def setup(ex, n_isl=n_isl):
            rec.clear()
            ex.st.assume(z3.Int("num_best") >= 0)
            return [mk_archi(ex, u, n_isl)], {"num_best_decisions": VInt(z3.Int("num_best"))}
        ps = u.paths(fi, setup, cfg, label=f"get_best_individuals[{n_isl} islands]")
        for p in ps:
            if p.kind != "return":
                u.oblige(p, f"report.best.no_raise[{n_isl}]", False, {"exc": p.exc_name()}, CHAMP_REPLAY)
                continue
            sets = all_sets(p)
            # the island datasets, in the order they were appended: concat(lst, dim='island') of assign_coords(island=i) of .sel(...)
            conc = [ev for ev in p.st.events if ev[0] == "lib_call" and ev[1] == "xarray.concat"]
            ok = len(conc) == 1
            parts = p.ex.try_list(conc[0][2][0]) if ok and conc[0][2] else None
            ok = ok and parts is not None and len(parts) == n_isl and term(p.ex, conc[0][3].get("dim")) == "'island'"
            u.oblige(p, f"report.best.one_dataset_per_island[{n_isl}]", bool(ok), {}, CHAMP_REPLAY)
            if not ok:
                continue
            good, detail, got_all, want_all = True, "", [], []
            for i, part in enumerate(parts):
                t = term(p.ex, part)          # <sel>.assign_coords(island=i)
                selv = part.info.get("fn").info.get("of") if isinstance(part, VOpaque) and "fn" in part.info else None
                if not (isinstance(selv, VOpaque) and t.endswith(f".assign_coords(island={i})") and "fn" in selv.info and selv.info["fn"].info.get("attr") == "sel"):
                    good, detail = False, f"island {i}: appended {t[:200]}"
                    break
                ds = selv.info["fn"].info.get("of")
                st = {k: term(p.ex, v, sets) for k, v in stores(p.ex, p, ds).items()}
                X = f"island{i}.get_population().get_x()"
                Fv = f"island{i}.get_population().get_f().flatten()"
                want = {"best_decision": f"xarray.DataArray({X}, dims=['individual', 'param_id'])", "best_parameters": f"xarray.DataArray(problem.convert_to_parameters({X}), dims=['individual', 'param_id'])",
                        "best_fitness": f"xarray.DataArray({Fv}, dims=['individual'])"}
                idx = term(p.ex, selv.info.get("kwargs", {}).get("individual"), sets)
                got_all.append((st, idx))
                want_all.append((want, f"xarray.DataArray({Fv}, dims=['individual']).argsort()[slice(None, num_best, None)]"))
            if good:
                judge(u, p, f"report.best.aligned_per_island[{n_isl}]", got_all, want_all, CHAMP_REPLAY)
            else:
                u.undecide(f"report.best.aligned_per_island[{n_isl}]", fi.qualname, f"unrecognised way of collecting the islands: {detail}")
        u.cover(f"report.best.cover[{n_isl}]", ps, lambda p: p.kind == "return")


EVOLVE_REPLAY = lambda w: {"code": """
import numpy as np, xarray as xr, pandas as pd
from pyxel.calibration.archipelago_datatree import ArchipelagoDataTree
import pyxel.calibration.archipelago_datatree as AD
from pyxel.exposure import Readout
LOG = []
class Archi:
    n = 0
    def evolve(self): LOG.append('evolve'); Archi.n += 1
    def wait_check(self): LOG.append('wait_check')
    def get_champions_f(self): LOG.append('champions'); return [np.array([100.0 - 10 * Archi.n]), np.array([200.0 - 10 * Archi.n])]
    def get_champions_x(self): return [np.array([float(Archi.n), 1.0]), np.array([float(Archi.n), 2.0])]
    def __iter__(self):          # the islands and their populations (read when best individuals are requested)
        class Pop:
            def __init__(self, i): self.i = i
            def get_x(self): return np.array([[1.0 + self.i, 3.0], [2.0 + self.i, 4.0], [0.5 + self.i, 5.0]])
            def get_f(self): return np.array([[30.0], [10.0 + self.i], [20.0]])
        class Isl:
            def __init__(self, i): self.i = i
            def get_population(self): return Pop(self.i)
        return iter([Isl(0), Isl(1)])
    def __len__(self): return 2
class Problem:
    sim_fit_range = None
    all_target_data = xr.DataArray(np.zeros((1, 2, 2)), dims=['processor', 'y', 'x'])
    target_full_scale = xr.DataArray(np.zeros((1, 2, 2)), dims=['processor', 'y', 'x'])
    def convert_to_parameters(self, d): return np.array(d, dtype=float) * 2.0
    def apply_parameters_to_processors(self, parameters):
        LOG.append(('resimulate', parameters.values.tolist())); return 'df'
class Algo: generations = 2; population_size = 5
def fake_extract(df_results, rows, cols, times, readout_times):
    ds = xr.Dataset({'simulated_' + k: xr.DataArray(np.full((1, 2, 2), i + 1.0), dims=['id_processor', 'y', 'x']) for i, k in enumerate(['photon', 'charge', 'pixel', 'signal', 'image'])})
    return ds
AD.extract_data_3d = fake_extract
a = ArchipelagoDataTree.__new__(ArchipelagoDataTree)
a._pygmo_archi, a.problem, a.algorithm, a.num_islands, a.with_bar = Archi(), Problem(), Algo(), 2, False
import logging; a._log = logging.getLogger('x')
dt = a.run_evolve(readout=Readout(times=[1.0]), num_rows=2, num_cols=2, num_evolutions=3, num_best_decisions=None)
VIOLATED, DETAIL = False, 'every evolution is waited for before its champions are read; champions are labelled by evolution; the last champions are re-simulated'
calls = [x for x in LOG if isinstance(x, str)]
if calls != ['evolve', 'wait_check', 'champions'] * 3:
    VIOLATED, DETAIL = True, f'call order {calls}'
fit = dt['/champion/fitness'].to_numpy() if hasattr(dt['/champion/fitness'], 'to_numpy') else np.array(dt['/champion/fitness'])
fit = np.array(dt['/champion/fitness'])
if not VIOLATED and not np.allclose(np.squeeze(fit), [[90.0, 80.0, 70.0], [190.0, 180.0, 170.0]]):
    VIOLATED, DETAIL = True, f'/champion/fitness = {np.squeeze(fit).tolist()} (island x evolution expected [[90, 80, 70], [190, 180, 170]])'
if not VIOLATED and list(np.array(dt['/champion/fitness'].coords['evolution'])) != [0, 1, 2]:
    VIOLATED, DETAIL = True, f"evolution labels of /champion/fitness: {list(np.array(dt['/champion/fitness'].coords['evolution']))}"
res = [x for x in LOG if isinstance(x, tuple)]
if not VIOLATED and (len(res) != 1 or not np.allclose(res[0][1], [[6.0, 2.0], [6.0, 4.0]])):
    VIOLATED, DETAIL = True, f're-simulated parameters {res} (the champions of the last evolution are [[6, 2], [6, 4]])'
for i, k in enumerate(['photon', 'charge', 'pixel', 'signal', 'image']):
    if not VIOLATED and (float(np.array(dt['/simulated/' + k]).ravel()[0]) != i + 1.0 or float(np.array(dt['/full_size/simulated_' + k]).ravel()[0]) != i + 1.0):
        VIOLATED, DETAIL = True, f'node simulated {k} holds another bucket'
""", "expect": "run_evolve reports per evolution the champions read after that evolution finished and re-simulates the last champions"}


BEST_REPLAY = lambda w: {"code": EVOLVE_REPLAY(w)["code"].replace("num_best_decisions=None)", "num_best_decisions=2)") + """
if not VIOLATED:
    bd, bp, bf = (np.array(dt['/best/' + k].isel(evolution=-1)) for k in ('decision', 'parameters', 'fitness'))
    # island i: individuals sorted by fitness -> [10+i, 20]; decisions [[2+i, 4], [0.5+i, 5]]; parameters = 2 * decision (the fake problem)
    want_d = np.array([[[2.0 + i, 4.0], [0.5 + i, 5.0]] for i in range(2)])
    if not np.allclose(np.squeeze(bf), [[10.0, 20.0], [11.0, 20.0]]) or not np.allclose(np.squeeze(bd), want_d):
        VIOLATED, DETAIL = True, f'/best/fitness {np.squeeze(bf).tolist()} /best/decision {np.squeeze(bd).tolist()}'
    elif not np.allclose(np.squeeze(bp), 2.0 * want_d):
        VIOLATED, DETAIL = True, f'/best/parameters {np.squeeze(bp).tolist()} are not the values applied for /best/decision (expected {(2.0 * want_d).tolist()})'
""", "expect": "the /best nodes of the report hold best_fitness / best_decision / best_parameters, parameters being the values applied for that decision"}


def evolve_unit(u: Unit):
    """ArchipelagoDataTree.run_evolve by symbolic execution (1..3 evolutions, with / without best individuals)."""
    fi = u.fn(f"{AD}::ArchipelagoDataTree.run_evolve")
    for nev in (1, 2, 3):
        for nbest in (None, 2):
            rec = {}
            cfg = mk_cfg(u, rec)
            tagname = f"{nev},{'best' if nbest else 'nobest'}"

            def champs(ex, args, kwargs, fr, rec=rec):
                k = len(rec.setdefault("champ_at", []))
                rec["champ_at"].append(len(ex.st.events))
                return VOpaque("xr", ex.st.fresh_int("champions"), {"label": f"champions{k}"})

            def best(ex, args, kwargs, fr, rec=rec):
                k = len(rec.setdefault("best_at", []))
                rec["best_at"].append((len(ex.st.events), kwargs.get("num_best_decisions", args[1] if len(args) > 1 else None)))
                return VOpaque("xr", ex.st.fresh_int("best"), {"label": f"best{k}"})

            def resim(ex, args, kwargs, fr, rec=rec):
                rec.setdefault("resim", []).append(kwargs.get("parameters", args[1] if len(args) > 1 else None))
                return VOpaque("xr", ex.st.fresh_int("df"), {"label": "df_results"})

            def extract(ex, args, kwargs, fr, rec=rec):
                rec.setdefault("extract", []).append(dict(kwargs))
                return VOpaque("xr", ex.st.fresh_int("sim"), {"label": "extract_data_3d()"})
            cfg.contracts[f"{AD}::ArchipelagoDataTree._get_champions"] = Contract(f"{AD}::ArchipelagoDataTree._get_champions", champs, "report.champions")
            cfg.contracts[f"{AD}::ArchipelagoDataTree.get_best_individuals"] = Contract(f"{AD}::ArchipelagoDataTree.get_best_individuals", best, "report.best")
            cfg.contracts[f"{FD}::ModelFittingDataTree.apply_parameters_to_processors"] = Contract(f"{FD}::ModelFittingDataTree.apply_parameters_to_processors", resim, "C11.resimulation")
            cfg.contracts[f"{AD}::extract_data_3d"] = Contract(f"{AD}::extract_data_3d", extract, "result assembly (boundary)")
            cfg.lib_overrides[("len", "xr")] = lambda ex, v, fr: VInt(ex.st.fresh_int("xr_len"))

            def setup(ex, nev=nev, nbest=nbest):
                rec.clear()
                me = mk_archi(ex, u)
                ex.hold = me
                readout = VOpaque("xr", None, {"label": "readout"})
                return [me], {"readout": readout, "num_rows": VInt(z3.Int("rows")), "num_cols": VInt(z3.Int("cols")), "num_evolutions": VInt(nev),
                              "num_best_decisions": VInt(nbest) if nbest else NONE}
            ps = u.paths(fi, setup, cfg, label=f"run_evolve[{tagname}]")
            for p in ps:
                if p.kind != "return":
                    u.oblige(p, f"run_evolve.no_raise[{tagname}]", False, {"exc": p.exc_name()}, EVOLVE_REPLAY)
                    continue
                evs = p.st.events
                calls = [(i, str(e[1])) for i, e in enumerate(evs) if e[0] == "xr_call" and str(e[1]) in ("archi.evolve", "archi.wait_check")]
                names = [n for _, n in calls]
                order_ok = names == ["archi.evolve", "archi.wait_check"] * nev and len(rec.get("champ_at", [])) == nev
                if order_ok:      # champions of evolution k are read after ITS wait_check and before the next evolve
                    for k in range(nev):
                        lo = calls[2 * k + 1][0]
                        hi = calls[2 * k + 2][0] if k + 1 < nev else len(evs) + 1
                        order_ok = order_ok and lo < rec["champ_at"][k] <= hi
                        if nbest:
                            order_ok = order_ok and len(rec.get("best_at", [])) == nev and lo < rec["best_at"][k][0] <= hi and term(p.ex, rec["best_at"][k][1]) == str(nbest)
                u.oblige(p, f"run_evolve.waits_then_reads_champions[{tagname}]", bool(order_ok), {"calls": str(names), "champions_read": len(rec.get("champ_at", []))}, EVOLVE_REPLAY)
                sets = all_sets(p)
                # the list handed to xr.concat: per evolution, its champions (merged with its best individuals) labelled evolution=[k]
                conc = [e for e in evs if e[0] == "lib_call" and e[1] == "xarray.concat"]
                parts = p.ex.try_list(conc[0][2][0]) if len(conc) == 1 and conc[0][2] else None
                if parts is None or len(conc) != 1:
                    u.undecide(f"run_evolve.champions_labelled_by_evolution[{tagname}]", fi.qualname, "unrecognised way of collecting the evolutions (no single xr.concat of a list)")
                    continue
                got_parts = [term(p.ex, part).split(".assign_coords(")[0] for part in parts] + [term(p.ex, conc[0][3].get("dim"))]
                want_parts = [(f"xarray.merge([champions{k}, best{k}])" if nbest else f"champions{k}") + f".expand_dims(axis=1, evolution=[{k}])" for k in range(nev)] + ["'evolution'"]
                if not judge(u, p, f"run_evolve.champions_labelled_by_evolution[{tagname}]", got_parts, want_parts, EVOLVE_REPLAY):
                    continue
                champions = term(p.ex, VOpaque("xr", None, {"label": "xarray.concat()", "args": conc[0][2], "kwargs": conc[0][3]}))
                # the last of nev evolutions is index -1 or nev - 1
                got_re = [term(p.ex, x).replace(champions, "<champions>").replace(f"isel(evolution={nev - 1})", "isel(evolution=-1)") for x in rec.get("resim", [])]
                judge(u, p, f"run_evolve.resimulates_last_champions[{tagname}]", got_re, ["<champions>.isel(evolution=-1)['champion_parameters']"], EVOLVE_REPLAY)
                sim_t = term(p.ex, VOpaque("xr", None, {"label": "extract_data_3d()"}))
                nodes = {k: term(p.ex, v, None).replace(champions, "<champions>") for k, v in stores(p.ex, p, p.value).items()}
                want = {"/champion/fitness": "<champions>['champion_fitness']", "/champion/decision": "<champions>['champion_decision']", "/champion/parameters": "<champions>['champion_parameters']"}
                sim = "extract_data_3d().rename(id_processor='processor')"
                for b in ("photon", "charge", "pixel", "signal", "image"):
                    want[f"/simulated/{b}"] = f"{sim}['simulated_{b}']"
                    want[f"/full_size/simulated_{b}"] = f"{sim}['simulated_{b}']"
                want["/full_size/target"] = "problem.target_full_scale"
                judge(u, p, f"run_evolve.nodes_hold_their_own_variable[{tagname}]", [nodes.get(k) for k in sorted(want)], [want[k] for k in sorted(want)], EVOLVE_REPLAY)
                # the best individuals, whenever they are reported: each /best node holds the like-named variable (decision vectors and
                # the values applied to the pipeline are different things for logarithmic parameters)
                bnodes = sorted(k for k in nodes if k.startswith("/best/"))
                judge(u, p, f"run_evolve.best_nodes_hold_their_own_variable[{tagname}]", [nodes[k] for k in bnodes], [f"<champions>['best_{k.split('/')[-1]}']" for k in bnodes], BEST_REPLAY)
                ex_kw = rec.get("extract", [{}])[0]
                u.oblige(p, f"run_evolve.simulated_from_the_resimulation[{tagname}]", len(rec.get("extract", [])) == 1 and term(p.ex, ex_kw.get("df_results")) == "df_results", {}, EVOLVE_REPLAY)
            u.cover(f"run_evolve.cover[{tagname}]", ps, lambda p: p.kind == "return")


PAIRS_REPLAY = lambda w: {"code": """
import numpy as np, xarray as xr, dask
from pyxel.calibration.fitting_datatree import ModelFittingDataTree
import pyxel.calibration.archipelago_datatree as AD
calls = []
class P(ModelFittingDataTree):
    def __init__(self): self.param_processor_list = ['proc0', 'proc1', 'proc2']
    def _apply_parameters(self, processor, parameter):
        calls.append((processor, np.array(parameter).tolist()))
        k = int(processor[-1]); i = int(parameter[0])
        return {b: np.full((1, 2, 2), 100.0 * j + 10 * k + i) for j, b in enumerate(['photon', 'charge', 'pixel', 'signal', 'image'])}
params = xr.DataArray(np.array([[0.0, 5.0], [1.0, 6.0]]), dims=['island', 'param_id'])
df = P().apply_parameters_to_processors(parameters=params)
ds = AD.extract_data_3d(df_results=df, rows=2, cols=2, times=1, readout_times=np.array([1.0])).compute()
VIOLATED, DETAIL = False, 'every (island, processor) pair is re-simulated with that island and that processor, and every node holds its own bucket'
for j, b in enumerate(['photon', 'charge', 'pixel', 'signal', 'image']):
    for i in range(2):
        for k in range(3):
            v = float(ds['simulated_' + b].sel(island=i, id_processor=k).values.ravel()[0])
            if v != 100.0 * j + 10 * k + i:
                VIOLATED, DETAIL = True, f'simulated_{b}[island={i}, processor={k}] holds the value of bucket {int(v) // 100}, processor {int(v) % 100 // 10}, island {int(v) % 10}'
if sorted(calls) != sorted((f'proc{k}', [float(i), 5.0 + i]) for k in range(3) for i in range(2)):
    VIOLATED, DETAIL = True, f're-simulations made: {sorted(calls)}'
""", "expect": "re-simulation covers every (island, processor) pair once with that island's champion; the result nodes hold the matching bucket"}


def _groupby_cfg(u, rec, n_islands, n_rows=None):
    cfg = mk_cfg(u, rec)
    base_call = cfg.lib_overrides[("call", "xr")]

    def call(ex, f, args, kwargs, fr):
        lab = str(f.info.get("label", ""))
        if lab.endswith(".groupby"):          # xarray: iterating DataArray.groupby(dim) yields (label, sub-array) in label order
            ex.st.events.append(("xr_call", lab, list(args), dict(kwargs), f))
            return ex.st.alloc(HList([VTuple([VInt(i), VOpaque("xr", None, {"label": f"{f.info['of'].info.get('label')}@{term(ex, args[0])}={i}"})]) for i in range(n_islands)]))
        if lab.endswith(".iterrows") and n_rows is not None:   # pandas: (index, row) pairs in row order
            return ex.st.alloc(HList([VTuple([VInt(j), VOpaque("xr", None, {"label": f"row{j}"})]) for j in range(n_rows)]))
        return base_call(ex, f, args, kwargs, fr)
    cfg.lib_overrides[("call", "xr")] = call
    cfg.lib_overrides[("contains", "xr")] = lambda ex, container, item: True      # the dimensions the caller promises are there
    return cfg


def pairs_unit(u: Unit):
    """ModelFittingDataTree.apply_parameters_to_processors: one _apply_parameters(processor_k, champion of island i) per pair,
    filed under (island i, processor k) — 2 islands x 1..3 processors."""
    fi = u.fn(f"{FD}::ModelFittingDataTree.apply_parameters_to_processors")
    pci = u.cls(f"{FD}::ModelFittingDataTree")
    for nproc in (1, 3):
        rec = {}
        cfg = _groupby_cfg(u, rec, 2)

        def setup(ex, nproc=nproc):
            me = ex.st.alloc(HObj(pci, {"param_processor_list": ex.st.alloc(HList([VOpaque("xr", None, {"label": f"processor{k}"}) for k in range(nproc)]))}))
            return [me], {"parameters": VOpaque("xr", None, {"label": "champions"})}
        ps = u.paths(fi, setup, cfg, label=f"apply_parameters_to_processors[{nproc}]")
        for p in ps:
            if p.kind != "return":
                u.oblige(p, f"resimulation.pairs.no_raise[{nproc}]", False, {"exc": p.exc_name()}, PAIRS_REPLAY)
                continue
            frames = [e for e in p.st.events if e[0] == "lib_call" and e[1] == "pandas.DataFrame"]
            rows = p.ex.try_list(frames[0][2][0]) if len(frames) == 1 and frames[0][2] else None
            got = []
            for r in rows or []:
                d = p.ex.try_dict(r)
                got.append({k.v: term(p.ex, v) for k, v in d} if d is not None else None)
            want = [{"island": str(i), "id_processor": str(k),
                     "data_tree": f"dask.delayed.delayed({FD}::ModelFittingDataTree._apply_parameters)(parameter=champions@'island'={i}.squeeze().to_numpy(), processor=dask.delayed.delayed(processor{k}))"}
                    for k in range(nproc) for i in range(2)]
            norm = lambda rows_: sorted(json.dumps(r, sort_keys=True) for r in rows_ if r is not None)
            if rows is None:
                u.undecide(f"resimulation.pairs.each_pair_once_with_its_own_champion[{nproc}]", fi.qualname, "unrecognised way of building the result table (no single pandas.DataFrame of a list)")
            else:
                judge(u, p, f"resimulation.pairs.each_pair_once_with_its_own_champion[{nproc}]", norm(got), norm(want), PAIRS_REPLAY)
        u.cover(f"resimulation.pairs.cover[{nproc}]", ps, lambda p: p.kind == "return")


def extract_unit(u: Unit):
    """extract_data_3d: per result row, the five simulated_<bucket> arrays come from data_tree[<that bucket>] of THAT row and are
    filed under that row's island and processor (2 rows)."""
    fi = u.fn(f"{AD}::extract_data_3d")
    rec = {}
    cfg = _groupby_cfg(u, rec, 2, n_rows=2)
    cfg.lib_overrides[("isinstance", "xr")] = lambda ex, v, libs, clss: VBool(True)

    def setup(ex):
        return [], {"df_results": VOpaque("xr", None, {"label": "df_results"}), "rows": VInt(z3.Int("rows")), "cols": VInt(z3.Int("cols")), "times": VInt(z3.Int("times")),
                    "readout_times": VOpaque("xr", None, {"label": "readout_times"})}
    ps = u.paths(fi, setup, cfg, label="extract_data_3d")
    for p in ps:
        if p.kind != "return":
            u.oblige(p, "extract.no_raise", False, {"exc": p.exc_name()}, PAIRS_REPLAY)
            continue
        comb = [e for e in p.st.events if e[0] == "lib_call" and e[1] == "xarray.combine_by_coords"]
        parts = p.ex.try_list(comb[0][2][0]) if len(comb) == 1 and comb[0][2] else None
        if parts is None or len(parts) != 2:
            u.undecide("extract.each_node_from_its_own_bucket_and_row", fi.qualname, "unrecognised way of combining the rows")
            continue
        got_all, want_all = [], []
        for j, part in enumerate(parts):
            t = term(p.ex, part)
            node, ds = part, None
            while isinstance(node, VOpaque) and "fn" in node.info:          # walk back to the Dataset the per-row arrays were stored in
                node = node.info["fn"].info.get("of")
                if isinstance(node, VOpaque) and stores(p.ex, p, node):
                    ds = node
                    break
            st = {k: term(p.ex, v) for k, v in stores(p.ex, p, ds).items()} if ds is not None else {}
            got_all.append((t[t.find(".assign_coords("):] if ".assign_coords(" in t else t, sorted(st.items())))
            want = {f"simulated_{b}": f"xarray.DataArray(dask.array.from_delayed(row{j}['data_tree']['{b}'], dtype=builtins.float, shape=[times, rows, cols]), dims=['readout_time', 'y', 'x'])"
                    for b in ("photon", "charge", "pixel", "signal", "image")}
            want_all.append((f".assign_coords(id_processor=row{j}['id_processor'], island=row{j}['island']).expand_dims(['island', 'id_processor'])", sorted(want.items())))
        judge(u, p, "extract.each_node_from_its_own_bucket_and_row", got_all, want_all, PAIRS_REPLAY)
    u.cover("extract.cover", ps, lambda p: p.kind == "return")


# ---- Calibration.__init__: what the running mode keeps of what it is given ---------------------------------------------------------------
CAL = "pyxel/calibration/calibration.py"
CTOR_REPLAY = lambda w: {"code": """
import numpy as np, tempfile, os
from pyxel.calibration import Calibration, Algorithm
from pyxel.pipelines import FitnessFunction
from pyxel.observation import ParameterValues
d = tempfile.mkdtemp(); fn = os.path.join(d, 't.npy'); np.save(fn, np.ones((3, 4)))
VIOLATED, DETAIL = False, 'the calibration keeps the seeds and settings it is given (0 is a seed like any other)'
for pyg, pipe in ((0, 0), (1111, 7), (0, None), (100000, 0)):
    c = Calibration(target_data_path=[fn], fitness_function=FitnessFunction(func='pyxel.calibration.fitness.sum_of_abs_residuals'), algorithm=Algorithm(),
                    parameters=[ParameterValues(key='a.b.c', values='_', boundaries=[0.0, 1.0])], pygmo_seed=pyg, pipeline_seed=pipe, num_islands=3, num_evolutions=4, num_best_decisions=5, topology='ring')
    got = (c.pygmo_seed, c.pipeline_seed, c.num_islands, c.num_evolutions, c.num_best_decisions, c.topology)
    if got != (pyg, pipe, 3, 4, 5, 'ring') or type(c.pygmo_seed) is not type(pyg):
        VIOLATED, DETAIL = True, f'given pygmo_seed={pyg!r} pipeline_seed={pipe!r}: kept {got}'; break
""", "expect": "Calibration(...).pygmo_seed / pipeline_seed / islands / evolutions are the given values, 0 included"}


def calibration_ctor_unit(u: Unit):
    """Calibration.__init__: for EVERY admissible optimiser seed (0..100000, zero included) and every pipeline seed (any integer or none)
    the object keeps exactly the given value; islands, evolutions, best-decision count, topology, fitness function, algorithm, parameters,
    fit ranges and weights are the given ones (absent sequences become empty); an optimiser seed outside 0..100000 or fewer than one island
    is refused. A missing optimiser seed is drawn at random (boundary)."""
    fi = u.fn(f"{CAL}::Calibration.__init__")
    cci = u.cls(f"{CAL}::Calibration")
    for seeds in ("given", "absent"):
        cfg = Cfg("real")
        boundary.install(cfg, prefixes=("xarray.", "dask.", "tqdm.", "pandas.", "pygmo.", "numpy.random."))
        cfg.contracts[f"{CAL}::to_path_list"] = Contract(f"{CAL}::to_path_list", lambda ex, args, kwargs, fr: VOpaque("xr", None, {"label": "paths", "args": list(args), "truthy": True}), "paths resolved (C20 loaders)")
        cfg.contracts["pyxel/pipelines/processor.py::get_result_id"] = Contract("pyxel/pipelines/processor.py::get_result_id", lambda ex, args, kwargs, fr: VOpaque("xr", None, {"label": "result_id", "args": list(args)}), "result id")
        cfg.lib_overrides["repo:pyxel.set_options"] = lambda ex, f, args, kwargs, fr: NONE
        for q in ("pyxel/options.py::set_options", "pyxel/__init__.py::set_options"):
            cfg.contracts[q] = Contract(q, lambda ex, args, kwargs, fr: NONE, "global option (working directory)")

        def setup(ex, seeds=seeds):
            st = ex.st
            h = ex.hold = {k: VOpaque("xr", None, {"label": k, "truthy": True}) for k in ("fitness_function", "algorithm", "parameters", "target_data_path", "readout", "weights")}
            st.assume(z3.And(z3.Int("num_islands") >= -3, z3.Int("num_evolutions") >= 0))
            kw = {"target_data_path": h["target_data_path"], "fitness_function": h["fitness_function"], "algorithm": h["algorithm"], "parameters": h["parameters"], "readout": h["readout"],
                  "num_islands": VInt(z3.Int("num_islands")), "num_evolutions": VInt(z3.Int("num_evolutions")), "num_best_decisions": VInt(z3.Int("num_best")), "topology": VStr("ring"),
                  "weights": h["weights"], "result_fit_range": NONE, "target_fit_range": VTuple([VInt(0), VInt(2), VInt(0), VInt(3)])}
            if seeds == "given":
                kw["pygmo_seed"] = VInt(z3.Int("pygmo_seed"))
                kw["pipeline_seed"] = VInt(z3.Int("pipeline_seed"))
            else:
                kw["pygmo_seed"], kw["pipeline_seed"] = NONE, NONE
            me = st.alloc(HObj(cci, {}))
            ex.me = me
            return [me], kw
        ps = u.paths(fi, setup, cfg, label=f"Calibration.__init__[seeds {seeds}]")
        pyg, pipe, isl = z3.Int("pygmo_seed"), z3.Int("pipeline_seed"), z3.Int("num_islands")
        for p in ps:
            f = p.st.cell(p.ex.me).fields
            if p.kind != "return":
                bad = z3.Or(isl < 1, pyg < 0, pyg > 100000) if seeds == "given" else (isl < 1)
                u.oblige(p, f"calibration.ctor.refuses_only_bad_settings[{seeds}]", bad, {"exc": p.exc_name(), "pygmo_seed": pyg, "num_islands": isl}, CTOR_REPLAY)
                continue
            def num(v):
                return z_int(v.v) if isinstance(v, VInt) else None
            if seeds == "given":
                got_pyg, got_pipe = num(f.get("_pygmo_seed")), num(f.get("_pipeline_seed"))
                u.oblige(p, "calibration.ctor.keeps_the_optimiser_seed", z3.And(got_pyg == pyg, pyg >= 0, pyg <= 100000) if got_pyg is not None else z3.BoolVal(False), {"pygmo_seed": pyg}, CTOR_REPLAY)
                u.oblige(p, "calibration.ctor.keeps_the_pipeline_seed", (got_pipe == pipe) if got_pipe is not None else z3.BoolVal(False), {"pipeline_seed": pipe}, CTOR_REPLAY)
            else:
                u.oblige(p, "calibration.ctor.no_pipeline_seed_stays_none", isinstance(f.get("_pipeline_seed"), VNone), {}, CTOR_REPLAY)
            h = p.ex.hold
            same = (num(f.get("_num_islands")) is not None and f.get("_fitness_function") is h["fitness_function"] and f.get("_algorithm") is h["algorithm"] and f.get("_parameters") is h["parameters"]
                    and f.get("readout") is h["readout"] and f.get("_weights") is h["weights"] and isinstance(f.get("_topology"), VStr) and f["_topology"].v == "ring")
            u.oblige(p, f"calibration.ctor.keeps_the_given_settings[{seeds}]",
                     z3.And(zb(bool(same)), num(f["_num_islands"]) == isl, num(f["_num_evolutions"]) == z3.Int("num_evolutions"), num(f["_num_best_decisions"]) == z3.Int("num_best"), isl >= 1) if same else z3.BoolVal(False),
                     {}, CTOR_REPLAY)
            tfr, rfr = f.get("_target_fit_range"), f.get("_result_fit_range")
            okr = isinstance(tfr, VTuple) and [getattr(x, "v", None) for x in tfr.items] == [0, 2, 0, 3] and p.ex.try_list(rfr) == []
            u.oblige(p, f"calibration.ctor.fit_ranges_kept_or_empty[{seeds}]", bool(okr), {}, CTOR_REPLAY)
        u.cover(f"calibration.ctor.cover[{seeds}]", ps, lambda p: p.kind == "return")



# ---- Calibration.run_calibration in a HISTORY: an earlier run, the declarations changed through the public setters, the run under check ----
RUNCAL_REPLAY = lambda w: {"code": """
import numpy as np, tempfile, pathlib, verif_probes as VP
import pyxel.calibration.calibration as CM
from pyxel.calibration import Calibration, Algorithm
from pyxel.observation import ParameterValues
from pyxel.pipelines import DetectionPipeline, ModelFunction, Processor
from pyxel.exposure import Readout
d = pathlib.Path(tempfile.mkdtemp())
np.save(d / 't.npy', np.full((3, 4), 5.0))
seen = []
class Spy(CM.ArchipelagoDataTree):
    def __init__(self, *a, problem=None, **k):
        seen.append(problem)
        raise RuntimeError('stop here')                 # the problem handed to the archipelago is what is inspected
CM.ArchipelagoDataTree = Spy
pipe = DetectionPipeline(photon_collection=[ModelFunction(func='verif_probes.set_image', name='img', arguments={'level': 0.0, 'gain': 1.0})])
proc = Processor(detector=VP.detector(), pipeline=pipe)
first = [ParameterValues(key='pipeline.photon_collection.img.arguments.level', values='_', boundaries=(0.0, 100.0))]
second = [ParameterValues(key='pipeline.photon_collection.img.arguments.gain', values='_', logarithmic=True, boundaries=(1.0, 10.0)),
          ParameterValues(key='pipeline.photon_collection.img.arguments.level', values='_', boundaries=(-5.0, 5.0))]
cal = Calibration(target_data_path=[str(d / 't.npy')], fitness_function=__import__('pyxel.pipelines', fromlist=['FitnessFunction']).FitnessFunction(func='pyxel.calibration.fitness.sum_of_abs_residuals'),
                  algorithm=Algorithm(type='sade', generations=1, population_size=4), parameters=first, readout=Readout(), result_type='image', num_islands=1, num_evolutions=1, pygmo_seed=1, pipeline_seed=1,
                  target_fit_range=(0, 3, 0, 4), result_fit_range=(0, 3, 0, 4))
VIOLATED, DETAIL = False, 'every run optimises the problem of the declarations in force when it starts'
for params in (first, second, first):
    cal.parameters = params
    try:
        cal.run_calibration(processor=proc, output_dir=None, with_inherited_coords=True, with_progress_bar=False)
    except RuntimeError:
        pass
    prob = seen[-1]
    lo, hi = prob.get_bounds()
    want_lo = [(np.log10(p.boundaries[0]) if p.logarithmic else p.boundaries[0]) for p in params]
    if len(lo) != len(params) or not np.allclose(lo, want_lo) or [v.key for v in prob._variables] != [p.key for p in params]:
        VIOLATED, DETAIL = True, f'declared {[p.key.split(".")[-1] for p in params]} with lower bounds {want_lo}: the problem handed to the optimiser has {[v.key.split(".")[-1] for v in prob._variables]} with lower bounds {list(lo)}'; break
""", "expect": "run_calibration builds the fitting problem from the current declarations on every call"}


def run_calibration_history_unit(u: Unit):
    """Calibration.run_calibration after an EARLIER run_calibration of the same object with the same processor, the parameter declarations
    having been replaced in between through the public setter: the problem the archipelago receives is a ModelFittingDataTree constructed
    in THIS call from the declarations, readout, result type, fitness function, ranges, weights and seeds in force NOW (nothing kept from
    the earlier call). Constructors of the problem / archipelago and the evolution are callee contracts that record what they receive."""
    fi = u.fn(f"{CAL}::Calibration.run_calibration")
    cci = u.cls(f"{CAL}::Calibration")
    u.fn(f"{CAL}::Calibration.__init__")
    cfg = Cfg("real")
    boundary.install(cfg, prefixes=("xarray.", "dask.", "tqdm.", "pandas.", "pygmo.", "numpy.random."))
    cfg.contracts[f"{CAL}::to_path_list"] = Contract(f"{CAL}::to_path_list", lambda ex, args, kwargs, fr: VOpaque("xr", None, {"label": "paths", "args": list(args), "truthy": True}), "paths resolved (C20 loaders)")
    cfg.contracts["pyxel/pipelines/processor.py::get_result_id"] = Contract("pyxel/pipelines/processor.py::get_result_id", lambda ex, args, kwargs, fr: VOpaque("xr", None, {"label": "result_id", "args": list(args)}), "result id")
    cfg.lib_overrides["repo:pyxel.set_options"] = lambda ex, f, args, kwargs, fr: NONE
    for q in ("pyxel/options.py::set_options", "pyxel/__init__.py::set_options"):
        cfg.contracts[q] = Contract(q, lambda ex, args, kwargs, fr: NONE, "global option (working directory)")
    rec = {}

    def ctor(kind):
        def apply(ex, args, kwargs, fr):
            me = args[0]
            ex.st.cell(me).fields["sim_output"] = VStr("image")
            rec.setdefault(kind, []).append((me, dict(kwargs), len(rec.get("marks", []))))
            return NONE
        return apply
    cfg.contracts[f"{FD}::ModelFittingDataTree.__init__"] = Contract(f"{FD}::ModelFittingDataTree.__init__", ctor("problem"), "C10 / C11 units init, bounds.layout")
    cfg.contracts[f"{AD}::ArchipelagoDataTree.__init__"] = Contract(f"{AD}::ArchipelagoDataTree.__init__", ctor("archipelago"), "calib.archipelago_ctor")
    cfg.contracts[f"{AD}::ArchipelagoDataTree.run_evolve"] = Contract(f"{AD}::ArchipelagoDataTree.run_evolve", lambda ex, args, kwargs, fr: VOpaque("xr", ex.st.fresh_int("tree"), {"label": "result"}), "run_evolve")
    for q in ("pyxel/calibration/util.py::to_fit_range", "pyxel/calibration/util.py::FitRange3D.from_sequence"):
        cfg.contracts[q] = Contract(q, lambda ex, args, kwargs, fr, q=q: VOpaque("xr", ex.st.fresh_int("range"), {"label": q.split("::")[1], "args": list(args)}), "C11.ranges.from_sequence")
    for q in ("pyxel/calibration/user_defined.py::DaskIsland.__init__", "pyxel/calibration/user_defined.py::DaskBFE.__init__"):
        try:
            u.world.function(q)
            cfg.contracts[q] = Contract(q, lambda ex, args, kwargs, fr: NONE, "helper objects")
        except Exception:
            pass

    def setup(ex):
        rec.clear()
        st = ex.st
        o = lambda l: VOpaque("xr", None, {"label": l, "truthy": True})
        h = ex.hold = {k: o(k) for k in ("fitness_function", "algorithm", "parameters", "new_parameters", "target_data_path", "readout", "weights", "processor")}
        fr0 = Frame(None, cci.module)
        cal = ex.instantiate(cci, [], {"target_data_path": h["target_data_path"], "fitness_function": h["fitness_function"], "algorithm": h["algorithm"], "parameters": h["parameters"],
                                        "readout": h["readout"], "num_islands": VInt(2), "num_evolutions": VInt(2), "num_best_decisions": VInt(0), "topology": VStr("ring"), "weights": h["weights"],
                                        "result_fit_range": NONE, "target_fit_range": VTuple([VInt(0), VInt(2), VInt(0), VInt(3)]), "pygmo_seed": VInt(5), "pipeline_seed": VInt(7)}, fr0)
        ex.me = cal
        kw = {"processor": h["processor"], "output_dir": NONE, "with_inherited_coords": VBool(True), "with_progress_bar": VBool(False)}
        h["failed"] = None
        try:
            ex.call(ex.getattr(cal, "run_calibration", fr0), [], dict(kw), fr0)          # the earlier run
            rec.setdefault("marks", []).append("declarations replaced")
            ex.setattr(cal, "parameters", h["new_parameters"], fr0)                       # through the public setter
        except PyExc as pe:
            h["failed"] = ex.exc_class_name(pe.val)
        return [cal], kw
    ps = u.paths(fi, setup, cfg, label="Calibration.run_calibration[after an earlier run and new declarations]")
    for p in ps:
        h = p.ex.hold
        if p.kind != "return" or h["failed"]:
            u.oblige(p, "run_calibration.history.no_raise", False, {"exc": p.exc_name() or h["failed"]}, RUNCAL_REPLAY)
            continue
        arch, probs = rec.get("archipelago", []), rec.get("problem", [])
        ok = len(arch) == 2 and len(probs) >= 1
        last_prob = arch[-1][1].get("problem") if ok else None
        mine = [q for q in probs if isinstance(last_prob, VRef) and q[0].addr == last_prob.addr] if ok else []
        u.oblige(p, "run_calibration.history.problem_built_in_this_call", bool(ok and len(mine) == 1 and mine[0][2] == 1), {"problems constructed": len(probs), "archipelagos": len(arch)}, RUNCAL_REPLAY)
        if not (ok and len(mine) == 1):
            continue
        kw = mine[0][1]
        f = p.st.cell(p.ex.me).fields
        same = (kw.get("variables") is h["new_parameters"] and kw.get("processor") is h["processor"] and kw.get("readout") is h["readout"] and kw.get("fitness_func") is h["fitness_function"]
                and kw.get("weights") is h["weights"] and kw.get("target_filenames") is f.get("_target_data_path", f.get("target_data_path")))
        u.oblige(p, "run_calibration.history.problem_from_the_current_declarations", bool(same), {"variables": str(kw.get("variables"))}, RUNCAL_REPLAY)
    u.cover("run_calibration.history.cover", ps, lambda p: p.kind == "return")


BUILD_REPLAY = lambda w: {"code": """
import sys, types
import numpy as np
LOG = []
class _Island:
    def __init__(self, **kw): self.kw = kw
class _Archi:
    def __init__(self): self.items = []
    def push_back(self, isl): self.items.append(isl)
fake = types.ModuleType('pygmo'); fake.island = lambda **kw: _Island(**kw)
real = sys.modules.get('pygmo'); sys.modules['pygmo'] = fake
from pyxel.calibration.archipelago_datatree import ArchipelagoDataTree
VIOLATED, DETAIL = False, 'island seeds are the first num_islands draws of default_rng(pygmo_seed), one per island in order; no seed -> none; 0 is a seed'
try:
    for seed in (0, 1, 7, 100000, None):
        for parallel in (False, True):
            for n in (1, 3):
                a = ArchipelagoDataTree.__new__(ArchipelagoDataTree)
                a.pygmo_seed, a.num_islands, a.parallel, a.with_bar = seed, n, parallel, False
                a.udi, a._pygmo_algo, a._pygmo_prob, a.bfe, a.pop_size = 'udi', 'algo', 'prob', 'bfe', 5
                a._pygmo_archi = _Archi()
                a._build()
                got = [i.kw.get('seed') for i in a._pygmo_archi.items]
                if seed is None:
                    want = [None] * n
                else:
                    r = np.random.default_rng(seed=seed); want = [int(r.integers(0, np.iinfo(np.uint32).max)) for _ in range(n)]
                if got != want or any(i.kw.get('udi') != 'udi' or i.kw.get('algo') != 'algo' or i.kw.get('prob') != 'prob' or i.kw.get('size') != 5 for i in a._pygmo_archi.items):
                    VIOLATED, DETAIL = True, f'pygmo_seed={seed!r} islands={n} parallel={parallel}: island seeds {got}, expected {want}'
                    raise StopIteration
except StopIteration:
    pass
finally:
    if real is not None: sys.modules['pygmo'] = real
    else: sys.modules.pop('pygmo', None)
""", "expect": "island seeds = draws of default_rng(pygmo_seed) in island order (0 is a seed), same with and without threads"}


def build_unit(u: Unit, n_islands=(1, 3)):
    """ArchipelagoDataTree._build executed with the optimiser library at the boundary: for EVERY optimiser seed (0 included) island k is
    created with the k-th draw of ONE generator default_rng(seed=pygmo_seed) (so the seeds are a function of pygmo_seed and the island
    position alone); without a seed every island is unseeded; the islands are pushed back once each in creation order, with the
    archipelago's own udi / algorithm / problem / bfe / population size, with and without threads. Island count: concrete 1 and 3
    (the list comprehension is unrolled; BOUNDED in the island count, unbounded in the seed)."""
    fi = u.fn(f"{AD}::ArchipelagoDataTree._build")
    aci = u.cls(f"{AD}::ArchipelagoDataTree")
    for n in n_islands:
        for seeded in (True, False):
            cfg = Cfg("real")
            rec = u.track({"islands": [], "pushed": [], "rngs": [], "draws": []})

            def default_rng(ex, f, args, kwargs, fr, rec=rec):
                s = kwargs.get("seed", args[0] if args else NONE)
                r = VOpaque("rng", len(rec["rngs"]), {"seed": s})
                rec["rngs"].append(r)
                return r

            def rng_attr(ex, obj, name, fr):
                if name == "integers":
                    return VLib("rng.integers", obj)
                raise Unsupported(f"Generator.{name}")

            def integers(ex, f, args, kwargs, fr, rec=rec):
                g = f.self_val
                k = sum(1 for d in rec["draws"] if d[0] is g)
                v = VInt(ex.st.fresh_int(f"draw{g.t}_{k}"))
                rec["draws"].append((g, k, list(args), dict(kwargs), v))
                return v

            def island(ex, f, args, kwargs, fr, rec=rec):
                o = VOpaque("island", len(rec["islands"]), {"kw": dict(kwargs), "args": list(args)})
                rec["islands"].append(o)
                return o

            def archi_attr(ex, obj, name, fr):
                return VLib(f"archi.{name}", obj)

            def push_back(ex, f, args, kwargs, fr, rec=rec):
                rec["pushed"].append(args[0] if args else None)
                return NONE

            def executor(ex, f, args, kwargs, fr):
                return VOpaque("executor", None, {"kw": dict(kwargs)})

            def executor_attr(ex, obj, name, fr):
                if name == "map":
                    return VLib("executor.map", obj)
                raise Unsupported(f"executor.{name}")

            def executor_map(ex, f, args, kwargs, fr):
                # concurrent.futures.Executor.map: results in the order of the inputs (documented); the calls may run concurrently,
                # create_island reads self and writes nothing (checked below: no heap write between the map and the first push_back)
                return ex.st.alloc(HList([ex.call(args[0], [x], {}, fr) for x in ex.iterate(args[1], fr)]))

            def with_executor(ex, cm, item, body, fr):
                if item.optional_vars is not None:
                    ex.assign(item.optional_vars, cm, fr)
                return ex.exec_block(body, fr)
            cfg.lib_overrides.update({"numpy.random.default_rng": default_rng, ("opaque_attr", "rng"): rng_attr, "rng.integers": integers, "pygmo.island": island,
                                      ("opaque_attr", "archi"): archi_attr, "archi.push_back": push_back, "concurrent.futures.ThreadPoolExecutor": executor,
                                      "concurrent.futures.thread.ThreadPoolExecutor": executor, ("opaque_attr", "executor"): executor_attr, "executor.map": executor_map, ("with", "executor"): with_executor,
                                      "timeit.default_timer": lambda ex, f, args, kwargs, fr: VFloat(ex.st.fresh_real("timer")),
                                      "builtins.map": lambda ex, f, args, kwargs, fr: ex.st.alloc(HList([ex.call(args[0], [x], {}, fr) for x in ex.iterate(args[1], fr)]))})
            cfg.lib_prefix["tqdm."] = lambda ex, f, args, kwargs, fr: args[0]

            def setup(ex, n=n, seeded=seeded, rec=rec):
                st = ex.st
                rec.update(islands=[], pushed=[], rngs=[], draws=[])
                h = ex.hold = {k: VOpaque("xr", None, {"label": k, "truthy": True}) for k in ("udi", "_pygmo_algo", "_pygmo_prob", "bfe")}
                me = st.alloc(HObj(aci, dict(h, pop_size=VInt(z3.Int("pop_size")), pygmo_seed=VInt(z3.Int("pygmo_seed")) if seeded else NONE, num_islands=VInt(n),
                                             parallel=VBool(z3.Bool("parallel")), with_bar=VBool(z3.Bool("with_bar")), _pygmo_archi=VOpaque("archi", None, {}))))
                ex.me = me
                return [me], {}
            ps = u.paths(fi, setup, cfg, label=f"ArchipelagoDataTree._build[{n} islands, {'seeded' if seeded else 'no seed'}]")
            tag = f"[{n},{'seeded' if seeded else 'unseeded'}]"
            for p in ps:
                if p.kind != "return":
                    u.oblige(p, f"islands.build.completes{tag}", False, {"exc": p.exc_name(), "pygmo_seed": z3.Int("pygmo_seed")}, BUILD_REPLAY)
                    continue
                h = p.ex.hold
                isl = rec["islands"]
                ok = len(isl) == n and len(rec["pushed"]) == n and all(a is b for a, b in zip(rec["pushed"], isl))
                u.oblige(p, f"islands.build.one_island_per_position_in_order{tag}", bool(ok), {"created": len(isl), "pushed": len(rec["pushed"])}, BUILD_REPLAY)
                own = all(not i.info["args"] and i.info["kw"].get("udi") is h["udi"] and i.info["kw"].get("algo") is h["_pygmo_algo"] and i.info["kw"].get("prob") is h["_pygmo_prob"]
                          and i.info["kw"].get("b") is h["bfe"] and isinstance(i.info["kw"].get("size"), VInt) for i in isl)
                u.oblige(p, f"islands.build.own_settings{tag}", z3.And(zb(bool(own)), *[z_int(i.info["kw"]["size"].v) == z3.Int("pop_size") for i in isl]) if own else False, {}, BUILD_REPLAY)
                seeds = [i.info["kw"].get("seed") for i in isl]
                if not seeded:
                    u.oblige(p, f"islands.build.no_seed_no_island_seed{tag}", all(isinstance(s, VNone) for s in seeds) and not rec["draws"], {}, BUILD_REPLAY)
                    continue
                one = len(rec["rngs"]) == 1 and isinstance(rec["rngs"][0].info["seed"], VInt)
                draws = rec["draws"]
                shape = one and len(draws) == n and all(d[0] is rec["rngs"][0] and d[1] == k for k, d in enumerate(draws)) and all(isinstance(s, VInt) for s in seeds)
                if not shape:
                    u.oblige(p, f"islands.build.seeds_are_draws_of_one_generator{tag}", False,
                             {"pygmo_seed": z3.Int("pygmo_seed"), "generators": len(rec["rngs"]), "draws": len(draws), "island_seeds": " ".join(type(s).__name__ for s in seeds)}, BUILD_REPLAY)
                    continue
                rng_args = all(len(d[2]) == 2 and isinstance(d[2][0], VInt) and isinstance(d[2][1], VInt) and not d[3] for d in draws)
                u.oblige(p, f"islands.build.seeds_are_draws_of_one_generator{tag}",
                         z3.And(zb(rng_args), z_int(rec["rngs"][0].info["seed"].v) == z3.Int("pygmo_seed"), *[z_int(s.v) == z_int(d[4].v) for s, d in zip(seeds, draws)],
                                *([z3.And(z_int(d[2][0].v) == 0, z_int(d[2][1].v) == 4294967295) for d in draws] if rng_args else [])),
                         {"pygmo_seed": z3.Int("pygmo_seed")}, BUILD_REPLAY)
            u.cover(f"islands.build.cover{tag}", ps, lambda p: p.kind == "return")


# ---- the running-mode objects and the archipelago keep what they are given (seeds of 0 included) -------------------------------------------
MODE_CTOR_REPLAY = lambda w: {"code": """
import pyxel
from pyxel.exposure import Exposure, Readout
from pyxel.observation import Observation, ParameterValues
VIOLATED, DETAIL = False, 'Exposure / Observation keep the pipeline seed, readout, outputs and flags they are given'
r = Readout(times=[1.0, 2.0])
for seed in (0, 1, 12345, None):
    e = Exposure(readout=r, pipeline_seed=seed)
    o = Observation(parameters=[ParameterValues(key='a.b.c', values=[1, 2])], readout=r, pipeline_seed=seed, with_dask=False)
    o2 = Observation(parameters=[ParameterValues(key='a.b.c', values=[1, 2])], readout=r, pipeline_seed=seed, with_dask=True, mode='sequential')
    for obj in (e, o, o2):
        if obj.pipeline_seed != seed or type(obj.pipeline_seed) is not type(seed) or obj.readout is not r or obj.outputs is not None:
            VIOLATED, DETAIL = True, f'{type(obj).__name__}(pipeline_seed={seed!r}): seed {obj.pipeline_seed!r}, readout kept: {obj.readout is r}'; break
    if o.with_dask is not False or o2.with_dask is not True:
        VIOLATED, DETAIL = True, f'with_dask given False / True, kept {o.with_dask!r} / {o2.with_dask!r}'
    if VIOLATED: break
pyxel.set_options(working_directory=None)
""", "expect": "the running-mode objects return exactly the settings they were constructed with (seed 0 is a seed)"}


def mode_ctor_unit(u: Unit):
    """Exposure.__init__ and Observation.__init__: for EVERY pipeline seed (any integer, 0 included, or none) the `pipeline_seed` property
    returns the given value; the readout and outputs objects are the given ones (Observation: a default Readout only when none is given);
    `with_dask` is the given flag; the result type is get_result_id of the given text; the parameter mode is what build_parameter_mode
    returns for the given mode / parameters / file / column range (C05 mode.selection)."""
    EXQ, OBQ = "pyxel/exposure/exposure.py", "pyxel/observation/observation.py"
    for kind, q in (("Exposure", EXQ), ("Observation", OBQ)):
        fi = u.fn(f"{q}::{kind}.__init__")
        ci = u.cls(f"{q}::{kind}")
        for seed in ("given", "absent"):
            cfg = Cfg("real")
            boundary.install(cfg, prefixes=("xarray.", "dask.", "tqdm.", "pandas."))
            rec = u.track({})
            cfg.contracts["pyxel/pipelines/processor.py::get_result_id"] = Contract("pyxel/pipelines/processor.py::get_result_id", lambda ex, args, kwargs, fr: VOpaque("xr", None, {"label": "result_id", "args": list(args) + list(kwargs.values())}), "result id of the text")
            mq = "pyxel/observation/observation.py::build_parameter_mode"
            cfg.contracts[mq] = Contract(mq, lambda ex, args, kwargs, fr, rec=rec: (rec.update(mode_kw=dict(kwargs), mode_args=list(args)), VOpaque("xr", None, {"label": "parameter_mode", "truthy": True}))[1], "C05.mode.selection")
            cfg.lib_overrides["repo:pyxel.set_options"] = lambda ex, f, args, kwargs, fr, rec=rec: (rec.update(options=dict(kwargs)), NONE)[1]
            for sq in ("pyxel/options.py::set_options", "pyxel/__init__.py::set_options"):
                cfg.contracts[sq] = Contract(sq, lambda ex, args, kwargs, fr, rec=rec: (rec.update(options=dict(kwargs)), NONE)[1], "global option (working directory)")
            rq = "pyxel/exposure/readout.py::Readout.__init__"
            cfg.contracts[rq] = Contract(rq, lambda ex, args, kwargs, fr, rec=rec: (rec.update(default_readout=args[0]), NONE)[1], "C02.readout.ctor")

            def setup(ex, kind=kind, seed=seed, rec=rec):
                rec.clear()
                h = ex.hold = {k: VOpaque("xr", None, {"label": k, "truthy": True}) for k in ("readout", "outputs", "parameters")}
                kw = {"readout": h["readout"], "outputs": h["outputs"], "result_type": VStr(z3.String("result_type")),
                      "pipeline_seed": VInt(z3.Int("pipeline_seed")) if seed == "given" else NONE, "working_directory": NONE}
                if kind == "Observation":
                    kw.update(parameters=h["parameters"], mode=VStr(z3.String("mode")), from_file=NONE, column_range=NONE, with_dask=VBool(z3.Bool("with_dask")))
                me = ex.st.alloc(HObj(ci, {}))
                ex.me = me
                return [me], kw
            ps = u.paths(fi, setup, cfg, label=f"{kind}.__init__[seed {seed}]")
            for p in ps:
                if p.kind != "return":
                    u.oblige(p, f"mode.ctor[{kind}].accepts[{seed}]", False, {"exc": p.exc_name(), "pipeline_seed": z3.Int("pipeline_seed")}, MODE_CTOR_REPLAY)
                    continue
                fr0 = Frame(None, ci.module)
                try:
                    got = p.ex.getattr(p.ex.me, "pipeline_seed", fr0)
                except PyExc:
                    got = None
                if seed == "given":
                    u.oblige(p, f"mode.ctor[{kind}].keeps_the_pipeline_seed", (z_int(got.v) == z3.Int("pipeline_seed")) if isinstance(got, VInt) else z3.BoolVal(False), {"pipeline_seed": z3.Int("pipeline_seed")}, MODE_CTOR_REPLAY)
                else:
                    u.oblige(p, f"mode.ctor[{kind}].no_seed_stays_none", isinstance(got, VNone), {}, MODE_CTOR_REPLAY)
                f = p.st.cell(p.ex.me).fields
                h = p.ex.hold
                same = f.get("readout") is h["readout"] and f.get("outputs") is h["outputs"] and isinstance(f.get("working_directory"), VNone)
                rid = f.get("_result_type")
                same = same and isinstance(rid, VOpaque) and rid.info.get("label") == "result_id" and len(rid.info["args"]) == 1 and isinstance(rid.info["args"][0], VStr) \
                    and not is_conc(rid.info["args"][0].v) and z3.eq(rid.info["args"][0].v, z3.String("result_type"))
                goal = zb(bool(same))
                if kind == "Observation":
                    mk = rec.get("mode_kw", {})
                    wd = f.get("with_dask")
                    ok_mode = (mk.get("parameters") is h["parameters"] and isinstance(mk.get("mode"), VStr) and not is_conc(mk["mode"].v) and z3.eq(mk["mode"].v, z3.String("mode"))
                               and isinstance(mk.get("custom_filename"), VNone) and isinstance(mk.get("column_range"), VNone) and not rec.get("mode_args")
                               and isinstance(f.get("parameter_mode"), VOpaque) and f["parameter_mode"].info.get("label") == "parameter_mode")
                    goal = z3.And(goal, zb(bool(ok_mode)), (z_bool(wd.v) == z3.Bool("with_dask")) if isinstance(wd, VBool) else z3.BoolVal(False))
                u.oblige(p, f"mode.ctor[{kind}].keeps_the_given_settings[{seed}]", goal, {}, MODE_CTOR_REPLAY)
            u.cover(f"mode.ctor[{kind}].cover[{seed}]", ps, lambda p: p.kind == "return")


ARCHI_CTOR_REPLAY = lambda w: {"code": """
import sys, types
import numpy as np
class _Island:
    def __init__(self, **kw): self.kw = kw
class _Archi:
    def __init__(self, **kw): self.items = []
    def push_back(self, isl): self.items.append(isl)
class _Algo:
    def __init__(self, a): self.a = a
    def set_verbosity(self, v): pass
fake = types.ModuleType('pygmo'); fake.island = lambda **kw: _Island(**kw); fake.archipelago = _Archi; fake.algorithm = _Algo; fake.problem = lambda p: ('problem', p)
real = sys.modules.get('pygmo'); sys.modules['pygmo'] = fake
from pyxel.calibration.archipelago_datatree import ArchipelagoDataTree
class Alg:
    population_size = 10
    def get_algorithm(self): return 'algo'
VIOLATED, DETAIL = False, 'the archipelago keeps the settings it is given; the island seeds are the draws of default_rng(pygmo_seed), 0 is a seed'
try:
    for seed in (0, 3, None):
        for parallel in (False, True):
            a = ArchipelagoDataTree(num_islands=3, udi='udi', algorithm=Alg(), problem='prob', pop_size=5, bfe='bfe', topology='topo', pygmo_seed=seed, parallel=parallel, with_bar=False)
            got = [i.kw.get('seed') for i in a._pygmo_archi.items]
            if seed is None:
                want = [None] * 3
            else:
                r = np.random.default_rng(seed=seed); want = [int(r.integers(0, np.iinfo(np.uint32).max)) for _ in range(3)]
            if (a.pygmo_seed, a.num_islands, a.pop_size, a.parallel, a.with_bar, a.udi, a.bfe, a.topology) != (seed, 3, 5, parallel, False, 'udi', 'bfe', 'topo') or got != want:
                VIOLATED, DETAIL = True, f'ArchipelagoDataTree(pygmo_seed={seed!r}, parallel={parallel}): keeps seed {a.pygmo_seed!r}; island seeds {got}, expected {want}'
                raise StopIteration
except StopIteration:
    pass
finally:
    if real is not None: sys.modules['pygmo'] = real
    else: sys.modules.pop('pygmo', None)
""", "expect": "ArchipelagoDataTree(...) keeps its settings and seeds its islands from pygmo_seed (0 included)"}


def archipelago_ctor_unit(u: Unit):
    """ArchipelagoDataTree.__init__: the object keeps the number of islands, island type, algorithm, problem, population size, bfe,
    topology, optimiser seed (ANY integer, 0 included, or none), parallel and progress-bar flags it is given, before it builds the
    islands (`_build` is the contract of unit islands.build, which reads exactly these fields)."""
    fi = u.fn(f"{AD}::ArchipelagoDataTree.__init__")
    aci = u.cls(f"{AD}::ArchipelagoDataTree")
    for seed in ("given", "absent"):
        cfg = Cfg("real")
        boundary.install(cfg, prefixes=("xarray.", "dask.", "tqdm.", "pandas.", "pygmo."))
        rec = u.track({})

        def build(ex, args, kwargs, fr, rec=rec):
            rec["at_build"] = dict(ex.st.cell(args[0]).fields)
            return NONE
        cfg.contracts[f"{AD}::ArchipelagoDataTree._build"] = Contract(f"{AD}::ArchipelagoDataTree._build", build, "islands.build")

        def setup(ex, seed=seed, rec=rec):
            rec.clear()
            algo = ex.st.alloc(HObj("algo", {"population_size": VInt(z3.Int("population_size")), "get_algorithm": VOpaque("xr", None, {"label": "get_algorithm", "truthy": True})}))
            h = ex.hold = {k: VOpaque("xr", None, {"label": k, "truthy": True}) for k in ("udi", "problem", "bfe", "topology")}
            h["algorithm"] = algo
            ex.st.assume(z3.Int("population_size") >= 1)
            kw = dict(h, num_islands=VInt(z3.Int("num_islands")), pop_size=VInt(z3.Int("pop_size")), pygmo_seed=VInt(z3.Int("pygmo_seed")) if seed == "given" else NONE,
                      parallel=VBool(z3.Bool("parallel")), with_bar=VBool(z3.Bool("with_bar")))
            me = ex.st.alloc(HObj(aci, {}))
            ex.me = me
            return [me], kw
        ps = u.paths(fi, setup, cfg, label=f"ArchipelagoDataTree.__init__[seed {seed}]")
        for p in ps:
            if p.kind != "return" or "at_build" not in rec:
                u.oblige(p, f"archipelago.ctor.builds[{seed}]", False, {"exc": p.exc_name(), "pygmo_seed": z3.Int("pygmo_seed")}, ARCHI_CTOR_REPLAY)
                continue
            f, h = rec["at_build"], p.ex.hold
            ident = all(f.get(k) is h[k] for k in ("udi", "problem", "bfe", "topology")) and isinstance(f.get("algorithm"), VRef) and f["algorithm"].addr == h["algorithm"].addr
            num = lambda k: z_int(f[k].v) if isinstance(f.get(k), VInt) else None
            nums = num("num_islands") is not None and num("pop_size") is not None and isinstance(f.get("parallel"), VBool) and isinstance(f.get("with_bar"), VBool)
            goal = z3.And(zb(bool(ident)), num("num_islands") == z3.Int("num_islands"), num("pop_size") == z3.Int("pop_size"), z_bool(f["parallel"].v) == z3.Bool("parallel"),
                          z_bool(f["with_bar"].v) == z3.Bool("with_bar")) if ident and nums else z3.BoolVal(False)
            u.oblige(p, f"archipelago.ctor.keeps_the_given_settings[{seed}]", goal, {}, ARCHI_CTOR_REPLAY)
            if seed == "given":
                u.oblige(p, "archipelago.ctor.keeps_the_optimiser_seed", (num("pygmo_seed") == z3.Int("pygmo_seed")) if num("pygmo_seed") is not None else z3.BoolVal(False), {"pygmo_seed": z3.Int("pygmo_seed")}, ARCHI_CTOR_REPLAY)
            else:
                u.oblige(p, "archipelago.ctor.no_seed_stays_none", isinstance(f.get("pygmo_seed"), VNone), {}, ARCHI_CTOR_REPLAY)
        u.cover(f"archipelago.ctor.cover[{seed}]", ps, lambda p: p.kind == "return")


# ---- the tree _apply_parameters returns has the nodes extract_data_3d reads ---------------------------------------------------------------
LAYOUT_REPLAY = lambda w: {"code": """
import numpy as np, pandas as pd, warnings, verif_probes as VP
from pyxel.calibration.fitting_datatree import ModelFittingDataTree
import pyxel.calibration.archipelago_datatree as AD
from pyxel.exposure import Readout
from pyxel.pipelines import DetectionPipeline, ModelFunction, Processor
warnings.simplefilter('ignore')
class P(ModelFittingDataTree):
    def __init__(self):
        self._variables = []; self.readout = Readout(times=[1.0]); self.pipeline_seed = None
proc = Processor(detector=VP.detector(rows=2, cols=3), pipeline=DetectionPipeline(photon_collection=[ModelFunction(func='verif_probes.writer', name='w',
                 arguments={'photon': 3.0, 'pixel_add': 5.0, 'signal': 0.5, 'image': 7})]))
tree = P()._apply_parameters(processor=proc, parameter=np.array([]))
VIOLATED, DETAIL = False, 'the simulated data returned for the champions can be evaluated and holds the re-simulated buckets'
try:
    df = pd.DataFrame([{'island': 0, 'id_processor': 0, 'data_tree': tree}])
    ds = AD.extract_data_3d(df_results=df, rows=2, cols=3, times=1, readout_times=np.array([1.0])).compute()
    got = {b: float(np.asarray(ds['simulated_' + b].values).ravel()[0]) for b in ('photon', 'pixel', 'signal', 'image')}
    if got != {'photon': 3.0, 'pixel': 5.0, 'signal': 0.5, 'image': 7.0}:
        VIOLATED, DETAIL = True, f'simulated data of the re-simulation: {got}'
except Exception as e:
    VIOLATED, DETAIL = True, f'the simulated data cannot be evaluated: {type(e).__name__}: {e} (result tree of _apply_parameters has the groups {list(tree.groups)})'
""", "expect": "extract_data_3d can read every bucket from the tree that _apply_parameters returns"}


def layout_unit(u: Unit):
    """ModelFittingDataTree._apply_parameters followed by extract_data_3d: the exposure of the re-simulation is run with a layout flag
    F (`with_inherited_coords`); with F the five buckets are the nodes bucket/<name> of the result tree, without it <name> (C03 layout
    obligations). Every node extract_data_3d reads from the tree of a row must be one of them, else the simulated data that the
    calibration returns cannot be evaluated."""
    fa = u.fn(f"{FD}::ModelFittingDataTree._apply_parameters")
    fx = u.fn(f"{AD}::extract_data_3d")
    pci = u.cls(f"{FD}::ModelFittingDataTree")
    cfg = Cfg("real")
    boundary.install(cfg, prefixes=("xarray.", "dask.", "tqdm.", "pandas."))
    rec = u.track({})
    rq = "pyxel/exposure/exposure.py::run_pipeline"
    cfg.contracts[rq] = Contract(rq, lambda ex, args, kwargs, fr, rec=rec: (rec.update(run_kw=dict(kwargs)), VOpaque("xr", None, {"label": "result_tree"}))[1], "C02/C03: one exposure, result tree in the requested layout")
    uq = f"{FD}::ModelFittingDataTree.update_processor"
    cfg.contracts[uq] = Contract(uq, lambda ex, args, kwargs, fr: VOpaque("xr", None, {"label": "new_processor"}), "C10.update.*")

    def setup(ex, rec=rec):
        rec.clear()
        me = ex.st.alloc(HObj(pci, {"readout": VOpaque("xr", None, {"label": "readout"}), "pipeline_seed": VInt(z3.Int("pipeline_seed")), "_with_inherited_coords": VBool(z3.Bool("inherited"))}))
        return [me], {"processor": VOpaque("xr", None, {"label": "processor"}), "parameter": VOpaque("xr", None, {"label": "parameter"})}
    ps = u.paths(fa, setup, cfg, label="_apply_parameters")
    flags = []
    for p in ps:
        if p.kind != "return":
            u.oblige(p, "resimulation.layout.apply_returns", False, {"exc": p.exc_name()}, LAYOUT_REPLAY)
            continue
        f = rec.get("run_kw", {}).get("with_inherited_coords")
        flags.append((p, f))
    # the nodes extract_data_3d reads
    rec2 = {}
    cfg2 = _groupby_cfg(u, rec2, 2, n_rows=1)
    cfg2.lib_overrides[("isinstance", "xr")] = lambda ex, v, libs, clss: VBool(True)
    ps2 = u.paths(fx, lambda ex: ([], {"df_results": VOpaque("xr", None, {"label": "df_results"}), "rows": VInt(z3.Int("rows")), "cols": VInt(z3.Int("cols")), "times": VInt(z3.Int("times")),
                                       "readout_times": VOpaque("xr", None, {"label": "readout_times"})}), cfg2, label="extract_data_3d[one row]")
    keys = set()
    for p in ps2:
        if p.kind != "return":
            continue
        for e in p.st.events:
            if e[0] == "lib_call" and e[1] == "dask.array.from_delayed" and e[2]:
                t = term(p.ex, e[2][0])
                m = re.search(r"\['data_tree'\]((?:\['[^']+'\])+)", t)
                if m:
                    keys.add("/".join(re.findall(r"\['([^']+)'\]", m.group(1))).strip("/"))
    if not flags or not keys:
        u.undecide("resimulation.layout.result_nodes_exist", fa.qualname, f"could not determine the layout flag ({len(flags)} paths) or the nodes read ({sorted(keys)})")
        return
    buckets = ("photon", "charge", "pixel", "signal", "image")
    for p, f in flags:
        if not isinstance(f, VBool):
            u.undecide("resimulation.layout.result_nodes_exist", fa.qualname, f"layout flag of the re-simulation: {f!r}")
            continue
        hier = z_bool(f.v)
        goal = z3.And(*[z3.If(hier, zb(k.startswith("bucket/") and k.split("/", 1)[1] in buckets), zb(k in buckets)) for k in sorted(keys)])
        u.oblige(p, "resimulation.layout.result_nodes_exist", goal, {"nodes read by extract_data_3d": str(sorted(keys)), "layout flag of the re-simulation": str(f.v)}, LAYOUT_REPLAY)
    u.cover("resimulation.layout.cover", ps, lambda p: p.kind == "return")
