"""C03 — the returned result is a faithful, complete record of every step.

xarray is a BOUNDARY (DESIGN 3.2): its merge / concatenation algebra is assumed. What is proved is the pyxel side of the
boundary — what reaches xarray, from which object, under which label — as call-argument obligations on recorded events:
  to_xarray.values_coords[c]  each container hands xarray a copy of ITS array (pointwise equal at an arbitrary pixel), dims
                              (y, x), coordinates range(rows) / range(cols); an empty container yields the 0-d placeholder
  extract.all_buckets         _extract_datatree_2d stores exactly photon, charge, pixel, signal, image, each from the
                              detector's own container
  extract.time_label          the step's dataset is labelled [detector.absolute_time] (= start + t_i) on dimension "time"
  merge.each_step_once        in a generic step of the exposure loop the step's tree is merged exactly once (first step: taken)
  image.dtype_restored        after a merge the image variable is cast back to detector.image.dtype when they differ
  scene_data.passthrough / layout   "/scene" and "/data" are the detector's own objects; the same bucket tree goes under
                              "/bucket" (hierarchical) or "/" (flat)
"""
from __future__ import annotations

import ast

from pyvc import arrays
from .common import *  # noqa: F401,F403
from . import boundary, detmodel as D, C02

EX = "pyxel/exposure/exposure.py"
DS = D.DS
LEVEL = "other"
BOUNDED = {
    r'array\.current': 'histories read / edit / read of one cluster table (symbolic content and size)',
}      # unit-name / obligation-name patterns -> the family these obligations are proved for
TRUSTED = ["xarray: expand_dims / assign_coords / merge / map_over_datasets / DataTree.from_dict preserve values and concatenate along 'time' in coordinate order; merging promotes "
           "integer images to float when steps are outer-joined (ASSUMED: this is most of the property, hence level 'other')",
           "debug capture (ModelGroup.run) is an abstract block with frame detector._intermediate (C01)", "3-D (multi-wavelength) photon export is a boundary"]
G = D.GEN

REC_REPLAY = lambda w: {"code": """
import numpy as np, verif_probes as VP
from pyxel.pipelines import DetectionPipeline, ModelFunction, Processor
from pyxel.exposure import Readout, run_pipeline
VIOLATED, DETAIL = False, ''
# narrow: the float buckets are written in single precision from that step on; dark: steps in which no charge is generated (destructive readout: the bucket is all zero there)
for wic, narrow, dark in ((False, None, None), (True, None, None), (False, 2, None), (True, 1, None), (False, None, [1]), (True, None, [0, 2])):
    VP.LOG.clear()
    det = VP.detector()
    pipe = DetectionPipeline(photon_collection=[ModelFunction(func='verif_probes.stamp', name='stamp', arguments={'narrow_from': narrow, 'dark_steps': dark})])
    times, start = [1.0, 2.5, 4.0], 0.5
    r = run_pipeline(processor=Processor(detector=det, pipeline=pipe), readout=Readout(times=times, start_time=start, non_destructive=dark is None), outputs=None, debug=False, with_inherited_coords=wic)
    node = r['/bucket'] if wic else r
    for name in ('photon', 'pixel', 'signal', 'image', 'charge'):
        da = node[name]
        if list(da['time'].values) != [start + t for t in times] or da.shape != (3, 3, 4):
            VIOLATED, DETAIL = True, f'{name}: time labels {list(da["time"].values)} shape {da.shape}'; break
        for i in range(3):
            exp = VP.STAMPS[i][name]
            if not np.array_equal(np.asarray(da.isel(time=i), dtype=np.float64), np.asarray(exp, dtype=np.float64)) or (name == 'image' and da.dtype != exp.dtype):
                VIOLATED, DETAIL = True, f'{name} slice {i} (steps without charge: {dark}): {np.asarray(da.isel(time=i)).ravel()[:3]} dtype {da.dtype}, detector held {exp.ravel()[:3]} dtype {exp.dtype}'; break
        if VIOLATED: break
        if list(da['y'].values) != [0, 1, 2] or list(da['x'].values) != [0, 1, 2, 3]:
            VIOLATED, DETAIL = True, f'{name}: row/column labels {list(da["y"].values)} {list(da["x"].values)}'; break
    if VIOLATED: break
""", "expect": "one slice per readout per bucket, equal to the detector's content at the end of that step, labelled start + t_i"}


def data_array_events(p):
    return [e for e in p.st.events if e[0] == "lib_call" and e[1] == "xarray.DataArray"]


@unit("C03", "to_xarray")
def to_xarray(u: Unit):
    cfg = D.install(Cfg("real"))
    cfg.contracts["pyxel/util/misc.py::convert_unit"] = Contract("pyxel/util/misc.py::convert_unit", lambda ex, args, kwargs, fr: VStr("unit"), "unit text (astropy)")
    table = [("pixel", "pyxel/data_structure/array.py::ArrayBase.to_xarray"), ("signal", "pyxel/data_structure/array.py::ArrayBase.to_xarray"),
             ("image", "pyxel/data_structure/array.py::ArrayBase.to_xarray"), ("photon", DS + "photon.py::Photon.to_xarray"), ("charge", DS + "charge.py::Charge.to_xarray")]
    for bucket, qual in table:
        fi = u.fn(qual)

        def setup(ex, bucket=bucket):
            D.mk_detector(ex, u)
            if bucket == "charge":
                ex.st.cell(ex.det_parts["charge"]).fields["_frame"] = D.df_obj(ex, z3.IntVal(0))
            ex.own = ex.st.cell(ex.det_parts[bucket]).fields["_array"]
            return [ex.det_parts[bucket]], {}
        ps = u.paths(fi, setup, cfg, label=f"{bucket}.to_xarray")
        n_full = 0
        for p in ps:
            if p.kind != "return":
                u.oblige(p, f"to_xarray.no_raise[{bucket}]", False, {"exc": p.exc_name()}, REC_REPLAY)
                continue
            evs = data_array_events(p)
            empty = D.is_empty_bucket(p.st, p.ex.det_parts[bucket]) if bucket != "charge" else False
            if p.st.feasible(zb(empty)) and not p.st.feasible(zb(z_not(empty))):
                u.oblige(p, f"to_xarray.empty_placeholder[{bucket}]", bool(len(evs) == 1 and not evs[0][2] and not evs[0][3]), {}, REC_REPLAY)
                continue
            n_full += 1
            def dims_seq(e):          # dims given as a list or a tuple of names (a plain string is a coordinate array's single dimension)
                d_ = e[3].get("dims")
                return p.ex.try_list(d_) if d_ is not None and not isinstance(d_, VStr) else None
            main = [e for e in evs if dims_seq(e) is not None]
            ok = len(main) == 1 and len(main[0][2]) == 1 and p.ex.is_arr(main[0][2][0])
            if not ok:
                u.oblige(p, f"to_xarray.values_coords[{bucket}]", False, {}, REC_REPLAY)
                continue
            data, kw = main[0][2][0], main[0][3]
            dims = [x.v for x in p.ex.try_list(kw["dims"])]
            own = D.frame_elem(p.st, p.ex.own)
            got = to_real(p.st.cell(data).elem(G))
            coords = {k.v: v for k, v in p.st.cell(kw["coords"]).items} if isinstance(kw.get("coords"), VRef) else {}

            def coord_range(v):
                a = v.info.get("args") or []
                return a[0] if a and isinstance(a[0], VRange) else None
            ry, rx = coord_range(coords.get("y")) if "y" in coords else None, coord_range(coords.get("x")) if "x" in coords else None
            ok_coords = ry is not None and rx is not None
            goal = z3.And(got == own, zb(dims == ["y", "x"]), zb(ok_coords),
                          z3.And(z_int(int_of(ry.lo)) == 0, z_int(int_of(ry.hi)) == D.ROWS, z_int(int_of(rx.lo)) == 0, z_int(int_of(rx.hi)) == D.COLS) if ok_coords else z3.BoolVal(False),
                          zb(coords.get("y").info.get("kwargs", {}).get("dims").v == "y" and coords.get("x").info.get("kwargs", {}).get("dims").v == "x") if ok_coords else z3.BoolVal(False))
            u.oblige(p, f"to_xarray.values_coords[{bucket}]", goal, {}, REC_REPLAY)
        u.guard(f"to_xarray.cover[{bucket}]", n_full >= 1, fi.qualname, f"{n_full} paths exporting a non-empty container")


@unit("C03", "alias")
def alias(u: Unit):
    """A slice already handed to xarray must not change when the detector is used further. Lemma, per container c:
         copies[c]   to_xarray hands xarray a freshly allocated array (not reachable from the detector), or
         aliased[c]  it hands over c._array itself; then Detector.empty (run at the start of EVERY step, C02 run.entry.*,
                     before any model writes in place) must REBIND c._array to another cell and leave the old cell's
                     content untouched, for every value of `reset`.
       Which of the two holds is computed from the source on each run; nothing is assumed about it."""
    cfg = D.install(Cfg("real"))
    cfg.contracts["pyxel/util/misc.py::convert_unit"] = Contract("pyxel/util/misc.py::convert_unit", lambda ex, args, kwargs, fr: VStr("unit"), "unit text (astropy)")
    table = [("pixel", "pyxel/data_structure/array.py::ArrayBase.to_xarray"), ("signal", "pyxel/data_structure/array.py::ArrayBase.to_xarray"),
             ("image", "pyxel/data_structure/array.py::ArrayBase.to_xarray"), ("photon", DS + "photon.py::Photon.to_xarray"), ("charge", DS + "charge.py::Charge.to_xarray")]
    aliased = {}
    for bucket, qual in table:
        fi = u.fn(qual)
        mark = {}

        def setup(ex, bucket=bucket):
            D.mk_detector(ex, u)
            if bucket == "charge":
                ex.st.cell(ex.det_parts["charge"]).fields["_frame"] = D.df_obj(ex, z3.IntVal(0))
            ex.own = ex.st.cell(ex.det_parts[bucket]).fields["_array"]
            ex.heap_mark = max(ex.st.heap) + 1
            return [ex.det_parts[bucket]], {}
        for p in u.paths(fi, setup, cfg, label=f"{bucket}.to_xarray[alias]"):
            if p.kind != "return":
                continue
            own = p.ex.own.val if isinstance(p.ex.own, VMaybe) else p.ex.own
            for e in data_array_events(p):
                for a in list(e[2]) + list(e[3].values()):
                    if isinstance(a, VRef) and isinstance(p.st.heap.get(a.addr), HArr):
                        c = p.st.heap[a.addr]
                        base = c.tag[1] if (c.tag and c.tag[0] == "view") else a.addr
                        if isinstance(own, VRef) and base == own.addr:
                            aliased[bucket] = True
                        else:
                            u.oblige(p, f"alias.export_is_fresh[{bucket}]", bool(base >= p.ex.heap_mark), {}, REC_REPLAY)
    # The debug capture takes a snapshot after every MODEL, i.e. in the middle of a step, where no Detector.empty intervenes before the next
    # model writes in place (Charge.add_charge_array: `self._array += ...`): for the records of a step to keep "what the detector held after
    # that model", no container may hand out its live buffer at all
    for bucket, _ in table:
        u.static(f"alias.export_never_hands_out_the_live_buffer[{bucket}]", not aliased.get(bucket), dict(table)[bucket],
                 f"{bucket}.to_xarray: " + ("hands xarray the container's own array (a later in-place write changes every record made before)" if aliased.get(bucket) else "a fresh copy"),
                 replay=lambda w: DEBUGREC_REPLAY(w), witness={"bucket": bucket})
    fe = u.fn(f"{D.DET}::Detector.empty")
    u.assume_note("exported containers that alias their live buffer (computed this run): " + (", ".join(sorted(aliased)) or "none"))
    held = {}

    def setup_e(ex):
        det = D.mk_detector(ex, u)
        st = ex.st
        held.clear()
        for b in aliased:
            v = st.cell(ex.det_parts[b]).fields["_array"]
            r = v.val if isinstance(v, VMaybe) else v
            if isinstance(r, VRef):
                held[b] = (r, st.cell(r).elem(G))
        return [det, VBool(z3.Bool("reset"))], {}
    ps = u.paths(fe, setup_e, cfg, label="Detector.empty[alias]")
    for p in ps:
        if p.kind != "return":
            u.oblige(p, "alias.empty_no_raise", False, {"exc": p.exc_name()}, REC_REPLAY)
            continue
        for b, (old, before) in held.items():
            now = p.st.cell(p.ex.det_parts[b]).fields["_array"]
            now_r = now.val if isinstance(now, VMaybe) else now
            u.oblige(p, f"alias.step_start_rebinds[{b}]", bool(not (isinstance(now_r, VRef) and now_r.addr == old.addr)), {"reset": z3.Bool("reset")}, REC_REPLAY)
            after = p.st.cell(old).elem(G)
            same = val_eq(before, after)
            u.oblige(p, f"alias.exported_slice_untouched[{b}]", same, {"reset": z3.Bool("reset")}, REC_REPLAY)
    u.cover("alias.cover", ps, lambda p: p.kind == "return")
    u.static("alias.classified", True, fe.qualname, "aliasing exports: " + (", ".join(sorted(aliased)) or "none"))


def val_eq(a, b):
    if a is b:
        return True
    if type(a) is not type(b) and not (isinstance(a, (VInt, VFloat)) and isinstance(b, (VInt, VFloat))):
        return False
    if isinstance(a, VBool):
        return z_bool(a.v) == z_bool(b.v)
    return to_real(a) == to_real(b)


# Detector.to_xarray as a CALLEE (its own unit `detector.to_xarray` proves this): a dataset with an entry for every initialised bucket EXCEPT
# that an all-zero charge is left out -- i.e. not "all five buckets": the entries it made are not visible to the caller as its own
SNAP_Q = "pyxel/detectors/detector.py::Detector.to_xarray"
SNAPSHOT = Contract(SNAP_Q, lambda ex, args, kwargs, fr: (ex.st.events.append(("snapshot", args[0])), VOpaque("xr", ex.st.fresh_int("ds"), {"label": "detector_snapshot", "of_detector": args[0]}))[1],
                    "C03.detector.to_xarray: every initialised bucket, an all-zero charge left out")


@unit("C03", "extract")
def extract(u: Unit):
    fi = u.fn(f"{EX}::_extract_datatree_2d")
    cfg = D.install(Cfg("real"))
    exported = {}

    def mk_tx(bucket):
        def apply(ex, args, kwargs, fr):
            v = VOpaque("xr", ex.st.fresh_int("da"), {"label": f"dataarray[{bucket}]", "from": args[0]})
            exported.setdefault("order", []).append((bucket, args[0]))
            return v
        return apply
    for q in ("pyxel/data_structure/array.py::ArrayBase.to_xarray", DS + "photon.py::Photon.to_xarray", DS + "charge.py::Charge.to_xarray"):
        cfg.contracts[q] = Contract(q, lambda ex, args, kwargs, fr: mk_tx("?")(ex, args, kwargs, fr), "C03.to_xarray")
    cfg.contracts[SNAP_Q] = SNAPSHOT
    T_, S_ = z3.Real("time_now"), z3.Real("start_time")

    def setup(ex):
        exported.clear()
        det = D.mk_detector(ex, u)
        rci = u.cls("pyxel/detectors/readout_properties.py::ReadoutProperties")
        rp = ex.st.alloc(HObj(rci, {"_time": VFloat(T_), "_start_time": VFloat(S_), "_time_step": VFloat(z3.Real("step")), "_pipeline_count": VInt(z3.Int("count"))}))
        ex.st.cell(det).fields["_readout_properties"] = rp
        return [], {"detector": det}
    params = [a.arg for a in fi.node.args.args + fi.node.args.kwonlyargs]
    if params != ["detector"]:
        # the helper's interface changed: this isolated contract no longer applies; the label / bucket obligations are decided
        # in the loop unit, where the helper is inlined at its call site
        u.undecide("extract.contract_applicable", fi.qualname, f"_extract_datatree_2d now takes {params}; isolated contract written for (detector)")
        return
    ps = u.paths(fi, setup, cfg, label="_extract_datatree_2d")
    for p in ps:
        if p.kind != "return":
            u.oblige(p, "extract.no_raise", False, {"exc": p.exc_name()}, REC_REPLAY)
            continue
        parts = p.ex.det_parts
        sets = [(e[2].v if isinstance(e[2], VStr) else None, e[3]) for e in p.st.events if e[0] == "xr_setitem"]
        want = ["photon", "charge", "pixel", "signal", "image"]
        ok = [k for k, _ in sets] == want and all(isinstance(v, VOpaque) and isinstance(v.info.get("from"), VRef) and v.info["from"].addr == parts[k].addr for k, v in sets)
        u.oblige(p, "extract.all_buckets", bool(ok), {"stored": str([k for k, _ in sets])}, REC_REPLAY)
        # time label
        tl = [e for e in p.st.events if e[0] == "lib_call" and e[1] == "xarray.DataArray" and isinstance(e[3].get("dims"), VStr) and e[3]["dims"].v == "time"]
        okt = len(tl) == 1 and tl[0][2] and p.ex.try_list(tl[0][2][0]) is not None and len(p.ex.try_list(tl[0][2][0])) == 1
        val = p.ex.try_list(tl[0][2][0])[0] if okt else None
        u.oblige(p, "extract.time_label", z3.And(zb(okt), (to_real(val) == S_ + T_) if okt else z3.BoolVal(False)), {}, REC_REPLAY)
        ac = [e for e in p.st.events if e[0] == "xr_call" and str(e[1]).endswith("assign_coords")]
        ed = [e for e in p.st.events if e[0] == "xr_call" and str(e[1]).endswith("expand_dims")]
        okc = (len(ac) == 1 and isinstance(ac[0][3].get("time"), VOpaque) and (ac[0][3]["time"].info.get("args") or [None])[0] is tl[0][2][0]) if okt else False
        oke = len(ed) == 1 and isinstance(ed[0][3].get("dim"), VStr) and ed[0][3]["dim"].v == "time"
        u.oblige(p, "extract.time_dimension", bool(okc and oke), {}, REC_REPLAY)
    u.cover("extract.cover", ps, lambda p: p.kind == "return")


@unit("C03", "loop")
def loop(u: Unit):
    """Generic step of the exposure loop: merge once, restore the image dtype; final assembly of the tree."""
    cfg, fi = C02.exposure_cfg(u, may_raise=False)
    spec = cfg.loops[(fi.qualname, 0)]
    marks = {}
    # the per-step extraction helper is INLINED here (its own unit proves it in isolation): whatever its signature, the step's
    # dataset must be labelled with the absolute time of THIS step
    cfg.contracts.pop(f"{EX}::_extract_datatree_2d", None)
    cfg.contracts[SNAP_Q] = SNAPSHOT
    for q in ("pyxel/data_structure/array.py::ArrayBase.to_xarray", DS + "photon.py::Photon.to_xarray", DS + "charge.py::Charge.to_xarray"):
        cfg.contracts[q] = Contract(q, lambda ex, args, kwargs, fr: VOpaque("xr", ex.st.fresh_int("da"), {"label": "dataarray", "from": args[0]}), "C03.to_xarray")

    def after(ex, fr, k):
        st = ex.st
        ev = st.events[marks.get("start", 0):]
        merges = [e for e in ev if e[0] == "lib_call" and e[1] == "xarray.map_over_datasets"]
        first = st.ghost.get("IS_EMPTY_AT_HEAD")
        tree_now = fr.locals["buckets_data_tree"]
        part = fr.locals.get("partial_datatree_2d")
        tl = [e for e in ev if e[0] == "lib_call" and e[1] == "xarray.DataArray" and isinstance(e[3].get("dims"), VStr) and e[3]["dims"].v == "time"]
        vals = ex.try_list(tl[0][2][0]) if len(tl) == 1 and tl[0][2] else None
        okt = vals is not None and len(vals) == 1 and is_num(vals[0])
        st.oblige("loop.step_labelled_with_its_absolute_time", z3.And(zb(okt), to_real(vals[0]) == C02.START + C02.T(k)) if okt else False, {"replay": REC_REPLAY}, assume_after=False)
        if len(merges) == 0:
            st.oblige("merge.each_step_once[first step takes the tree]", bool(tree_now is part), {"replay": REC_REPLAY}, assume_after=False)
        else:
            ok = len(merges) == 1 and len(merges[0][2]) == 3 and merges[0][2][1] is st.ghost["TREE_AT_HEAD"] and merges[0][2][2] is part
            st.oblige("merge.each_step_once", bool(ok), {"replay": REC_REPLAY}, assume_after=False)
            casts = [e for e in ev if e[0] == "xr_call" and str(e[1]).endswith("astype")]
            sets = [e for e in ev if e[0] == "xr_setitem" and isinstance(e[2], VStr) and e[2].v == "image" and e[4] is tree_now]      # on the merged tree, not the step's own dataset
            reads = [e for e in ev if e[0] == "xr_dtype" and "image" in str(e[1])]
            img = D.bucket_array(st, ex.det_parts["image"])
            present = zb(z_not(D.is_empty_bucket(st, ex.det_parts["image"])))
            want = st.cell(img.val if isinstance(img, VMaybe) else img).dtype
            # dtype of the merged image variable: whatever xarray produced (it promotes integers when steps are outer-joined)
            merged = reads[0][2] if reads else VDtype(st.fresh_int("merged_image_dtype"))
            final = merged
            if casts and sets:
                dt = casts[0][3].get("dtype")
                final = dt if isinstance(dt, VDtype) else VDtype(st.fresh_int("cast_dtype"))
            st.oblige("image.dtype_restored", z3.Implies(present, zb(arrays.dtype_eq(ex, final, want))), {"replay": REC_REPLAY}, assume_after=False)
            st.oblige("image.dtype_restored[at most one cast]", bool(len(casts) <= 1 and len(sets) <= 1), {"replay": REC_REPLAY}, assume_after=False)
    base_havoc = spec.havoc

    def hav(ex, fr, k):
        base_havoc(ex, fr, k)
        marks["start"] = len(ex.st.events)
        ex.st.ghost["TREE_AT_HEAD"] = fr.locals["buckets_data_tree"]
    spec.havoc, spec.after_body = hav, after
    u.internal_replay, u.internal_witness = REC_REPLAY, {}
    ps = u.paths(fi, lambda ex: C02.exposure_setup(u, ex, True), cfg, max_paths=600, label="exposure.run_pipeline[result assembly]")
    for p in ps:
        if p.kind != "return":
            continue
        fd = [e for e in p.st.events if e[0] == "lib_call" and e[1] == "xarray.DataTree.from_dict"]
        ok = len(fd) == 1 and isinstance(fd[0][2][0], VRef)
        if not ok:
            u.oblige(p, "layout.tree_built", False, {}, REC_REPLAY)
            continue
        dct = {k.v: v for k, v in p.st.cell(fd[0][2][0]).items}
        det = p.st.cell(p.ex.det_parts["det"]).fields
        has_b, has_r = "/bucket" in dct, "/" in dct
        u.oblige(p, "layout.flat_or_hierarchical", bool(has_b != has_r), {"keys": str(sorted(dct))}, REC_REPLAY)
        scene_ok = isinstance(dct.get("/scene"), VOpaque) and dct["/scene"].info.get("of") is det["_scene"] and dct["/scene"].info.get("attr") == "data"
        data_ok = dct.get("/data") is det["_data"]
        u.oblige(p, "scene_data.passthrough", bool(scene_ok and data_ok), {}, REC_REPLAY)
    u.cover("loop.cover", ps, lambda p: p.kind == "return")


# ---- Detector.to_xarray: what the debug capture sees of the detector -----------------------------------------------------------------
DEBUG_REPLAY = lambda w: {"code": """
import numpy as np, xarray as xr, verif_probes as VP
VIOLATED, DETAIL = False, 'the snapshot of the detector lists every initialised bucket with its own content'
for cube in (False, True):
    det = VP.detector(rows=2, cols=3)
    if cube:
        det.photon.array_3d = xr.DataArray(np.arange(12, dtype=float).reshape(2, 2, 3), dims=['wavelength', 'y', 'x'], coords={'wavelength': [500.0, 600.0]})
    else:
        det.photon.array = np.full((2, 3), 4.0)
    det.signal.array = np.full((2, 3), 0.5)
    ds = det.to_xarray()
    names = sorted(ds.data_vars)
    if names != ['photon', 'signal']:
        VIOLATED, DETAIL = True, f'multi-wavelength photons: {cube}; initialised buckets photon and signal, snapshot holds {names}'; break
    if float(np.asarray(ds['photon']).sum()) != (66.0 if cube else 24.0) or float(np.asarray(ds['signal']).sum()) != 3.0:
        VIOLATED, DETAIL = True, 'snapshot values differ from the buckets'; break
""", "expect": "Detector.to_xarray (used by the debug capture) holds every initialised bucket, multi-wavelength photons included"}


@unit("C03", "detector.to_xarray")
def detector_to_xarray(u: Unit):
    """Detector.to_xarray (the snapshot the debug capture compares before / after each model): an entry for EVERY initialised bucket —
    2-D photons and multi-wavelength cubes alike — holding that container's own export; uninitialised buckets (their export has no
    dimension) and an all-zero charge are left out; nothing else is written."""
    fi = u.fn("pyxel/detectors/detector.py::Detector.to_xarray")
    for photon in ("empty", "2d", "3d"):
        for pixel in (False, True):
            cfg = D.install(Cfg("real"))
            cfg.name_overrides["__version__"] = VStr("version")
            state = {"photon": photon, "pixel": "2d" if pixel else "empty", "signal": "2d", "image": "empty", "charge": "2d"}
            for cname, path in (("Photon", "photon.py"), ("Pixel", "pixel.py"), ("Signal", "signal.py"), ("Image", "image.py"), ("Charge", "charge.py"), ("ArrayBase", "array.py")):
                q = f"{DS}{path}::{cname}.to_xarray"

                def export(ex, args, kwargs, fr, cname=cname):
                    me = args[0]
                    bucket = next((k for k in ("photon", "pixel", "signal", "image", "charge") if ex.det_parts[k].addr == me.addr), None)
                    nd = {"empty": 0, "2d": 2, "3d": 3}[state[bucket]]
                    v = VOpaque("export", ex.st.fresh_int("export"), {"bucket": bucket, "ndim": nd})
                    ex.hold.setdefault("exports", {})[bucket] = v
                    return v
                try:
                    u.world.function(q)
                    cfg.contracts[q] = Contract(q, export, "to_xarray.* (the container's own export)")
                except Exception:
                    pass
            cfg.lib_overrides[("opaque_attr", "export")] = lambda ex, obj, name, fr: VInt(obj.info["ndim"]) if name == "ndim" else VLib("export." + name, obj)
            cfg.lib_overrides[("compare", "export")] = lambda ex, op, a, b, fr: VOpaque("mask", None, {})
            cfg.lib_overrides[("eq", "export")] = lambda ex, a, b, fr: VOpaque("mask", None, {})
            cfg.lib_overrides[("opaque_attr", "mask")] = lambda ex, obj, name, fr: VLib("mask." + name, obj)
            cfg.lib_overrides["mask.all"] = lambda ex, f, args, kwargs, fr: VBool(z3.Bool("charge_all_zero"))

            def setup(ex):
                ex.hold = {}
                det = D.mk_detector(ex, u, prior="fresh")
                for b, stt in state.items():       # the containers hold what `state` says (array / multi-wavelength cube / nothing)
                    if b == "charge":
                        continue
                    cellb = ex.st.cell(ex.det_parts[b])
                    if stt == "2d":
                        cellb.fields["_array"] = D.sym_frame(ex, b + "0")
                    elif stt == "3d":
                        cellb.fields["_array"] = VOpaque("DataArray", ex.st.fresh_int("cube"), {"type": "xarray.DataArray"})
                    else:
                        cellb.fields["_array"] = NONE
                return [det], {}
            cfg.lib_overrides[("isinstance", "DataArray")] = lambda ex, v, libs, clss: VBool("xarray.DataArray" in libs)
            tag = f"photon {photon}, pixel {'set' if pixel else 'empty'}"
            ps = u.paths(fi, setup, cfg, label=f"Detector.to_xarray[{tag}]")
            for p in ps:
                if p.kind != "return":
                    u.oblige(p, f"detector.to_xarray.no_raise[{tag}]", False, {"exc": p.exc_name()}, DEBUG_REPLAY)
                    continue
                stored = {}
                for ev in p.st.events:
                    if ev[0] == "xr_setitem" and ev[4] is p.value and isinstance(ev[2], VStr):
                        stored[ev[2].v] = ev[3]
                exp = p.ex.hold.get("exports", {})
                want = {b for b, stt in state.items() if stt != "empty"}
                ok_names = z3.And(*[zb(b in stored) if b != "charge" else (zb("charge" in stored) == z3.Not(z3.Bool("charge_all_zero"))) for b in want], zb(not (set(stored) - want)))
                ok_vals = all(stored[b] is exp.get(b) for b in stored)
                u.oblige(p, f"detector.to_xarray.every_initialised_bucket_with_its_own_export[{tag}]", z3.And(ok_names, zb(ok_vals)), {"stored": str(sorted(stored))}, DEBUG_REPLAY)
            u.cover(f"detector.to_xarray.cover[{tag}]", ps, lambda p: p.kind == "return")


from . import C14 as _C14  # noqa: E402
unit("C03", "charge.array_current")(_C14.array_current)   # what a snapshot reads from the charge container is the table as it is NOW (in-place edits included)


# ---- Photon.to_xarray of a multi-wavelength cube: the export is labelled by ROW / COLUMN INDICES, whatever labels the stored cube carries ---
CUBE_REPLAY = lambda w: {"code": """
import numpy as np, xarray as xr, warnings, verif_probes as VP
from pyxel.pipelines import DetectionPipeline, ModelFunction, Processor
from pyxel.exposure import Readout, run_pipeline
warnings.simplefilter('ignore')
VIOLATED, DETAIL = False, 'a photon cube with foreign y / x labels is exported on the detector index grid; the other buckets keep their values'
for labelled in (False, True):
    det = VP.detector(rows=3, cols=4)
    cube = xr.DataArray(np.arange(24.0).reshape(2, 3, 4), dims=['wavelength', 'y', 'x'], coords={'wavelength': [500.0, 600.0]})
    if labelled:
        cube = cube.assign_coords(y=[5.0, 15.0, 25.0], x=[2.5, 7.5, 12.5, 17.5])          # e.g. pixel-centre positions in micrometres
    det.photon.array_3d = cube
    out = det.photon.to_xarray()
    if list(out['y'].values) != [0, 1, 2] or list(out['x'].values) != [0, 1, 2, 3] or not np.array_equal(out.values, cube.values):
        VIOLATED, DETAIL = True, f'cube with{"" if labelled else "out"} own y/x labels: exported y={list(out["y"].values)} x={list(out["x"].values)}'; break
if not VIOLATED:
    import sys, types
    m = types.ModuleType('vp_cube'); sys.modules['vp_cube'] = m
    def put_cube(detector):
        detector.photon.array_3d = xr.DataArray(np.full((2, 3, 4), 2.0), dims=['wavelength', 'y', 'x'], coords={'wavelength': [500.0, 600.0], 'y': [5.0, 15.0, 25.0], 'x': [2.5, 7.5, 12.5, 17.5]})
        detector.pixel.array = np.full((3, 4), 9.0); detector.signal.array = np.full((3, 4), 0.5); detector.image.array = np.full((3, 4), 7, dtype=np.uint16)
    m.put_cube = put_cube
    for wic in (False, True):
        pipe = DetectionPipeline(photon_collection=[ModelFunction(func='vp_cube.put_cube', name='c')])
        dt = run_pipeline(processor=Processor(detector=VP.detector(rows=3, cols=4), pipeline=pipe), readout=Readout(times=[1.0, 2.0]), outputs=None, debug=False, with_inherited_coords=wic, pipeline_seed=None)
        node = dt['/bucket'] if wic else dt
        px, im = np.asarray(node['pixel'].values), np.asarray(node['image'].values)
        if list(np.asarray(node['y'].values)) != [0, 1, 2] or np.isnan(px).any() or not np.all(px[-1] == 9.0) or not np.all(im == 7) or str(node['image'].dtype) != 'uint16':
            VIOLATED, DETAIL = True, f'inherited coords {wic}: y labels {list(np.asarray(node["y"].values))}, pixel {px.ravel()[:3]}, image {im.ravel()[:3]} ({node["image"].dtype})'; break
""", "expect": "the photon export always carries y = 0..rows-1, x = 0..cols-1 (foreign labels would re-index every other bucket to NaN)"}


@unit("C03", "to_xarray.cube")
def to_xarray_cube(u: Unit):
    """Photon.to_xarray with a multi-wavelength cube stored (an xarray object with ARBITRARY coordinates of its own — the boundary answers
    'is label y present' either way): the exported object is the cube cast to the float type, named 'photon', and ON EVERY PATH its y and x
    coordinates are set to DataArray(range(rows), dims='y') / DataArray(range(cols), dims='x')."""
    fi = u.fn(DS + "photon.py::Photon.to_xarray")
    pci = u.cls(DS + "photon.py::Photon")
    cfg = Cfg("real")
    boundary.install(cfg)
    cfg.contracts["pyxel/util/misc.py::convert_unit"] = Contract("pyxel/util/misc.py::convert_unit", lambda ex, args, kwargs, fr: VStr("unit"), "unit text (astropy)")
    cfg.lib_overrides[("isinstance", "xr")] = lambda ex, v, libs, clss: VBool(any("DataArray" in x for x in libs))

    def setup(ex):
        cube = VOpaque("xr", ex.st.fresh_int("cube"), {"label": "cube", "truthy": True})
        ex.cube = cube
        me = ex.st.alloc(HObj(pci, {"_array": cube, "_num_rows": VInt(D.ROWS), "_num_cols": VInt(D.COLS), "_numbytes": VInt(0)}))
        ex.st.assume(z3.And(D.ROWS > 0, D.COLS > 0))
        return [me], {}
    ps = u.paths(fi, setup, cfg, label="Photon.to_xarray[cube]")
    for p in ps:
        if p.kind != "return":
            u.oblige(p, "to_xarray.cube.no_raise", False, {"exc": p.exc_name()}, CUBE_REPLAY)
            continue
        out = p.value
        is_cast = isinstance(out, VOpaque) and "astype" in str(out.info.get("label", "")) and out.info.get("fn") is not None and out.info["fn"].info.get("of") is p.ex.cube
        sets = {}
        for e in p.st.events:
            if e[0] == "xr_setitem" and isinstance(e[4], VOpaque) and str(e[4].info.get("label", "")).endswith(".coords") and e[4].info.get("of") is out and isinstance(e[2], VStr):
                sets[e[2].v] = e[3]

        def index_axis(v, n, dim):
            if not (isinstance(v, VOpaque) and v.info.get("label") == "xarray.DataArray()"):
                return z3.BoolVal(False)
            a, kw = v.info.get("args") or [], v.info.get("kwargs") or {}
            r = a[0] if a and isinstance(a[0], VRange) else None
            d = kw.get("dims")
            if r is None or r.step is not None or not isinstance(d, VStr) or d.v != dim:
                return z3.BoolVal(False)
            return z3.And(z_int(int_of(r.lo)) == 0, z_int(int_of(r.hi)) == n)
        u.oblige(p, "to_xarray.cube.is_the_stored_cube_cast", bool(is_cast), {}, CUBE_REPLAY)
        u.oblige(p, "to_xarray.cube.labelled_by_row_and_column_index", z3.And(index_axis(sets.get("y"), D.ROWS, "y"), index_axis(sets.get("x"), D.COLS, "x")),
                 {"coordinates set on the export": str(sorted(sets))}, CUBE_REPLAY)
    u.cover("to_xarray.cube.cover", ps, lambda p: p.kind == "return")


def _run_mode_dispatch(u: Unit):
    """C09.run_mode_dispatch (imported late)"""
    from . import C09 as _C09
    return _C09.run_mode_dispatch(u)


unit("C03", "run_mode.dispatch")(_run_mode_dispatch)      # what run_mode returns IS what the mode's run returned; debug / layout flags reach the run as given


# ---- debug capture: the reference snapshot a model's buckets are compared against -------------------------------------------------------
DEBUGREC_REPLAY = lambda w: {"code": """
import sys, types, numpy as np, verif_probes as VP
from pyxel.pipelines import DetectionPipeline, ModelFunction, Processor
from pyxel.exposure import Readout, run_pipeline
mod = types.ModuleType('c03_debug')
def add_array(detector, amount=1.0):                 # in place, as simple_dark_current / charge_injection do
    detector.charge.add_charge_array(np.full(detector.geometry.shape, float(amount)))
def set_pixel(detector, value=1.0):
    detector.pixel.array = np.full(detector.geometry.shape, float(value))
mod.add_array, mod.set_pixel = add_array, set_pixel
sys.modules['c03_debug'] = mod
pipe = DetectionPipeline(charge_generation=[ModelFunction(func='c03_debug.add_array', name='first', arguments={'amount': 5.0}),
                                            ModelFunction(func='c03_debug.add_array', name='second', arguments={'amount': 7.0}),
                                            ModelFunction(func='c03_debug.add_array', name='third', arguments={'amount': 0.0})],
                         charge_collection=[ModelFunction(func='c03_debug.set_pixel', name='collect', arguments={'value': 3.0})])
r = run_pipeline(processor=Processor(detector=VP.detector(), pipeline=pipe), readout=Readout(times=[1.0, 3.0]), outputs=None, debug=True, with_inherited_coords=False)
VIOLATED, DETAIL = False, 'after each model the debug record lists the buckets that model changed'
inter = r['/intermediate'] if '/intermediate' in r.groups else r['intermediate']
for step in (0, 1):
    for model, want in (('charge_generation/first', 5.0), ('charge_generation/second', 12.0)):
        node = inter[f'time_idx_{step}/{model}']
        names = list(node.data_vars) if hasattr(node, 'data_vars') else list(node.ds.data_vars)
        if 'charge' not in names:
            VIOLATED, DETAIL = True, f'readout {step}: model {model.split("/")[1]!r} added charge in place but its debug record holds {names}'; break
        if not np.allclose(np.asarray(node['charge']), want):
            VIOLATED, DETAIL = True, f'readout {step}: record of {model}: charge {float(np.asarray(node["charge"]).ravel()[0])}, the detector held {want}'; break
    if VIOLATED: break
    node = inter[f'time_idx_{step}/charge_generation/third']
    names = list(node.data_vars) if hasattr(node, 'data_vars') else list(node.ds.data_vars)
    if 'charge' in names:
        VIOLATED, DETAIL = True, f'readout {step}: model third changed nothing but its record lists {names}'; break
""", "expect": "each model's debug record holds exactly the buckets it changed, in-place additions to the charge array included"}


@unit("C03", "debug.reference_snapshot")
def debug_reference_snapshot(u: Unit):
    """The debug capture of ModelGroup.run compares every bucket of the detector's snapshot with the snapshot kept from the previous model
    (node 'last') and records the buckets that differ. Charge.to_xarray hands out the LIVE per-pixel array (unit `alias`: models add to it
    in place), so the kept snapshot must be a deep copy of the dataset: the value stored under 'last' is, after resolving locals,
    `DataTree(<snapshot>.copy(deep=True))` (or a deepcopy of it). Data-flow obligation on the real source + native scenario."""
    from . import defuse as DU
    fn = u.fn("pyxel/pipelines/model_group.py::ModelGroup.run")
    stores = []
    for nd in ast.walk(fn.node):
        if isinstance(nd, ast.Assign) and len(nd.targets) == 1 and isinstance(nd.targets[0], ast.Subscript):
            tgt = nd.targets[0]
            key = DU.norm(fn.node, tgt.slice)
            if ast.unparse(tgt.value).endswith("intermediate") and key in ("'last'", '"last"'):
                stores.append(DU.norm(fn.node, nd.value))
    import re as _re
    ok = bool(stores) and all(_re.search(r"\.copy\((deep=)?True[,)]", e.replace(" ", "")) is not None or "deepcopy(" in e for e in stores)
    u.static("debug.reference_snapshot_is_a_deep_copy", ok, fn.qualname, f"value stored under intermediate['last']: {stores}", replay=DEBUGREC_REPLAY, witness={"stored": stores})
    u.guard("debug.reference_snapshot.cover", len(stores) >= 1, fn.qualname, f"{len(stores)} assignments to intermediate['last'] found")
