"""C20 — input files are read and placed on the detector faithfully.

Contracts
  _set_relative_position(array_x, array_y, output_x, output_y, alignment) -> (py, px)
      bottom_left: (0, 0); bottom_right: px == ox - ax, py == 0; top_left: py == oy - ay, px == 0;
      top_right: both; center: |2 p - (o - a)| <= 1 on each axis                          [from the statement]
  fit_into_array(array, output_shape, relative_position, align, allow_smaller_array)
      returns out  =>  overlap(p) and (allow_smaller or array not smaller) and shape(out) == output_shape and
                       for every pixel (r, c): out[r, c] == array[r - py, c - px] if that index exists else 0
      raises       =>  ValueError and (no overlap or (not allow_smaller and array smaller))
      where p is relative_position, or the alignment position (callee contract) when a keyword is given
  loading models pass (position_y, position_x), align and the detector shape in the right places
  a memoised loader must not return content that predates a rewrite of the file (cache.fresh)
"""
from __future__ import annotations

import ast

from .common import *  # noqa: F401,F403
from . import boundary, fsmodel as FSM

IMG = "pyxel/util/image.py"
BOUNDED = {
    r'^cache\.transparent': 'histories of two loads',
}      # unit-name / obligation-name patterns -> the family these obligations are proved for
TRUSTED = ["np.intersect1d restricted to two integer ranges = range(max lo, min hi)", "np.array(range(a, b)) = the integers a..b-1",
           "byte-level decoding of npy/FITS/text/PNG files is numpy/astropy/PIL (outside contracts; bounded audit only)",
           "cache.fresh: a file's (mtime_ns, size) signature changes whenever its content is rewritten"]
ASSUMPTIONS = ["input array and output shape have at least one row and column"]
AY, AX, OY, OX, PY, PX = (z3.Int(n) for n in ("ay", "ax", "oy", "ox", "py", "px"))
ARR = z3.Function("arr", z3.IntSort(), z3.IntSort(), z3.RealSort())
GR, GC = z3.Int("g_r"), z3.Int("g_c")
KEYWORDS = ["center", "top_left", "top_right", "bottom_left", "bottom_right"]


def align_spec(kw, py, px, ay=AY, ax=AX, oy=OY, ox=OX):
    if kw == "bottom_left":
        return z3.And(py == 0, px == 0)
    if kw == "bottom_right":
        return z3.And(py == 0, px == ox - ax)
    if kw == "top_left":
        return z3.And(py == oy - ay, px == 0)
    if kw == "top_right":
        return z3.And(py == oy - ay, px == ox - ax)
    d = lambda p, o, a: z3.And(2 * p - (o - a) <= 1, 2 * p - (o - a) >= -1)
    return z3.And(d(py, oy, ay), d(px, ox, ax))


def native_common():
    return """
import numpy as np
from pyxel.util.image import fit_into_array
def placed(arr, oshape, p):
    out = np.zeros(oshape)
    for r in range(oshape[0]):
        for c in range(oshape[1]):
            i, j = r - p[0], c - p[1]
            if 0 <= i < arr.shape[0] and 0 <= j < arr.shape[1]:
                out[r, c] = arr[i, j]
    return out
def align_ok(kw, p, a, o):
    if kw == 'bottom_left': return p == (0, 0)
    if kw == 'bottom_right': return p == (0, o[1] - a[1])
    if kw == 'top_left': return p == (o[0] - a[0], 0)
    if kw == 'top_right': return p == (o[0] - a[0], o[1] - a[1])
    return all(abs(2 * p[k] - (o[k] - a[k])) <= 1 for k in (0, 1))
"""


@unit("C20", "align")
def align_unit(u: Unit):
    fi = u.fn(f"{IMG}::_set_relative_position")
    u.cls(f"{IMG}::Alignment")
    for kw in KEYWORDS:
        def setup(ex, kw=kw):
            ex.st.assume(z3.And(AY >= 1, AX >= 1, OY >= 1, OX >= 1))
            return [], {"array_x": VInt(AX), "array_y": VInt(AY), "output_x": VInt(OX), "output_y": VInt(OY), "alignment": VStr(kw)}
        ps = u.paths(fi, setup, Cfg("real"), label=f"_set_relative_position[{kw}]")
        w = {"ay": AY, "ax": AX, "oy": OY, "ox": OX, "kw": kw}

        def rp(w):
            return {"code": native_common() + f"""
from pyxel.util.image import _set_relative_position, Alignment
a, o = ({max(1, w.get('ay', 1))}, {max(1, w.get('ax', 1))}), ({max(1, w.get('oy', 1))}, {max(1, w.get('ox', 1))})
p = tuple(_set_relative_position(array_x=a[1], array_y=a[0], output_x=o[1], output_y=o[0], alignment=Alignment({w['kw']!r})))
VIOLATED = not align_ok({w['kw']!r}, p, a, o)
DETAIL = f'alignment {w['kw']}: array {{a}} in output {{o}} -> position {{p}}'
""", "expect": "alignment keyword places the array as the statement says"}
        for p in ps:
            if p.kind != "return":
                u.oblige(p, f"align[{kw}].returns", False, w, rp)
                continue
            py, px = (z_int(int_of(x)) for x in p.ex.iterate(p.value, None))
            u.oblige(p, f"align[{kw}]", align_spec(kw, py, px), w, rp, info={"small": [AY, AX, OY, OX]})
        u.cover(f"align.cover[{kw}]", ps, lambda p: p.kind == "return")


def srp_contract(fi_srp):
    """Callee contract of _set_relative_position used while verifying fit_into_array (modular)."""
    def apply(ex, args, kwargs, fr):
        kw = kwargs["alignment"]
        py, px = z3.Int("align_py"), z3.Int("align_px")
        ay, ax, oy, ox = (z_int(int_of(kwargs[k])) for k in ("array_y", "array_x", "output_y", "output_x"))
        for k in KEYWORDS:
            ex.st.assume(z3.Implies(z_str(kw.v) == k, align_spec(k, py, px, ay, ax, oy, ox)))
        ex.st.ghost["position"] = (py, px)
        return VTuple([VInt(py), VInt(px)])
    return Contract(fi_srp.qualname, apply, "alignment position per keyword (proved in unit 'align')")


@unit("C20", "fit")
def fit_unit(u: Unit):
    fi = u.fn(f"{IMG}::fit_into_array")
    srp = u.fn(f"{IMG}::_set_relative_position")
    cfg = Cfg("real")
    cfg.contracts[srp.qualname] = srp_contract(srp)
    allow = z3.Bool("allow_smaller")
    for mode in ["position"] + KEYWORDS:
        def setup(ex, mode=mode):
            ex.st.assume(z3.And(AY >= 1, AX >= 1, OY >= 1, OX >= 1, GR >= 0, GR < OY, GC >= 0, GC < OX))
            ex.st.ghost["generic"] = [(GR, GC)]
            arr = ex.st.alloc(HArr((AY, AX), VDtype("float64"), lambda ix: VFloat(ARR(z_int(ix[0]), z_int(ix[1])))))
            ex.st.ghost["position"] = (PY, PX)
            return [], {"array": arr, "output_shape": VTuple([VInt(OY), VInt(OX)]), "relative_position": VTuple([VInt(PY), VInt(PX)]),
                        "align": NONE if mode == "position" else VStr(mode), "allow_smaller_array": VBool(allow)}
        ps = u.paths(fi, setup, cfg, label=f"fit_into_array[{mode}]")
        w = {"ay": AY, "ax": AX, "oy": OY, "ox": OX, "py": PY, "px": PX, "allow": allow, "mode": mode, "g_r": GR, "g_c": GC}

        def rp(w):
            a, o = (max(1, w.get("ay", 1)), max(1, w.get("ax", 1))), (max(1, w.get("oy", 1)), max(1, w.get("ox", 1)))
            align = None if w["mode"] == "position" else w["mode"]
            return {"code": native_common() + f"""
a, o, p0, align, allow = {a!r}, {o!r}, ({w.get('py', 0)}, {w.get('px', 0)}), {align!r}, {bool(w.get('allow', True))}
arr = np.arange(1, a[0] * a[1] + 1, dtype=float).reshape(a)
smaller = a[0] < o[0] or a[1] < o[1]
def overlap(p): return p[0] < o[0] and p[0] + a[0] > 0 and p[1] < o[1] and p[1] + a[1] > 0
try:
    out = fit_into_array(array=arr, output_shape=o, relative_position=p0, align=align, allow_smaller_array=allow)
except ValueError as e:
    must_reject = (not allow and smaller) or (align is None and not overlap(p0))
    VIOLATED = not must_reject and align is None
    DETAIL = f'array {{a}} at {{p0}} align={{align}} in output {{o}}: rejected ({{e}}) although it overlaps'
else:
    if align is None:
        cands = [p0]
    else:
        cands = [(y, x) for y in range(-a[0] - 1, o[0] + 2) for x in range(-a[1] - 1, o[1] + 2) if align_ok(align, (y, x), a, o)]
    ok = out.shape == tuple(o) and any(np.array_equal(out, placed(arr, o, p)) for p in cands) and (allow or not smaller) and any(overlap(p) for p in cands)
    VIOLATED = not ok
    DETAIL = f'array {{a}} at {{p0}} align={{align}} allow_smaller={{allow}} in output {{o}} -> {{out.tolist()}} ; expected {{placed(arr, o, cands[0]).tolist() if cands else None}}'
""", "expect": "every output pixel holds the input pixel the offset/alignment places there, zero elsewhere; no-overlap rejected"}
        small = [AY, AX, OY, OX, PY, PX, GR, GC]
        for p in ps:
            py, px = p.st.ghost["position"]
            overlap = z3.And(py < OY, py + AY > 0, px < OX, px + AX > 0)
            smaller = z3.Or(AY < OY, AX < OX)
            if p.kind == "raise":
                u.oblige(p, f"fit.reject_only_when_invalid[{mode}]", z3.And(p.exc_name() == "ValueError", z3.Or(z3.Not(overlap), z3.And(z3.Not(allow), smaller))),
                         w, rp, info={"small": small})
                continue
            if not p.ex.is_arr(p.value):
                u.oblige(p, f"fit.returns_array[{mode}]", False, w, rp)
                continue
            out = p.st.cell(p.value)
            u.oblige(p, f"fit.accept_implies_valid[{mode}]", z3.And(overlap, z3.Or(allow, z3.Not(smaller))), w, rp, info={"small": small})
            u.oblige(p, f"fit.shape[{mode}]", len(out.shape) == 2 and z3.And(z_int(out.shape[0]) == OY, z_int(out.shape[1]) == OX), w, rp, info={"small": small})
            i, j = GR - py, GC - px
            inside = z3.And(i >= 0, i < AY, j >= 0, j < AX)
            got = to_real(out.elem((GR, GC)))
            u.oblige(p, f"fit.placed[{mode}]", got == z3.If(inside, ARR(i, j), z3.RealVal(0)), w, rp, info={"small": small})
        u.cover(f"fit.cover[{mode}]", ps, lambda p: p.kind == "return")
        u.cover(f"fit.cover_reject[{mode}]", ps, lambda p: p.kind == "raise")


# ---- call-site obligations in the loading models ---------------------------------------------------
LOADERS = [
    ("pyxel/models/photon_collection/load_image.py", "load_image"),
    ("pyxel/models/charge_generation/load_charge.py", "load_charge"),
]


def find_calls(fn_node, name):
    out = []
    for n in ast.walk(fn_node):
        if isinstance(n, ast.Call):
            f = n.func
            nm = f.id if isinstance(f, ast.Name) else f.attr if isinstance(f, ast.Attribute) else None
            if nm == name:
                out.append(n)
    return out


def normalise_expr(fn_node, keywords, key):
    """Value of keyword `key` with local single-assignment names substituted by their definitions (a tiny
    def-use resolution: `geo = detector.geometry; shape = (geo.row, geo.col)` -> detector.geometry...)."""
    defs = {}
    for n in ast.walk(fn_node):
        if isinstance(n, (ast.Assign, ast.AnnAssign)):
            tgt = n.targets[0] if isinstance(n, ast.Assign) else n.target
            if isinstance(tgt, ast.Name) and n.value is not None:
                defs.setdefault(tgt.id, []).append(n.value)
            elif isinstance(tgt, ast.Tuple) and isinstance(n.value, ast.Name) and all(isinstance(e, ast.Name) for e in tgt.elts):
                for i, e in enumerate(tgt.elts):     # a, b = seq   ->   a = seq[0], b = seq[1]
                    defs.setdefault(e.id, []).append(ast.Subscript(value=ast.Name(id=n.value.id, ctx=ast.Load()), slice=ast.Constant(value=i), ctx=ast.Load()))
    val = next((k.value for k in keywords if k.arg == key), None)
    if val is None:
        return None

    class Sub(ast.NodeTransformer):
        def visit_Name(self, node):
            ds = defs.get(node.id)
            if ds and len(ds) == 1 and self.depth < 6:
                self.depth += 1
                r = self.visit(ds[0])
                self.depth -= 1
                return r
            return node
    sub = Sub()
    sub.depth = 0
    import copy
    return ast.unparse(sub.visit(copy.deepcopy(val))).replace(" ", "")


@unit("C20", "models.pass_position")
def pass_position(u: Unit):
    """Every call of load_cropped_and_aligned_image in the loading models passes position_x=position_x,
    position_y=position_y, align=align and the detector's (row, col) as shape (call-argument obligations)."""
    n_calls = 0
    for mi in u.world.all_modules():
        if not mi.relpath.startswith("pyxel/models/"):
            continue
        for fn in list(mi.functions.values()):
            for call in find_calls(fn.node, "load_cropped_and_aligned_image"):
                n_calls += 1
                # positional arguments are bound by the CALLEE's parameter order (a call written positionally is the same call)
                callee = u.world.function("pyxel/util/image.py::load_cropped_and_aligned_image")
                pnames = [a.arg for a in callee.node.args.posonlyargs + callee.node.args.args]
                call = ast.Call(func=call.func, args=[], keywords=[ast.keyword(arg=pnames[i], value=a) for i, a in enumerate(call.args) if i < len(pnames)] + list(call.keywords),
                                lineno=call.lineno, col_offset=call.col_offset)
                u.functions.setdefault(fn.qualname, {"sha": fn.sha, "file_sha": mi.sha, "paths": 0, "obligations": 0, "role": "under contract"})
                kw = {k.arg: ast.unparse(k.value) for k in call.keywords}
                params = [a.arg for a in fn.node.args.args + fn.node.args.kwonlyargs]
                for key in ("position_x", "position_y", "align"):
                    got = normalise_expr(fn.node, call.keywords, key)
                    if key in params:
                        want = [key]
                    elif key != "align" and "position" in params:
                        want = ["position[0]" if key == "position_y" else "position[1]"]      # position = (y, x)
                    else:
                        continue
                    u.static(f"models.pass_position[{fn.name}.{key}]", got in want, fn.qualname,
                             f"{fn.name}: {key} argument denotes {got!r} (expected {want[0]}) at line {call.lineno}", witness={"function": fn.name, "key": key, "got": got},
                             replay=(lambda w, fnname=fn.name, mod=mi.name: position_replay(mod, fnname)) if (mi.relpath, fn.name) in LOADERS else None)
                if (mi.relpath, fn.name) not in LOADERS:
                    continue     # the shape obligation is stated for the image / charge loading models of the statement
                shape = normalise_expr(fn.node, call.keywords, "shape")
                ok_shape = shape in ("(detector.geometry.row,detector.geometry.col)", "detector.geometry.shape", "detector.pixel.shape")
                u.static(f"models.pass_shape[{fn.name}]", ok_shape, fn.qualname, f"{fn.name}: shape argument denotes {shape!r}", witness={"function": fn.name, "shape": shape},
                         replay=lambda w, fnname=fn.name, mod=mi.name: position_replay(mod, fnname))
    u.guard("models.pass_position.cover", n_calls >= 2, "", f"{n_calls} call sites of load_cropped_and_aligned_image found in pyxel/models")


def position_replay(mod, fnname):
    return {"code": f"""
import numpy as np, tempfile, os
from pyxel.detectors import CCD, CCDGeometry, Characteristics, Environment
import importlib, sys
importlib.import_module('{mod}'); M = sys.modules['{mod}']
det = CCD(geometry=CCDGeometry(row=4, col=6, pixel_vert_size=1.0, pixel_horz_size=1.0, total_thickness=1.0), environment=Environment(), characteristics=Characteristics())
det.set_readout(times=[1.0])
det.empty()
d = tempfile.mkdtemp()
fn = os.path.join(d, 'img.npy')
img = np.arange(1, 7, dtype=float).reshape(2, 3)
np.save(fn, img)
import inspect
kw = dict(position=(1, 2)) if 'position' in inspect.signature(M.{fnname}).parameters else dict(position_y=1, position_x=2)
extra = dict(convert_to_photons=False) if 'convert_to_photons' in inspect.signature(M.{fnname}).parameters else {{}}
if 'time_scale' in inspect.signature(M.{fnname}).parameters: extra['time_scale'] = 1.0
M.{fnname}(detector=det, image_file=fn, **kw, **extra) if 'image_file' in inspect.signature(M.{fnname}).parameters else M.{fnname}(detector=det, filename=fn, **kw, **extra)
exp = np.zeros((4, 6)); exp[1:3, 2:5] = img
got = det.photon.array if '{fnname}' == 'load_image' else det.charge.array
VIOLATED = not np.allclose(got / max(got.max(), 1e-300) * exp.max(), exp)
DETAIL = '{fnname} with position (y=1, x=2) placed the image as ' + repr(np.round(got, 3).tolist())
""", "expect": "the image appears at row 1, column 2 of the bucket"}


# ---- memoised loaders ------------------------------------------------------------------------------
FS_READERS = {"load_image", "load_table", "load_image_v2", "load_table_v2", "open", "load", "loadtxt", "getdata", "read_csv", "read_table",
              "read_excel", "load_header", "load_dataarray", "load_datacube", "read_text", "read_bytes"}


def reads_fs(world, fi, depth=0, seen=None):
    seen = seen if seen is not None else set()
    if fi.qualname in seen or depth > 6:
        return None
    seen.add(fi.qualname)
    for n in ast.walk(fi.node):
        if isinstance(n, ast.Call):
            f = n.func
            nm = f.id if isinstance(f, ast.Name) else f.attr if isinstance(f, ast.Attribute) else None
            if nm in FS_READERS:
                return f"{fi.name} -> {nm}() at line {n.lineno}"
            if isinstance(f, ast.Name):
                r = world.resolve(fi.module, nm)
                if r and r[0] == "function":
                    sub = reads_fs(world, r[1], depth + 1, seen)
                    if sub:
                        return f"{fi.name} -> {sub}"
    return None


def signature_param(world, fi):
    """A parameter of the cached function that every call site binds to a file signature (a call of a function
    whose body stats the file)."""
    params = [a.arg for a in fi.node.args.args + fi.node.args.kwonlyargs]
    sites = []
    for mi in world.all_modules():
        for fn in list(mi.functions.values()) + [m for c in mi.classes.values() for m in c.methods.values()]:
            for call in find_calls(fn.node, fi.name):
                sites.append((fn, call))
    for prm in params:
        ok = bool(sites)
        for fn, call in sites:
            kw = {k.arg: k.value for k in call.keywords}
            v = kw.get(prm)
            good = False
            if isinstance(v, ast.Call) and isinstance(v.func, ast.Name):
                r = world.resolve(fn.module, v.func.id)
                if r and r[0] == "function" and any(isinstance(n, ast.Attribute) and n.attr in ("stat", "getmtime", "st_mtime_ns") for n in ast.walk(r[1].node)):
                    good = True
            ok = ok and good
        if ok:
            return prm
    return None


@unit("C20", "cache.fresh")
def cache_fresh(u: Unit):
    """reads(body) must be covered by the cache key: a memoised function that reads the file system needs a key
    component that changes with the file (its stat signature), otherwise a rewrite of the file is not seen."""
    n = 0
    for mi in u.world.all_modules():
        if not (mi.relpath.startswith("pyxel/util/") or mi.relpath.startswith("pyxel/inputs/") or mi.relpath.startswith("pyxel/models/")):
            continue
        for fn in list(mi.functions.values()):
            if not (fn.has_decorator("lru_cache") or fn.has_decorator("functools.cache") or "cache" in [d.split("(")[0].split(".")[-1] for d in fn.decorators]):
                continue
            n += 1
            u.functions.setdefault(fn.qualname, {"sha": fn.sha, "file_sha": mi.sha, "paths": 0, "obligations": 0, "role": "under contract"})
            why = reads_fs(u.world, fn)
            sig = signature_param(u.world, fn) if why else None
            ok = (why is None) or (sig is not None)
            u.static(f"cache.fresh[{fn.name}]", ok, fn.qualname,
                     f"memoised function {fn.name}: " + ("reads no file" if why is None else f"reads the file system ({why}); key component carrying the file signature: {sig}"),
                     witness={"function": fn.name, "reads": why},
                     replay=lambda w: {"code": """
import numpy as np, tempfile, os, time
from pyxel.util import load_cropped_and_aligned_image
d = tempfile.mkdtemp(); fn = os.path.join(d, 'img.npy')
np.save(fn, np.ones((2, 2)))
a = np.array(load_cropped_and_aligned_image(shape=(2, 2), filename=fn, position_x=0, position_y=0))
time.sleep(0.01)
np.save(fn, np.full((2, 2), 7.0))
os.utime(fn, ns=(time.time_ns(), time.time_ns()))
b = np.array(load_cropped_and_aligned_image(shape=(2, 2), filename=fn, position_x=0, position_y=0))
VIOLATED = not np.array_equal(b, np.full((2, 2), 7.0))
DETAIL = 'after rewriting the file the loader returned ' + repr(b.tolist()) + ' (first load: ' + repr(a.tolist()) + ')'
""", "expect": "second load reflects the rewritten file"})
    u.static("cache.fresh.cover", True, "", f"{n} memoised functions inspected")


# ---- format dispatch -------------------------------------------------------------------------------
@unit("C20", "dispatch")
def dispatch(u: Unit):
    """load_image: the text branch tries tab, space, comma, bar, semicolon and raises if none parses; the
    suffix table sends .npy to np.load, .fits to fits.getdata, text suffixes to np.loadtxt (AST obligations)."""
    fi = u.fn("pyxel/inputs/loader.py::load_image")
    seps = None
    for n in ast.walk(fi.node):
        if isinstance(n, ast.For) and isinstance(n.iter, ast.Tuple) and all(isinstance(e, ast.Constant) for e in n.iter.elts):
            seps = [e.value for e in n.iter.elts]
            loop = n
    u.static("dispatch.delimiters", seps is not None and set(seps) >= {"\t", " ", ",", "|", ";"}, fi.qualname, f"delimiters tried: {seps!r}",
             witness={"seps": seps}, replay=lambda w: {"code": """
import numpy as np, tempfile, os
from pyxel.inputs import load_image
VIOLATED, DETAIL = False, ''
for sep in ['\\t', ' ', ',', '|', ';']:
    d = tempfile.mkdtemp(); fn = os.path.join(d, 'img.txt')
    np.savetxt(fn, np.arange(6.0).reshape(2, 3), delimiter=sep)
    try:
        got = load_image(fn)
        if not np.array_equal(got, np.arange(6.0).reshape(2, 3)):
            VIOLATED, DETAIL = True, f'delimiter {sep!r}: read {got.tolist()}'
    except Exception as e:
        VIOLATED, DETAIL = True, f'delimiter {sep!r}: {e!r}'
""", "expect": "all five delimiters are read back"})
    if seps is not None:
        has_else_raise = any(isinstance(s, ast.Raise) for s in loop.orelse)
        u.static("dispatch.no_separator_raises", has_else_raise, fi.qualname, "for-else raises ValueError when no delimiter parses")
    src = ast.unparse(fi.node)
    table = {".fits": "fits.getdata", ".npy": "np.load(", ".txt": "np.loadtxt"}
    for suffix, reader in table.items():
        ok = False
        for n in ast.walk(fi.node):
            if isinstance(n, ast.If) and suffix in ast.unparse(n.test):
                ok = reader in "".join(ast.unparse(s) for s in n.body)
                break
        u.static(f"dispatch.suffix[{suffix}]", ok, fi.qualname, f"{suffix} handled by {reader}")
    u.static("dispatch.unknown_raises", "Image format not supported" in src, fi.qualname, "unknown suffix raises ValueError")


# ---- the memoised loader is transparent: a history of two loads ------------------------------------------------------
IMG = "pyxel/util/image.py"
FITTED = z3.Function("fitted_image", z3.StringSort(), z3.IntSort(), z3.IntSort(), z3.IntSort(), z3.IntSort(), z3.BoolSort(), z3.IntSort(), z3.IntSort(), z3.IntSort())
SIG_M, SIG_S = z3.Function("file_mtime", z3.StringSort(), z3.IntSort(), z3.IntSort()), z3.Function("file_size", z3.StringSort(), z3.IntSort(), z3.IntSort())

CACHE_HISTORY_REPLAY = lambda w: {"code": f"""
import numpy as np, tempfile, os
from pyxel.util import load_cropped_and_aligned_image, fit_into_array
d = tempfile.mkdtemp(); fn = os.path.join(d, 'img.npy')
img = np.arange(16, dtype=float).reshape(4, 4) + 1.0
np.save(fn, img)
cands = [(({w.get('x1', 0)}, {w.get('y1', 0)}), ({w.get('x2', 0)}, {w.get('y2', 0)})), ((-1, 0), (-2, 0)), ((0, -1), (0, -2)), ((1, 0), (0, 1)), ((0, 0), (2, 2)), ((-2, 1), (-1, 1))]
VIOLATED, DETAIL = False, 'every second load equals a fresh placement'
for (x1, y1), (x2, y2) in cands:
    if max(abs(x1), abs(y1), abs(x2), abs(y2)) > 5:
        continue
    try:
        load_cropped_and_aligned_image(shape=(6, 6), filename=fn, position_x=x1, position_y=y1)
        got = np.array(load_cropped_and_aligned_image(shape=(6, 6), filename=fn, position_x=x2, position_y=y2))
        want = fit_into_array(array=img, output_shape=(6, 6), relative_position=(y2, x2), align=None, allow_smaller_array=True)
    except Exception as e:
        continue
    if not np.array_equal(got, want):
        VIOLATED, DETAIL = True, f'load at (x={{x1}}, y={{y1}}) then at (x={{x2}}, y={{y2}}): second result differs from placing the file at (x={{x2}}, y={{y2}})'
        break
""", "expect": "a load returns the file placed with ITS arguments, whatever was loaded before"}


@unit("C20", "cache.transparent")
def cache_transparent(u: Unit):
    """History of two calls of load_cropped_and_aligned_image starting from an empty cache, with arbitrary (possibly equal)
    arguments and an optional rewrite of the file in between: each call returns what the uncached loader gives for ITS
    arguments and the file's CURRENT signature. functools.lru_cache is a library contract (memo keyed by argument
    equality); a hand-written cache is executed symbolically, with Python's hash modelled without injectivity.
    BOUNDED in the length of the history (two calls)."""
    from pyvc.front import FunctionInfo
    fw = u.fn(f"{IMG}::load_cropped_and_aligned_image")
    inner = f"{IMG}::_load_cropped_and_aligned_image"
    src = ("def _history(shape, fname, x1, y1, x2, y2, asa):\n"
           "    a = load_cropped_and_aligned_image(shape=shape, filename=fname, position_x=x1, position_y=y1, allow_smaller_array=asa)\n"
           "    _rewrite_hook()\n"
           "    b = load_cropped_and_aligned_image(shape=shape, filename=fname, position_x=x2, position_y=y2, allow_smaller_array=asa)\n"
           "    return (a, b)\n")
    drv = FunctionInfo(fw.module, ast.parse(src).body[0], None)
    cfg = Cfg("real")
    EPOCH = "FILE_EPOCH"

    def tok(v):
        return v.t if isinstance(v, VOpaque) else None

    def inner_contract(ex, args, kwargs, fr):
        sh, fn_, px, py = kwargs.get("shape"), kwargs.get("filename"), kwargs.get("position_x", VInt(0)), kwargs.get("position_y", VInt(0))
        asa, sig = kwargs.get("allow_smaller_array", VBool(True)), kwargs.get("file_signature", NONE)
        if not isinstance(sh, VTuple) or len(sh.items) != 2 or not isinstance(fn_, VStr):
            raise Unsupported("inner loader called with unexpected argument shapes")
        if isinstance(sig, VTuple) and len(sig.items) == 2:
            sg = z_int(int_of(sig.items[0])) * 1000003 + z_int(int_of(sig.items[1]))
        else:       # not part of the key: the function reads the file as it is now
            e = ex.st.ghost[EPOCH]
            sg = SIG_M(z_str(fn_.v), e) * 1000003 + SIG_S(z_str(fn_.v), e)
        return VOpaque("img", FITTED(z_str(fn_.v), z_int(int_of(sh.items[0])), z_int(int_of(sh.items[1])), z_int(int_of(px)), z_int(int_of(py)), zb(ex.truth(asa, fr)), sg, z3.IntVal(0)), {})
    cfg.contracts[inner] = Contract(inner, inner_contract, "uncached loader: a function of its arguments and of the file content (signature)")
    gs = f"{IMG}::_get_file_signature"
    cfg.contracts[gs] = Contract(gs, lambda ex, args, kwargs, fr: VTuple([VInt(SIG_M(z_str((args[0] if args else kwargs["filename"]).v), ex.st.ghost[EPOCH])),
                                                                           VInt(SIG_S(z_str((args[0] if args else kwargs["filename"]).v), ex.st.ghost[EPOCH]))]),
                                "stat signature of the file at this moment")
    cfg.name_overrides["_rewrite_hook"] = VLib("verif.rewrite_hook")

    def rewrite(ex, f, args, kwargs, fr):
        if ex.st.branch(z3.Bool("file_rewritten_between")):
            e0 = ex.st.ghost[EPOCH]
            ex.st.ghost[EPOCH] = e0 + 1
            fnm = z3.String("file_name")
            # premise (TRUSTED): a rewrite changes the (mtime_ns, size) signature
            ex.st.assume(z3.Or(SIG_M(fnm, e0) != SIG_M(fnm, e0 + 1), SIG_S(fnm, e0) != SIG_S(fnm, e0 + 1)))
            ex.st.assume(z3.And(SIG_M(fnm, e0) >= 0, SIG_M(fnm, e0 + 1) >= 0, SIG_S(fnm, e0) >= 0, SIG_S(fnm, e0 + 1) >= 0, SIG_S(fnm, e0) < 1000003, SIG_S(fnm, e0 + 1) < 1000003))
        return NONE
    cfg.lib_overrides["verif.rewrite_hook"] = rewrite
    X1, Y1, X2, Y2, R_, C_ = z3.Ints("x1 y1 x2 y2 shape_rows shape_cols")

    def setup(ex):
        ex.st.ghost[EPOCH] = z3.IntVal(0)
        return [], {"shape": VTuple([VInt(R_), VInt(C_)]), "fname": VStr(z3.String("file_name")), "x1": VInt(X1), "y1": VInt(Y1), "x2": VInt(X2), "y2": VInt(Y2),
                    "asa": VBool(z3.Bool("allow_smaller"))}
    ps = u.paths(drv, setup, cfg, label="two loads through load_cropped_and_aligned_image")
    w = {"x1": X1, "y1": Y1, "x2": X2, "y2": Y2, "rewritten": z3.Bool("file_rewritten_between")}
    fnm = z3.String("file_name")
    for p in ps:
        if p.kind != "return":
            u.oblige(p, "cache.transparent.no_raise", False, dict(w, exc=p.exc_name()), CACHE_HISTORY_REPLAY)
            continue
        a, b = p.value.items
        e_end = p.st.ghost[EPOCH]

        def want(px, py, e):
            return FITTED(fnm, R_, C_, px, py, z3.Bool("allow_smaller"), SIG_M(fnm, e) * 1000003 + SIG_S(fnm, e), z3.IntVal(0))
        u.oblige(p, "cache.transparent[first load]", (a.t == want(X1, Y1, z3.IntVal(0))) if isinstance(a, VOpaque) and a.t is not None else False, w, CACHE_HISTORY_REPLAY,
                 info={"small": [X1, Y1, X2, Y2]})
        u.oblige(p, "cache.transparent[second load]", (b.t == want(X2, Y2, e_end)) if isinstance(b, VOpaque) and b.t is not None else False, w, CACHE_HISTORY_REPLAY,
                 info={"small": [X1, Y1, X2, Y2]})
    u.cover("cache.transparent.cover", ps, lambda p: p.kind == "return")


# ---- tables: the requested columns get the requested names (load_table_v2) -------------------------------------------------------------
TABLE_REPLAY = lambda w: {"code": """
import numpy as np, tempfile, os
from pyxel.inputs import load_table_v2
d = tempfile.mkdtemp()
data = np.array([[0.1, 400.0, 7.0], [0.35, 500.0, 8.0], [0.8, 600.0, 9.0], [0.55, 700.0, 10.0]])
VIOLATED, DETAIL = False, 'every named column holds the file column it was asked for'
for sep, ext in (('\\t', 'txt'), (' ', 'txt'), (',', 'csv'), ('|', 'data'), (';', 'txt')):
    for header in (False, True):
        fn = os.path.join(d, f'table_{ord(sep)}_{header}.{ext}')
        with open(fn, 'w') as f:
            if header: f.write(sep.join(['A', 'B', 'C']) + '\\n')
            for row in data: f.write(sep.join(repr(float(x)) for x in row) + '\\n')
        for cols in ({'qe': 0, 'wavelength': 1}, {'wavelength': 1, 'qe': 0}, {'other': 2, 'qe': 0}):
            req = {k: ('ABC'[v] if header else v) for k, v in cols.items()}      # file columns are addressed by header label when there is a header
            try:
                t = load_table_v2(fn, rename_cols=req, header=header)
            except Exception as e:
                VIOLATED, DETAIL = True, f'delimiter {sep!r} header={header} rename_cols={cols}: {e!r}'; break
            for name, idx in cols.items():
                if not np.allclose(np.asarray(t[name], dtype=float), data[:, idx]):
                    VIOLATED, DETAIL = True, f'delimiter {sep!r} header={header} rename_cols={cols}: column {name!r} holds {np.asarray(t[name]).tolist()}, file column {idx} is {data[:, idx].tolist()}'; break
        t = load_table_v2(fn, header=header)
        if t.shape != (4, 3) or not np.allclose(t.to_numpy(dtype=float), data):
            VIOLATED, DETAIL = True, f'delimiter {sep!r} header={header}: table read back with shape {t.shape}'
fn = os.path.join(d, 't.npy'); np.save(fn, data)
t = load_table_v2(fn, rename_cols={'wavelength': 1, 'qe': 0, 'other': 2})
if not (np.allclose(t['qe'], data[:, 0]) and np.allclose(t['wavelength'], data[:, 1])):
    VIOLATED, DETAIL = True, 'npy table: named columns hold other file columns'
""", "expect": "load_table_v2 reads a delimited / npy table back with its shape and values; rename_cols names each requested FILE column, in whatever order they are requested"}


@unit("C20", "table.columns")
def table_columns(u: Unit):
    """load_table_v2, delimited-text branch: the reader (pandas read_csv / read_table, boundary) is asked for the FILE columns that
    rename_cols lists, with the sniffed delimiter and the header flag, and the result is that table with each requested file column
    renamed BY LABEL to the name asked for it (pandas returns usecols columns in file order, so a positional renaming is only right for
    ascending requests). Other ways of naming the columns are not recognised -> undecided, decided by the native stand-in."""
    fi = u.fn("pyxel/inputs/loader.py::load_table_v2")
    for ext, reader in ((".csv", "pandas.read_csv"), (".txt", "pandas.read_table")):
        for rename in (True, False):
            cfg = Cfg("real")
            boundary.install(cfg)
            FSM.install(cfg)
            cfg.contracts["pyxel/util/fileutil.py::resolve_with_working_directory"] = Contract("pyxel/util/fileutil.py::resolve_with_working_directory",
                                                                                                  lambda ex, args, kwargs, fr: kwargs.get("filename", args[0] if args else None), "path resolution (identity on absolute paths)")
            cfg.lib_overrides["builtins.open"] = lambda ex, f, args, kwargs, fr: VOpaque("xr", None, {"label": "file"})
            cfg.lib_overrides["io.StringIO"] = lambda ex, f, args, kwargs, fr: VOpaque("xr", None, {"label": "text buffer", "args": list(args)})
            cfg.lib_overrides["csv.Sniffer"] = lambda ex, f, args, kwargs, fr: VOpaque("sniffer", None, {})
            cfg.lib_overrides[("opaque_attr", "sniffer")] = lambda ex, obj, name, fr: VLib("sniffer." + name, obj)
            cfg.lib_overrides["sniffer.sniff"] = lambda ex, f, args, kwargs, fr: VOpaque("dialect", None, {})
            cfg.lib_overrides[("opaque_attr", "dialect")] = lambda ex, obj, name, fr: VStr(z3.String("sniffed_delimiter")) if name == "delimiter" else ex.throw("AttributeError", name)

            def setup(ex, ext=ext, rename=rename):
                ex.st.assume(z3.Or(*[z3.String("sniffed_delimiter") == z3.StringVal(s_) for s_ in ("\t", " ", ",", "|", ";")]))
                ex.st.assume(z3.And(z3.Int("col_of_wavelength") >= 0, z3.Int("col_of_qe") >= 0, z3.Int("col_of_wavelength") != z3.Int("col_of_qe")))      # two different file columns
                ex.hold = {"names": [VStr("wavelength"), VStr("qe")], "cols": [VInt(z3.Int("col_of_wavelength")), VInt(z3.Int("col_of_qe"))]}
                rc = ex.st.alloc(HDict(list(zip(ex.hold["names"], ex.hold["cols"])))) if rename else NONE
                return [VStr("/data/table" + ext)], {"rename_cols": rc, "header": VBool(z3.Bool("header"))}
            tag = f"{ext},{'rename' if rename else 'plain'}"
            ps = u.paths(fi, setup, cfg, label=f"load_table_v2[{tag}]")
            for p in ps:
                if p.kind != "return":
                    u.oblige(p, f"table.columns.no_raise[{tag}]", False, {"exc": p.exc_name()}, TABLE_REPLAY)
                    continue
                reads = [e for e in p.st.events if e[0] == "lib_call" and e[1] in ("pandas.read_csv", "pandas.read_table")]
                ok = len(reads) == 1 and reads[0][1] == reader
                kw = reads[0][3] if ok else {}
                hd = kw.get("header")
                ok = ok and isinstance(kw.get("delimiter", kw.get("sep")), VStr) and z3.eq(z_str(kw.get("delimiter", kw.get("sep")).v), z3.String("sniffed_delimiter"))
                u.oblige(p, f"table.columns.reader_of_the_suffix_with_sniffed_delimiter[{tag}]", bool(ok), {}, TABLE_REPLAY)
                if not ok:
                    continue
                table = None
                for e in p.st.events:
                    pass
                res = p.value
                if not rename:
                    # the table as read
                    plain = isinstance(res, VOpaque) and str(res.info.get("label", "")).startswith(reader)
                    u.oblige(p, f"table.columns.table_as_read[{tag}]", bool(plain), {}, TABLE_REPLAY)
                    continue
                fn_ = res.info.get("fn") if isinstance(res, VOpaque) else None
                if not (isinstance(fn_, VOpaque) and fn_.info.get("attr") == "rename" and str(fn_.info.get("of").info.get("label", "")).startswith(reader)):
                    u.undecide(f"table.columns.renamed_by_label[{tag}]", fi.qualname, f"the result is not <table read>.rename(columns=...): {str(res.info.get('label') if isinstance(res, VOpaque) else res)[:80]}")
                    continue
                m = p.ex.try_dict(res.info.get("kwargs", {}).get("columns")) or []
                good = len(m) == 2 and all(any(k is c and v is n for k, v in m) for n, c in zip(p.ex.hold["names"], p.ex.hold["cols"]))
                u.oblige(p, f"table.columns.renamed_by_label[{tag}]", bool(good), {"mapping": str([(str(k), str(v)) for k, v in m])}, TABLE_REPLAY)
            u.cover(f"table.columns.cover[{tag}]", ps, lambda p: p.kind == "return")


STANDIN = {r"table\.columns": TABLE_REPLAY}


# the persistence model loads TWO maps, each with its own position and alignment keyword: its model unit (C15w) carries the placement obligation
from . import C15w as _C15w  # noqa: E402
unit("C20", "models.persistence_maps")(_C15w.full_persistence_model)


# ---- bounded native audit: every supported storage format is read back with the same shape and values by every loader ---------------------
FORMATS_AUDIT = lambda w: {"code": """
import numpy as np, tempfile, os, warnings
from pathlib import Path
from astropy.io import fits
from pyxel.inputs import load_image, load_image_v2, load_table, load_table_v2
warnings.simplefilter('ignore')
d = Path(tempfile.mkdtemp())
VIOLATED, DETAIL = False, 'every loader reads every supported format back with the same shape and values'
arrays = [np.arange(6.0).reshape(2, 3) + 0.5, np.arange(5.0).reshape(1, 5), np.arange(4.0).reshape(4, 1) - 1.5, np.array([[7.25]]), np.arange(12.0).reshape(3, 4) * 1e3,
          np.arange(288.0).reshape(12, 24) / 8.0, np.arange(800.0).reshape(20, 40) * 0.25, np.arange(360.0).reshape(6, 60) + 0.5, np.arange(80.0).reshape(40, 2)]      # wide and long tables too
def same(got, a):
    got = np.asarray(got, dtype=float)
    return got.shape == a.shape and np.array_equal(got, a)
n = 0
for a in arrays:
    if VIOLATED: break
    files = {}
    f = d / f'a{n}.npy'; np.save(f, a); files['npy'] = f
    f = d / f'a{n}.fits'; fits.PrimaryHDU(a).writeto(f, overwrite=True); files['fits'] = f
    for tag, sep in (('tab', '\\t'), ('space', ' '), ('comma', ','), ('bar', '|'), ('semicolon', ';')):
        for suffix in ('.txt', '.data'):
            f = d / f'a{n}_{tag}{suffix}'; np.savetxt(f, a, delimiter=sep); files[tag + suffix] = f
    n += 1
    for kind, f in files.items():
        try:
            if not same(load_image(f), a):
                VIOLATED, DETAIL = True, f'load_image({kind}) of a {a.shape} array: shape {np.asarray(load_image(f)).shape}, values {np.asarray(load_image(f)).ravel()[:4]}'; break
            got2 = load_image_v2(f, rename_dims={})
            if not same(got2.values, a) or list(got2.dims) != ['y', 'x']:
                VIOLATED, DETAIL = True, f'load_image_v2({kind}) of a {a.shape} array: dims {got2.dims} shape {got2.shape}'; break
            if kind not in ('fits',):
                t = load_table(f, header=False) if kind != 'npy' else load_table(f)
                if not same(np.asarray(t), a):
                    VIOLATED, DETAIL = True, f'load_table({kind}) of a {a.shape} array: shape {np.asarray(t).shape}, values {np.asarray(t).ravel()[:4]}'; break
        except Exception as e:
            VIOLATED, DETAIL = True, f'{kind} file of a {a.shape} array: {type(e).__name__}: {e}'; break
if not VIOLATED:
    # a LARGE text image (more than a megabyte) with values that need all 17 significant digits: read back bit-identically
    big = np.random.default_rng(11).normal(size=(256, 256)) * 1e3
    for tag, sep in (('space', ' '), ('comma', ',')):
        f = d / f'big_{tag}.txt'; np.savetxt(f, big, delimiter=sep)
        got = np.asarray(load_image(f), dtype=float)
        if got.shape != big.shape or not np.array_equal(got, big):
            VIOLATED, DETAIL = True, f'load_image of a 256x256 full-precision text image ({tag}-separated, {f.stat().st_size} bytes): {int((got != big).sum()) if got.shape == big.shape else got.shape} values differ from the file'; break
""", "expect": "load_image, load_image_v2 and load_table read npy, FITS and text with the five delimiters back unchanged",
    "bound": "9 arrays (2x3, 1x5, 4x1, 1x1, 3x4, 12x24, 20x40, 6x60, 40x2) x {npy, fits, txt and data files with tab / space / comma / bar / semicolon} x 3 loaders; one 256x256 full-precision text image (1.6 MB) x 2 delimiters", "function": "pyxel/inputs/loader.py"}
AUDITS = {"formats.roundtrip": FORMATS_AUDIT}
