"""C04 — seeded runs are bit-reproducible and seeding never leaks.

Ghost RNG = abstract state of numpy's process-wide legacy generator (get_state returns it, seed(s) sets it to
seeded(s), set_state(x) sets it to x, every draw advances it).
  cm.restore            set_random_seed: with a seed, the body runs from RNG == seeded(seed) and on normal AND
                        exceptional exit RNG == old(RNG); without a seed the manager does not touch RNG.  [symbolic]
  run.restores          exposure.run_pipeline with a pipeline seed: whatever the models draw and whether they fail,
                        RNG on exit == RNG on entry, and the first step starts from seeded(pipeline_seed). [symbolic, C02 loop]
  model.frame[f]        every model function with a `seed` parameter: every call that draws from the global generator
                        (np.random.*, scipy ...rvs without random_state, repo helpers that transitively draw) is lexically
                        inside `with set_random_seed(seed)`  =>  seed given: RNG' == RNG and the draws depend on (seed, inputs)
  no_reseed             nothing in pyxel/ outside util/randomize.py leaves the generator re-seeded: a call of
                        np.random.seed must be bracketed by get_state / set_state-in-finally (or be the context manager)
  flow.*                the running mode's pipeline_seed reaches exposure.run_pipeline at every call site
  calib.island_seeds    island seeds are a function of pygmo_seed only; the global pygmo seed is set before the problem
"""
from __future__ import annotations

import ast

from pyvc import arrays
from .common import *  # noqa: F401,F403
from . import defuse as DU
from . import C02, detmodel as D
from .C20 import normalise_expr

RZ = "pyxel/util/randomize.py"
EX = "pyxel/exposure/exposure.py"
BOUNDED = {
    r'islands\.build': 'archipelagos of 1 and 3 islands (every seed)',
    r'draws_not_memoised': 'call chains inside pyxel/models up to depth 6',
}      # unit-name / obligation-name patterns -> the family these obligations are proved for
TRUSTED = ["determinism of everything that is not a random generator (numba kernels WITHOUT draws: unit numba.draws lists those with draws; dask graph construction, pygmo given its seeds)",
           "np.random.Generator objects (default_rng) are private state; on the call chain of a seeded model they must be seeded from a number (obligation model.private_generator_seeded), elsewhere (calibration start seed drawn at random when none is given) they are outside", "threads sharing the global generator (dask threaded scheduler) are outside the sequential semantics (C07)",
           "model.frame / no_reseed / flow are frame and data-flow obligations decided on the AST and call graph (no arithmetic involved)"]

SEED_REPLAY = lambda w: {"code": """
import numpy as np, pickle
from pyxel.util import set_random_seed
def state(): return pickle.dumps(np.random.get_state())
np.random.seed(123); np.random.normal()        # leaves a cached second Gaussian deviate pending in the global state
before = state()
with set_random_seed(7):
    a = np.random.random(3); np.random.normal(size=3)
ok_normal = state() == before
raised = False
try:
    with set_random_seed(7):
        b = np.random.random(3); np.random.normal(size=3); raise RuntimeError('x')
except RuntimeError:
    raised = True
ok_exc = state() == before
with set_random_seed(None):
    pass
ok_none = state() == before
raised_none = False
try:
    with set_random_seed(None):
        raise KeyError('y')
except KeyError:
    raised_none = True
VIOLATED = not (ok_normal and ok_exc and ok_none and raised and raised_none and np.array_equal(a, b))
DETAIL = f'restored after normal exit: {ok_normal}, after exception: {ok_exc}, untouched without seed: {ok_none}, same draws: {np.array_equal(a, b)}, exception of the block leaves the context: {raised} (seed) {raised_none} (no seed)'
""", "expect": "the global generator is restored on every exit; same seed, same draws; an exception raised in the block leaves the context"}


@unit("C04", "cm.restore")
def cm_restore(u: Unit):
    fi = u.fn(f"{RZ}::set_random_seed")
    cfg = Cfg("real")
    seen = {}

    def body(ex, f, args, kwargs, fr):
        seen["rng_at_body"] = arrays.rng_get(ex)
        ex.st.ghost["RNG"] = ex.st.fresh_int("rng_after_draws")       # the body draws arbitrarily
        if ex.st.choose([True, True]) == 1:
            e = VSym("exc", ex.st.fresh_int("body_exc"))
            ex.st.ghost["BODY_EXC"] = e
            raise PyExc(e)
        return NONE
    cfg.lib_overrides["harness.body"] = body
    body_ast = ast.parse("__body__()").body
    item = ast.withitem(context_expr=ast.parse("set_random_seed(seed)", mode="eval").body, optional_vars=None)
    for with_seed in (True, False):
        results = []

        def run(st, with_seed=with_seed):
            from pyvc.engine import Ex
            ex = Ex(u.world, st, cfg)
            ex.root_fn = fi
            st.ghost["RNG"] = z3.Int("RNG0")
            fr = Frame(None, fi.module, {"__body__": VLib("harness.body")})
            seed = VInt(z3.Int("seed")) if with_seed else NONE
            results.append(ex)
            try:
                ex.with_generator(VFunc(fi), [], {"seed": seed}, item, body_ast, fr)
                return "return", NONE
            except PyExc as pe:
                return "raise", pe.val
        from pyvc.state import explore
        from pyvc.verify import Path
        res = explore(run)
        paths = [Path(r.kind, r.value, ex) for r, ex in zip(res, results) if r.kind != "end"]
        u.paths_explored += len(paths)
        u.functions[fi.qualname]["paths"] += len(paths)
        for p in paths:
            tag = "seed" if with_seed else "no seed"
            rng = p.st.ghost["RNG"]
            if with_seed:
                u.oblige(p, f"cm.restore[{tag},{p.kind}]", rng == z3.Int("RNG0"), {}, SEED_REPLAY, fnq=fi.qualname)
                u.oblige(p, f"cm.body_runs_seeded[{p.kind}]", seen["rng_at_body"] == arrays.rng_seeded(z3.Int("seed")), {}, SEED_REPLAY, fnq=fi.qualname)
            else:
                # without a seed nothing is saved or restored: the generator is exactly what the body left
                u.oblige(p, f"cm.untouched[{tag},{p.kind}]", z3.And(seen["rng_at_body"] == z3.Int("RNG0"), zb(not any(e[0] in ("rng_seed", "rng_set_state") for e in p.st.events))),
                         {}, SEED_REPLAY, fnq=fi.qualname)
            e = p.st.ghost.get("BODY_EXC")
            if p.kind == "raise":
                u.oblige(p, f"cm.transparent[{tag}]", bool(isinstance(p.value, VSym) and e is not None and z3.eq(p.value.t, e.t)), {}, SEED_REPLAY, fnq=fi.qualname)
            else:
                # a block that raised never ends in a normal exit of the with-statement (C09: nothing between the model and the caller swallows it)
                u.oblige(p, f"cm.block_exception_not_swallowed[{tag}]", e is None, {"block": "raised", "with-statement": "completed normally"}, SEED_REPLAY, fnq=fi.qualname)
        u.cover(f"cm.cover[{with_seed}]", paths, lambda p: p.kind == "return")
        u.cover(f"cm.cover_exc[{with_seed}]", paths, lambda p: p.kind == "raise")


@unit("C04", "run.restores")
def run_restores(u: Unit):
    """exposure.run_pipeline with a pipeline seed: the whole run happens inside set_random_seed(pipeline_seed)."""
    cfg, fi = C02.exposure_cfg(u, may_raise=True)
    base = cfg.contracts["pyxel/pipelines/processor.py::Processor.run_pipeline"]
    first = {}

    def models_draw(ex, args, kwargs, fr):
        first.setdefault("rng_at_first_call", arrays.rng_get(ex))
        ex.st.ghost["RNG"] = ex.st.fresh_int("rng_after_models")
        return base.apply(ex, args, kwargs, fr)
    cfg.contracts[base.qualname] = Contract(base.qualname, models_draw, "models draw arbitrarily from the global generator")
    rp = lambda w: {"code": """
import numpy as np, pickle, verif_probes as VP
from pyxel.pipelines import DetectionPipeline, ModelFunction, Processor
from pyxel.exposure import Readout, run_pipeline
def run(fail):
    det = VP.detector()
    pipe = DetectionPipeline(photon_collection=[ModelFunction(func='verif_probes.draws', name='d', arguments={'fail': fail})])
    return run_pipeline(processor=Processor(detector=det, pipeline=pipe), readout=Readout(times=[1.0, 2.0]), outputs=None, debug=False, with_inherited_coords=False, pipeline_seed=11)
np.random.seed(5); before = pickle.dumps(np.random.get_state())
r1 = run(False); ok1 = pickle.dumps(np.random.get_state()) == before
np.random.seed(99); r2 = run(False)
try: run(True)
except VP.ProbeError: pass
np.random.seed(5); np.random.random()
VIOLATED = not ok1 or not np.array_equal(np.array(r1['photon']), np.array(r2['photon']))
DETAIL = f'generator restored: {ok1}; two seeded runs from different generator states equal: {np.array_equal(np.array(r1["photon"]), np.array(r2["photon"]))}'
""", "expect": "seeded exposures do not depend on nor perturb the process-wide generator"}
    u.internal_replay, u.internal_witness = rp, {}

    def setup(ex):
        first.clear()
        args, kw = C02.exposure_setup(u, ex, True)
        kw["pipeline_seed"] = VInt(z3.Int("pipeline_seed"))
        ex.st.ghost["RNG"] = z3.Int("RNG0")
        return args, kw
    ps = u.paths(fi, setup, cfg, max_paths=400, label="exposure.run_pipeline[seeded]")
    for p in ps:
        u.oblige(p, f"run.restores[{p.kind}]", p.st.ghost["RNG"] == z3.Int("RNG0"), {}, rp)
    u.cover("run.restores.cover", ps, lambda p: p.kind == "return")
    u.cover("run.restores.cover_exc", ps, lambda p: p.kind == "raise")
    # structural: the seed context spans the whole function body
    body = [s for s in fi.node.body if not (isinstance(s, ast.Expr) and isinstance(s.value, ast.Constant)) and not isinstance(s, (ast.Import, ast.ImportFrom))]
    ok = len(body) == 2 and isinstance(body[0], ast.With) and ast.unparse(body[0].items[0].context_expr).replace(" ", "") == "set_random_seed(seed=pipeline_seed)" and isinstance(body[1], ast.Return)
    u.static("run.whole_body_seeded", ok, fi.qualname, "run_pipeline = imports; with set_random_seed(seed=pipeline_seed): <everything>; return")


# ---- frame inference over the models ------------------------------------------------------------------------------
DRAWS = {"random", "rand", "randn", "randint", "normal", "poisson", "binomial", "uniform", "choice", "standard_normal", "exponential", "gamma", "shuffle", "permutation",
         "random_sample", "lognormal", "multivariate_normal", "laplace", "triangular", "rvs"}


def is_global_draw(call: ast.Call):
    f = ast.unparse(call.func)
    if f.startswith(("np.random.", "numpy.random.")) and f.split(".")[-1] in DRAWS:
        return f
    if f.endswith(".rvs") and not any(k.arg == "random_state" for k in call.keywords):
        return f
    return None


def draw_sites(world, fi, inside_with=False, depth=0, seen=None):
    """(description, guarded) for every global-generator draw reachable from fi; guarded = lexically inside
    `with set_random_seed(...)` somewhere on the call chain."""
    seen = seen if seen is not None else set()
    if (fi.qualname, inside_with) in seen or depth > 6:
        return []
    seen.add((fi.qualname, inside_with))
    out = []

    def walk(nodes, guarded):
        for n in nodes:
            if isinstance(n, ast.With) and any(ast.unparse(it.context_expr).startswith("set_random_seed(") for it in n.items):
                walk(n.body, True)
                continue
            for c in ast.iter_child_nodes(n):
                if isinstance(c, (ast.FunctionDef, ast.Lambda, ast.ClassDef)):
                    continue
            if isinstance(n, ast.Call):
                d = is_global_draw(n)
                if d:
                    out.append((f"{fi.name}:{n.lineno} {d}", guarded))
                elif isinstance(n.func, ast.Name):
                    r = world.resolve(fi.module, n.func.id)
                    if r and r[0] == "function" and r[1].module.relpath.startswith("pyxel/models/"):
                        out.extend((f"{fi.name} -> {s}", g or guarded) for s, g in draw_sites(world, r[1], guarded, depth + 1, seen))
            walk(list(ast.iter_child_nodes(n)), guarded)
    walk(fi.node.body, inside_with)
    return out


def drawing_functions(world, fi, depth=0, seen=None) -> list:
    """fi and the pyxel/models functions reachable from it (by name) that draw from the global generator, directly or through a callee"""
    seen = seen if seen is not None else {}
    if fi.qualname in seen:
        return seen[fi.qualname]
    seen[fi.qualname] = []
    out, draws = [], False
    for n in ast.walk(fi.node):
        if isinstance(n, ast.Call):
            if is_global_draw(n):
                draws = True
            elif isinstance(n.func, ast.Name) and depth < 6:
                r = world.resolve(fi.module, n.func.id)
                if r and r[0] == "function" and r[1].module.relpath.startswith("pyxel/models/"):
                    sub = drawing_functions(world, r[1], depth + 1, seen)
                    if sub:
                        draws = True
                        out.extend(x for x in sub if x not in out)
    if draws:
        out.insert(0, fi)
    seen[fi.qualname] = out
    return out


def memo_decorators(fi) -> list:
    return [ast.unparse(d) for d in fi.node.decorator_list if any(w in ast.unparse(d).lower() for w in ("cache", "memo"))]


PRIVATE_GENERATORS = ("default_rng", "RandomState", "Generator", "SeedSequence", "PCG64", "MT19937", "Philox", "SFC64")


def private_generators(world, fi, depth=0, seen=None) -> list:
    """(function, line, source of the seed argument | None) for every construction of a private random generator reachable (by name,
    inside pyxel/models) from fi: np.random.default_rng(x), RandomState(x), random.Random(x) ... With x absent or None the generator is
    seeded from operating-system entropy, whatever seed context surrounds the call."""
    seen = seen if seen is not None else set()
    if fi.qualname in seen or depth > 6:
        return []
    seen.add(fi.qualname)
    out = []
    for n in ast.walk(fi.node):
        if not isinstance(n, ast.Call):
            continue
        f = ast.unparse(n.func)
        last = f.split(".")[-1]
        if (last in PRIVATE_GENERATORS and ("random" in f or f == last)) or f in ("random.Random", "Random"):
            arg = n.args[0] if n.args else next((k.value for k in n.keywords if k.arg in ("seed", "x", "entropy")), None)
            out.append((fi, n.lineno, None if arg is None else DU.norm(fi.node, arg), f))
        elif isinstance(n.func, ast.Name):
            r = world.resolve(fi.module, n.func.id)
            if r and r[0] == "function" and r[1].module.relpath.startswith("pyxel/models/"):
                out.extend(private_generators(world, r[1], depth + 1, seen))
    return out


def seed_never_absent(src, fi=None) -> bool | None:
    """True: the seed expression is a number for every input; False: it can be None / is missing; None: not decided on the text"""
    if src is None or src == "None":
        return False
    if fi is not None and src.isidentifier():
        a = fi.node.args
        params = a.posonlyargs + a.args + a.kwonlyargs
        defaults = dict(zip([x.arg for x in (a.posonlyargs + a.args)][::-1], a.defaults[::-1]))
        defaults.update({x.arg: d for x, d in zip(a.kwonlyargs, a.kw_defaults) if d is not None})
        for x in params:
            if x.arg == src:
                ann = ast.unparse(x.annotation) if x.annotation is not None else ""
                d = defaults.get(src)
                if "None" in ann or "Optional" in ann or (isinstance(d, ast.Constant) and d.value is None):
                    return False              # an OPTIONAL seed parameter handed on as it is: None means entropy
                return None
    try:
        v = ast.literal_eval(src)
        return isinstance(v, int) and not isinstance(v, bool)
    except Exception:
        pass
    if src.startswith(("np.random.randint(", "numpy.random.randint(", "int(np.random.", "np.random.integers(")):
        return True                       # drawn from the (seeded) process-wide generator: a function of the surrounding seed
    return None


PRIVATE_REPLAYS = {"charge_deposition": lambda w: {"code": """
import numpy as np, tempfile, warnings, pyxel
from pathlib import Path
from pyxel.detectors import CCD, CCDGeometry, Characteristics, Environment
from pyxel.exposure import Exposure, Readout
from pyxel.pipelines import DetectionPipeline, ModelFunction
warnings.filterwarnings('ignore')
DATA = Path(pyxel.__file__).parent / 'models' / 'charge_generation' / 'data'
d = Path(tempfile.mkdtemp()); en = np.logspace(0.0, 3.0, 40); np.savetxt(d / 'spectrum.txt', np.column_stack([en, 1.0 / en]), header='energy flux')
def run(spectrum, sampling, model_seed, prior):
    np.random.seed(prior)
    det = CCD(geometry=CCDGeometry(row=20, col=20, total_thickness=40.0, pixel_vert_size=10.0, pixel_horz_size=10.0), environment=Environment(temperature=200.0), characteristics=Characteristics(full_well_capacity=1000000))
    pipe = DetectionPipeline(charge_generation=[ModelFunction(func='pyxel.models.charge_generation.charge_deposition', name='charge_deposition', arguments={
        'flux': 30.0, 'step_size': 1.0, 'energy_mean': 100.0, 'energy_spread': 10.0, 'energy_spectrum': spectrum, 'energy_spectrum_sampling': sampling,
        'stopping_power_curve': str(DATA / 'protons-in-silicon_stopping-power.csv'), 'seed': model_seed})],
        charge_collection=[ModelFunction(func='pyxel.models.charge_collection.simple_collection', name='simple_collection')])
    r = pyxel.run_mode(mode=Exposure(readout=Readout(times=[1.0]), pipeline_seed=11), detector=det, pipeline=pipe)
    return np.array(r['pixel'].to_numpy(), copy=True)
VIOLATED, DETAIL = False, 'a run seeded only through the pipeline seed is bit-identical whatever the process-wide generator held before'
for spectrum, sampling in ((None, 'log'), (str(d / 'spectrum.txt'), 'log'), (str(d / 'spectrum.txt'), 'linear')):
    a, b = run(spectrum, sampling, None, 1), run(spectrum, sampling, None, 2024)
    if a.sum() == 0 or not np.array_equal(a, b):
        VIOLATED, DETAIL = True, f'charge_deposition(energy_spectrum={"file" if spectrum else None}, sampling={sampling}) under pipeline_seed=11 and no model seed: two runs differ in {int((a != b).sum())} pixels (sums {a.sum():.3f} / {b.sum():.3f})'
        break
""", "expect": "every draw of a seeded run comes from the seeded process-wide generator or from a generator seeded from it"}}


FRAME_REPLAYS = {"radiation_induced_dark_current": lambda w: {"code": """
import numpy as np, pickle, warnings
from pyxel.detectors import CCD, CCDGeometry, Characteristics, Environment, ReadoutProperties
from pyxel.models.charge_generation import radiation_induced_dark_current
warnings.simplefilter('ignore')
def run(seed, prior, shot_noise):
    np.random.seed(prior); np.random.random(prior % 7)
    det = CCD(geometry=CCDGeometry(row=16, col=16, total_thickness=40.0, pixel_vert_size=10.0, pixel_horz_size=10.0), environment=Environment(temperature=240.0), characteristics=Characteristics())
    det._readout_properties = ReadoutProperties(times=[100.0])
    before = pickle.dumps(np.random.get_state())
    radiation_induced_dark_current(detector=det, depletion_volume=64.0, annealing_time=0.1, displacement_dose=500.0, shot_noise=shot_noise, seed=seed)
    return np.array(det.charge.array, copy=True), pickle.dumps(np.random.get_state()) == before
VIOLATED, DETAIL = False, 'the model draws only inside its seed context: same seed, same charge; the process-wide generator is left as it was'
for shot_noise in (False, True):
    for seed in (0, 42):
        (a, ra), (b, rb) = run(seed, 3, shot_noise), run(seed, 2024, shot_noise)
        if not np.array_equal(a, b) or not (ra and rb):
            VIOLATED, DETAIL = True, f'shot_noise={shot_noise}, seed={seed}: {int((a != b).sum())} pixels differ between two runs from different generator states; generator restored: {ra and rb}'; break
    if VIOLATED: break
""", "expect": "every draw of the model happens inside `with set_random_seed(seed)`"}}


FRAME_REPLAYS["cosmix"] = lambda w: {"code": """
import numpy as np, os, pickle, tempfile, warnings
from pyxel.detectors import CCD, CCDGeometry, Characteristics, Environment
from pyxel.models.charge_generation import cosmix
warnings.simplefilter('ignore')
tmp = tempfile.mkdtemp(); os.chdir(tmp)                      # the model writes its step-size tables under ./data
with open(os.path.join(tmp, 'spectrum.txt'), 'w') as fh:
    fh.write('# energy flux\\n' + ''.join(f'{e} 1.0\\n' for e in (50.0, 100.0, 150.0, 200.0)))
def run(prior, step):
    np.random.seed(prior); np.random.normal(size=3)
    det = CCD(geometry=CCDGeometry(row=8, col=8, pixel_horz_size=10.0, pixel_vert_size=10.0, total_thickness=40.0), environment=Environment(), characteristics=Characteristics())
    det.set_readout(times=[1.0, 5.0, 7.0], non_destructive=False)
    det.time_step = step
    before = pickle.dumps(np.random.get_state())
    cosmix(detector=det, simulation_mode='cosmic_ray', running_mode='stepsize', particle_type='proton', initial_energy=100.0, particles_per_second=100.0,
           spectrum_file=os.path.join(tmp, 'spectrum.txt'), seed=1234, progressbar=False)
    return det.charge.frame.to_numpy(dtype=float), pickle.dumps(np.random.get_state()) == before
VIOLATED, DETAIL = False, 'cosmix(seed=...) draws only inside its seed context: same seed, same clusters; the process-wide generator is left as it was'
for step in (0.02, 0.025, 0.0333):                            # 2, 2.5 and 3.33 particles expected in the step
    outs = [run(1000 + k, step) for k in range(6)]
    if not all(r for _, r in outs):
        VIOLATED, DETAIL = True, f'time step {step} ({100 * step} particles expected): the process-wide generator is not restored after the seeded model'; break
    if any(o.shape != outs[0][0].shape or not np.array_equal(o, outs[0][0]) for o, _ in outs[1:]):
        VIOLATED, DETAIL = True, f'time step {step} ({100 * step} particles expected): cosmix(seed=1234) gives {sorted({len(o) for o, _ in outs})} clusters depending on the generator state before the call'; break
""", "expect": "every draw of cosmix happens inside `with set_random_seed(seed)`, whatever the expected particle count"}


MEMO_REPLAYS = {"fixed_pattern_noise": lambda w: {"code": """
import numpy as np, verif_probes as VP
from pyxel.models.charge_collection import fixed_pattern_noise
def run(seed, noise_before):
    np.random.seed(noise_before); np.random.random(noise_before)          # arbitrary earlier use of the process-wide generator
    det = VP.detector(rows=4, cols=5, quantum_efficiency=0.8)
    det.pixel.array = np.full((4, 5), 100.0)
    fixed_pattern_noise(det, fixed_pattern_noise_factor=0.05, seed=seed)
    return det.pixel.array.copy()
a1, b, a2 = run(1, 3), run(2, 4), run(1, 5)
VIOLATED = not np.array_equal(a1, a2) or np.array_equal(a1, b)
DETAIL = f'seed 1 twice gives the same map: {np.array_equal(a1, a2)}; seed 2 after seed 1 gives the map of seed 1 (what was drawn depends on the earlier call): {np.array_equal(a1, b)}'
""", "expect": "the draws of a seeded model are a function of its seed alone, whatever ran before"}}


@unit("C04", "model.frame")
def model_frame(u: Unit):
    n = 0
    for mi in u.world.all_modules():
        if not mi.relpath.startswith("pyxel/models/"):
            continue
        for fn in mi.functions.values():
            params = [a.arg for a in fn.node.args.args + fn.node.args.kwonlyargs]
            if "seed" not in params or "detector" not in params:
                continue
            n += 1
            u.functions.setdefault(fn.qualname, {"sha": fn.sha, "file_sha": mi.sha, "paths": 0, "obligations": 0, "role": "under contract"})
            sites = draw_sites(u.world, fn)
            bad = [s for s, g in sites if not g]
            def seeds_with_param(it):
                c = it.context_expr
                if not (isinstance(c, ast.Call) and ast.unparse(c.func).split(".")[-1] == "set_random_seed"):
                    return False
                arg = c.args[0] if c.args else next((k.value for k in c.keywords if k.arg == "seed"), None)
                return arg is not None and DU.norm(fn.node, arg) == "seed"          # the model's own `seed` parameter, through locals
            withs = [w for w in ast.walk(fn.node) if isinstance(w, ast.With) and any(seeds_with_param(it) for it in w.items)]
            u.static(f"model.frame[{fn.name}]", not bad and len(withs) >= 1, fn.qualname,
                     f"{len(sites)} global draws, unguarded: {bad}; `with set_random_seed(seed)` blocks: {len(withs)}", witness={"function": fn.name, "unguarded": bad},
                     replay=FRAME_REPLAYS.get(fn.name, lambda w, mod=mi.name, name=fn.name: {"code": f"""
VIOLATED, DETAIL = False, 'structural obligation: a draw outside the seed context in {mod}.{name} (see witness)'
""", "expect": "draws inside the seed context"}))
            # what a seeded model draws must be a function of (seed, arguments): a memoised drawing function returns the draws of
            # an EARLIER call (made under another seed) on a cache hit, and draws nothing
            memo = [(f.qualname, d) for f in drawing_functions(u.world, fn) for d in memo_decorators(f)]
            glob = [f.qualname for f in drawing_functions(u.world, fn) if any(isinstance(x, (ast.Global, ast.Nonlocal)) for x in ast.walk(f.node))]
            u.static(f"model.draws_not_memoised[{fn.name}]", not memo and not glob, fn.qualname,
                     f"drawing functions on the chain: {[f.name for f in drawing_functions(u.world, fn)]}; memoised: {memo}; writing global names: {glob}",
                     witness={"function": fn.name, "memoised": [m[0] for m in memo]}, replay=MEMO_REPLAYS.get(fn.name, lambda w, name=fn.name: {"code": f"""
VIOLATED, DETAIL = False, 'structural obligation: a function that draws random numbers for {name} is memoised (see witness); no prepared scenario for this model'
""", "expect": "drawing functions are not memoised"}))
            # private generators: seeded from entropy unless given a number — inside a seed context they escape the seed
            for gfi, line, src, ctor in private_generators(u.world, fn):
                verdict = seed_never_absent(src, gfi)
                nm = f"model.private_generator_seeded[{fn.name}:{gfi.name}:{line}]"
                if verdict is None:
                    u.undecide(nm, gfi.qualname, f"{ctor}({src}): cannot tell from the text whether the seed can be absent")
                else:
                    u.static(nm, verdict, gfi.qualname, f"{ctor}({src}) in {gfi.name}: " + ("a number for every input" if verdict else "absent or possibly None (e.g. the model's own optional seed): seeded from OS entropy, "
                             "the draws ignore a pipeline seed"), witness={"function": gfi.name, "line": line, "seed": src},
                             replay=PRIVATE_REPLAYS.get(fn.name, lambda w, name=fn.name: {"code": f"VIOLATED, DETAIL = False, 'structural obligation: entropy-seeded private generator on the chain of {name} (see witness); no prepared scenario'", "expect": "private generators are seeded from the seed context"}))
    u.guard("model.frame.cover", n >= 10, "", f"{n} model functions with a seed parameter found by scanning pyxel/models")


@unit("C04", "no_reseed")
def no_reseed(u: Unit):
    sites = []
    for mi in u.world.all_modules():
        if mi.relpath == RZ:
            continue
        fns = list(mi.functions.values()) + [m for c in mi.classes.values() for m in c.methods.values()]
        for fn in fns:
            for nd in ast.walk(fn.node):
                if isinstance(nd, ast.Call) and ast.unparse(nd.func) in ("np.random.seed", "numpy.random.seed", "random.seed"):
                    src = ast.unparse(fn.node)
                    bracketed = "get_state()" in src and any(isinstance(t, ast.Try) and any("set_state" in ast.unparse(s) for s in t.finalbody) for t in ast.walk(fn.node))
                    sites.append((fn.qualname, nd.lineno, bracketed))
    for q, line, ok in sites:
        u.static(f"no_reseed[{q.split('::')[1]}:{line}]", ok, q, f"np.random.seed at line {line} " + ("is bracketed by get_state / set_state-in-finally" if ok else "leaves the process-wide generator re-seeded"),
                 witness={"function": q, "line": line}, replay=lambda w, q=q: {"code": """
import numpy as np, pickle
from pyxel.detectors import MKID, MKIDGeometry, Characteristics, Environment
from pyxel.models.phasing import pulse_processing
det = MKID(geometry=MKIDGeometry(row=2, col=2), environment=Environment(), characteristics=Characteristics())
det.photon.array = np.ones((2, 2)); det.phase.array = np.ones((2, 2))
np.random.seed(1234); before = pickle.dumps(np.random.get_state())
try:
    pulse_processing(det, wavelength=600.0, responsivity=1.0, scaling_factor=2.5e2)
except Exception as e:
    pass
VIOLATED = pickle.dumps(np.random.get_state()) != before
DETAIL = 'process-wide generator changed by the model: ' + repr(VIOLATED)
""", "expect": "a model never leaves the generator re-seeded"})
    u.static("no_reseed.cover", True, "", f"{len(sites)} direct np.random.seed call sites outside util/randomize.py")


NUMBA_REPLAY = lambda w: {"code": """
import numpy as np
from pyxel.detectors import CCD, CCDGeometry, Characteristics, Environment
from pyxel.pipelines import DetectionPipeline, ModelFunction, Processor
from pyxel.exposure import Readout, run_pipeline
WHERE = %r
def run(model, args, rows=4, cols=4, bucket='pixel'):
    det = CCD(geometry=CCDGeometry(row=rows, col=cols), environment=Environment(), characteristics=Characteristics())
    groups = dict(photon_collection=[ModelFunction(func='pyxel.models.photon_collection.illumination', name='ill', arguments={'level': 50.0})],
        charge_generation=[ModelFunction(func='pyxel.models.charge_generation.simple_conversion', name='sc', arguments={'quantum_efficiency': 1.0, 'binomial_sampling': False})],
        charge_collection=[ModelFunction(func='pyxel.models.charge_collection.simple_collection', name='col')])
    group = 'photon_collection' if '.photon_collection.' in model else ('charge_generation' if '.charge_generation.' in model else 'charge_transfer')
    groups.setdefault(group, [])
    groups[group] = groups[group] + [ModelFunction(func=model, name='m', arguments=args)]
    r = run_pipeline(processor=Processor(detector=det, pipeline=DetectionPipeline(**groups)), readout=Readout(times=[1.0]), outputs=None, pipeline_seed=1234, debug=False, with_inherited_coords=False)
    return np.array(r[bucket]).copy()
SCEN = {'emccd_poisson.py': [('pyxel.models.charge_transfer.multiplication_register', {'total_gain': 100, 'gain_elements': 10}, 4, 4)],
        'emccd_poisson_cic.py': [('pyxel.models.charge_transfer.multiplication_register_cic', {'total_gain': 100, 'gain_elements': 10, 'pcic_rate': 0.1, 'scic_rate': 0.01}, 4, 4)],
        'shot_noise.py': [('pyxel.models.photon_collection.shot_noise', {'type': 'poisson'}, 4, 4), ('pyxel.models.photon_collection.shot_noise', {'type': 'poisson'}, 2064, 2064)]}
VIOLATED, DETAIL = False, 'no prepared scenario for ' + WHERE
for key, scen in SCEN.items():
    if key in WHERE:
        DETAIL = 'seeded pipelines through ' + key + ' are reproducible'
        for model, args, rows, cols in scen:
            a, b = run(model, args, rows, cols), run(model, args, rows, cols)
            if not np.array_equal(a, b):
                VIOLATED, DETAIL = True, f'pipeline_seed=1234, model {model} on a {rows}x{cols} detector, run twice in one process: pixel {a.ravel()[:3]} vs {b.ravel()[:3]} ({int((a != b).sum())} pixels differ)'
""" % (w.get("function", ""),), "expect": "with a pipeline seed, repeating the run gives identical results (draws made inside numba-compiled code follow numba's own generator, which numpy.random.seed does not reach)"}


@unit("C04", "numba.draws")
def numba_draws(u: Unit):
    """Draws made INSIDE numba-compiled functions (numpy.random.* under @numba.njit / jit) come from numba's own per-thread generator: neither
    numpy.random.seed nor set_state (the seed context) reaches it. Every such function is a draw site that a pipeline seed does not govern:
    one obligation per site (the premise 'numba kernels are deterministic' of the other C04 units is checked here, not assumed). A site
    that seeds numba's generator itself inside the compiled code (np.random.seed(value) there, single-threaded kernel) is accepted."""
    n = 0
    for mi in u.world.all_modules():
        fns = list(mi.functions.values()) + [m for c in mi.classes.values() for m in c.methods.values()]
        for fn in fns:
            if not any(("jit" in d or "numba" in d) for d in fn.decorators):
                continue
            n += 1
            draws = sorted({ast.unparse(c.func) for c in ast.walk(fn.node) if isinstance(c, ast.Call) and ast.unparse(c.func).startswith(("np.random.", "numpy.random.", "random."))
                            and not ast.unparse(c.func).endswith(".seed")})
            seeds = [c for c in ast.walk(fn.node) if isinstance(c, ast.Call) and ast.unparse(c.func) in ("np.random.seed", "numpy.random.seed")]
            if not draws:
                continue
            u.functions.setdefault(fn.qualname, {"sha": fn.sha, "file_sha": fn.module.sha, "paths": 0, "obligations": 0, "role": "under contract"})
            tag = f"{mi.relpath.split('/')[-1]}::{fn.name}"
            u.static(f"numba.draws_follow_the_seed[{tag}]", bool(seeds) and not any("parallel=True" in d for d in fn.decorators), fn.qualname, f"{', '.join(draws)} inside a numba-compiled function: drawn from numba's generator, not from the seeded numpy generator",
                     witness={"function": fn.qualname, "draws": draws}, replay=NUMBA_REPLAY)
    u.guard("numba.draws.cover", n >= 5, "", f"{n} numba-compiled functions scanned")


@unit("C04", "flow")
def flow(u: Unit):
    """pipeline_seed data flow: every call of exposure.run_pipeline / ModelFittingDataTree(...) passes the running
    mode's pipeline seed (def-use normalised call-argument obligations)."""
    sites = [
        ("exposure", "pyxel/exposure/exposure.py::Exposure.run_exposure", "run_pipeline", ["self.pipeline_seed", "self._pipeline_seed"]),
        ("observation_seq", "pyxel/observation/observation.py::Observation._run_single_pipeline", "run_pipeline", ["self.pipeline_seed", "self._pipeline_seed"]),
        ("observation_dask.entry", "pyxel/observation/observation.py::Observation.run_pipelines", "run_pipelines_with_dask", ["self.pipeline_seed", "self._pipeline_seed"]),
        ("observation_dask.task", "pyxel/observation/observation_dask.py::_run_pipelines_array_to_datatree", "run_pipeline", ["pipeline_seed"]),
        ("calibration.apply", "pyxel/calibration/fitting_datatree.py::ModelFittingDataTree._apply_parameters", "run_pipeline", ["self.pipeline_seed"]),
        ("calibration", "pyxel/calibration/calibration.py::Calibration.run_calibration", "ModelFittingDataTree", ["self.pipeline_seed", "self._pipeline_seed"]),
    ]
    rp = lambda w: {"code": """
import inspect
from pyxel.calibration import Calibration
from pyxel.calibration import fitting_datatree as FD
seen = {}
orig = FD.ModelFittingDataTree.__init__
src = inspect.getsource(Calibration.run_calibration)
VIOLATED = 'pipeline_seed=self.pipeline_seed' not in src.replace(' ', '').replace('\\n', '') and 'pipeline_seed=self._pipeline_seed' not in src.replace(' ', '')
DETAIL = 'Calibration.run_calibration builds ModelFittingDataTree without pipeline_seed: the fitting problem runs unseeded exposures'
""", "expect": "the calibration's pipeline seed reaches the fitting problem"}
    for label, qual, callee, want in sites:
        fn = u.fn(qual)
        calls = [n for n in ast.walk(fn.node) if isinstance(n, ast.Call) and ast.unparse(n.func).split(".")[-1] == callee]
        got = [normalise_expr(fn.node, c.keywords, "pipeline_seed") for c in calls]
        u.static(f"flow.{label}", len(calls) >= 1 and all(g in want for g in got), fn.qualname, f"{callee}(pipeline_seed=...) receives {got}", witness={"site": label, "got": got}, replay=rp)
    # the dask wrapper forwards its own parameter to the task function (kwargs of apply_ufunc and the metadata run)
    fn = u.fn("pyxel/observation/observation_dask.py::run_pipelines_with_dask")
    cs = DU.calls(fn.node, "apply_ufunc")
    kd = DU.dict_arg(fn.node, next((k.value for k in cs[0].keywords if k.arg == "kwargs"), None)) if len(cs) == 1 else None
    first = DU.calls(fn.node, "_run_pipelines_array_to_datatree")
    ok_first = all(DU.kw_args(fn.node, c).get("pipeline_seed") == "pipeline_seed" for c in first)
    u.static("flow.observation_dask.forward", kd is not None and kd.get("pipeline_seed") == "pipeline_seed" and ok_first, fn.qualname,
             f"run_pipelines_with_dask forwards pipeline_seed to the task function: kwargs={kd}")


# the calibration problem keeps the seed it is given and hands it to every exposure it runs: symbolic execution of the real
# constructor and fitness method (units shared with C11)
from . import C11 as _C11  # noqa: E402
unit("C04", "calib.problem_keeps_seed")(_C11.init_unit)
unit("C04", "calib.fitness_uses_seed")(_C11.fitness_sum)


@unit("C04", "calib.island_seeds")
def island_seeds(u: Unit):
    fb = u.fn("pyxel/calibration/archipelago_datatree.py::ArchipelagoDataTree._build")
    # every binding of the seed list that is not the all-None list draws from default_rng(seed=self.pygmo_seed), once per island
    maps = [c for c in ast.walk(fb.node) if isinstance(c, ast.Call) and (ast.unparse(c.func) == "map" or ast.unparse(c.func).endswith(".map")) and len(c.args) == 2
            and ast.unparse(c.args[0]) == "create_island"]
    names = {ast.unparse(c.args[1]) for c in maps}
    binds = []
    for n in ast.walk(fb.node):
        if isinstance(n, (ast.Assign, ast.AnnAssign)) and n.value is not None:
            tgt = n.targets[0] if isinstance(n, ast.Assign) else n.target
            if isinstance(tgt, ast.Name) and tgt.id in names:
                binds.append(DU.norm(fb.node, n.value))
    seeded = [b for b in binds if "None" not in b]
    ok = len(maps) >= 1 and len(names) == 1 and len(seeded) >= 1 and all(
        "np.random.default_rng(seed=self.pygmo_seed).integers(" in b and b.endswith("inrange(self.num_islands)]") for b in seeded)
    u.static("calib.island_seeds", ok, fb.qualname, "island seeds = default_rng(pygmo_seed).integers(...), mapped in order (executor.map is order-preserving)")
    fc = u.fn("pyxel/calibration/calibration.py::Calibration.run_calibration")
    gs = DU.calls(fc.node, "set_global_rng_seed")
    mk = DU.calls(fc.node, "ModelFittingDataTree")
    seed_of = lambda c: (DU.kw_args(fc.node, c).get("seed") or (DU.pos_args(fc.node, c) or [None])[0])
    ok2 = len(gs) >= 1 and len(mk) >= 1 and all(seed_of(c) in ("self.pygmo_seed", "self._pygmo_seed") for c in gs) and all(DU.before(gs[0], m) for m in mk)
    u.static("calib.global_seed_first", ok2, fc.qualname, "pg.set_global_rng_seed(self.pygmo_seed) precedes the creation of the problem and archipelago")


from . import calibreport as _CRc  # noqa: E402
unit("C04", "calib.ctor")(_CRc.calibration_ctor_unit)      # Calibration.__init__ keeps the seeds / settings it is given (0 included)
unit("C04", "calib.island_build")(_CRc.build_unit)         # _build executed: island k gets the k-th draw of default_rng(pygmo_seed), 0 is a seed
unit("C04", "mode.ctor")(_CRc.mode_ctor_unit)              # Exposure / Observation keep the pipeline seed they are given (0 included)
unit("C04", "calib.archipelago_ctor")(_CRc.archipelago_ctor_unit)   # the archipelago keeps the optimiser seed / settings it builds the islands from
