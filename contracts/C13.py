"""C13 — data buckets only ever hold arrays of the detector's shape and unit type.

Representation invariant (from the statement):
  rep(c) :=  c._array is None
          or ndarray with shape == (rows, cols) and dtype in allowed(kind)
          or (Photon only) 3-D DataArray with dims (wavelength, y, x), y/x sizes == (rows, cols), float dtype
  allowed: float16/32/64 for photon, pixel, signal, phase; uint8/16/32/64 for image.
Every public operation started in a rep-state ends in a rep-state on normal AND exceptional exit, so
any operation sequence preserves rep by induction (the "whatever sequence" quantifier).
Inputs: ndarray of symbolic shape (ndim 0..3) and symbolic dtype, DataArray, None, scalar, list.
"""
from __future__ import annotations

from pyvc import arrays
from .common import *  # noqa: F401,F403

DS = "pyxel/data_structure/"
GEO = "pyxel/detectors/geometry.py::Geometry"
FLOATS = ("float16", "float32", "float64")
UINTS = ("uint8", "uint16", "uint32", "uint64")
CONTAINERS = [
    (DS + "pixel.py", "Pixel", FLOATS, "pixel"),
    (DS + "signal.py", "Signal", FLOATS, "signal"),
    (DS + "image.py", "Image", UINTS, "image"),
    (DS + "phase.py", "Phase", FLOATS, "phase"),
]
VALUE_KINDS = ["nd0", "nd1", "nd2", "nd3", "none", "float", "list", "xr"]
TRUSTED = [
    "numpy in-place ufuncs keep shape and dtype and either complete or raise with the operand unchanged",
    "ndarray inputs are case-split over ndim 0..3 (ndim > 3 behaves as 3: shape tuple of another length)",
    "xr.DataArray inputs are abstract objects with symbolic dtype/ndim/dims/sizes/coords; copy()/clip() keep them",
]
EXPLANATION = "Array contents are pointwise terms; shapes and dtypes of inputs are symbolic."

ROWS, COLS = z3.Int("rows"), z3.Int("cols")


# ---- abstract xr.DataArray -----------------------------------------------------------------------
def mk_xr(ex, name, valid=False, nonneg=None):
    st = ex.st
    info = {"type": "xarray.DataArray",
            "dtype": VDtype(z3.Int(name + "_dtype")), "ndim": z3.Int(name + "_ndim"),
            "dims": [z3.String(name + f"_dim{i}") for i in range(3)],
            "size_y": z3.Int(name + "_size_y"), "size_x": z3.Int(name + "_size_x"),
            "has_wl": z3.Bool(name + "_has_wl_coord"), "nonneg": z3.Bool(name + "_nonneg") if nonneg is None else nonneg}
    st.assume(z3.And(info["dtype"].v >= 0, info["dtype"].v < len(DTYPES), info["ndim"] >= 0))
    v = VOpaque("DataArray", st.fresh_int("xr"), info)
    if valid:
        st.assume(xr_rep(v))
    return v


def xr_rep(v):
    i = v.info
    return z3.And(zb(arrays.dtype_in(None, i["dtype"], FLOATS)), i["ndim"] == 3, i["dims"][0] == "wavelength", i["dims"][1] == "y",
                  i["dims"][2] == "x", i["size_y"] == ROWS, i["size_x"] == COLS)


def xr_attr(ex, obj, name, fr):
    i = obj.info
    if name == "dtype":
        return i["dtype"]
    if name == "ndim":
        return VInt(i["ndim"])
    if name == "dims":
        if not ex.st.branch(i["ndim"] == 3):
            raise Unsupported("dims of a DataArray whose ndim is not 3")
        return VTuple([VStr(d) for d in i["dims"]])
    if name == "sizes":
        return VOpaque("DataArray.sizes", None, {"of": obj})
    if name == "coords":
        return VOpaque("DataArray.coords", None, {"of": obj})
    if name == "shape":
        return VOpaque("DataArray.shape", None, {"of": obj})
    if name in ("copy", "clip", "equals", "astype"):
        return VLib("xr.DataArray." + name, obj)
    raise Unsupported(f"DataArray.{name}")


def xr_sizes_getitem(ex, obj, idx, fr):
    i = obj.info["of"].info
    if isinstance(idx, VStr) and is_conc(idx.v) and idx.v in ("y", "x"):
        return VInt(i["size_" + idx.v])
    raise Unsupported("DataArray.sizes[...]")


def xr_coords_contains(ex, container, item):
    if isinstance(item, VStr) and is_conc(item.v) and item.v == "wavelength":
        return container.info["of"].info["has_wl"]
    raise Unsupported("in DataArray.coords")


def xr_compare(ex, op, a, b, fr):
    if isinstance(a, VOpaque) and a.kind == "DataArray" and op == "lt" and isinstance(b, (VInt, VFloat)) and is_conc(b.v) and b.v == 0:
        return VOpaque("DataArray.negmask", None, {"of": a})
    raise Unsupported("comparison on DataArray")


def xr_copy(ex, f, args, kwargs, fr):
    src = f.self_val
    return VOpaque("DataArray", ex.st.fresh_int("xr"), dict(src.info))


def xr_clip(ex, f, args, kwargs, fr):
    src = f.self_val
    lo = kwargs.get("min")
    info = dict(src.info)
    if isinstance(lo, (VInt, VFloat)) and is_conc(lo.v) and lo.v >= 0:
        info["nonneg"] = z3.BoolVal(True)
    return VOpaque("DataArray", ex.st.fresh_int("xr"), info)


def np_any(ex, f, args, kwargs, fr):
    v = args[0]
    if isinstance(v, VOpaque) and v.kind == "DataArray.negmask":
        return VBool(z3.Not(v.info["of"].info["nonneg"]))
    return arrays.NP["numpy.any"](ex, args, kwargs, fr)


def xr_inplace_binop(ex, op, a, b):
    # xarray in-place arithmetic keeps dims/sizes/dtype of the left operand or raises
    if isinstance(a, VOpaque) and a.kind == "DataArray":
        if ex.st.choose([True, True]) == 1:
            ex.throw("ValueError", "xarray: cannot add operands")
        info = dict(a.info)
        info["nonneg"] = ex.st.fresh_bool("nonneg")
        return VOpaque("DataArray", a.t, info)
    raise Unsupported("operator on DataArray")


def mk_cfg():
    cfg = Cfg("real")
    cfg.warn_raises = True        # a warning may be escalated to an exception (filter "error"): an assignment that ends that way is a failed assignment too
    cfg.lib_overrides[("opaque_attr", "DataArray")] = xr_attr
    cfg.lib_overrides[("getitem", "DataArray.sizes")] = xr_sizes_getitem
    cfg.lib_overrides[("contains", "DataArray.coords")] = xr_coords_contains
    cfg.lib_overrides[("compare", "DataArray")] = xr_compare
    cfg.lib_overrides[("binop", "DataArray")] = xr_inplace_binop
    cfg.lib_overrides["xr.DataArray.copy"] = xr_copy
    cfg.lib_overrides["xr.DataArray.clip"] = xr_clip
    cfg.lib_overrides["numpy.any"] = np_any
    return cfg


# ---- symbolic inputs -----------------------------------------------------------------------------
def mk_geo(ex, u):
    ex.st.assume(z3.And(ROWS > 0, COLS > 0))
    return ex.st.alloc(HObj(u.cls(GEO), {"_row": VInt(ROWS), "_col": VInt(COLS)}))


def sym_dtype(ex, name, allowed=None):
    d = z3.Int(name)
    ex.st.assume(z3.And(d >= 0, d < len(DTYPES)))
    if allowed:
        ex.st.assume(z3.Or(*[d == arrays.dt_code(n) for n in allowed]))
    return VDtype(d)


def mk_value(ex, kind, name="value"):
    if kind.startswith("nd"):
        nd = int(kind[2])
        shape = tuple(z3.Int(f"{name}_s{i}") for i in range(nd))
        for s in shape:
            ex.st.assume(s >= 0)
        f = z3.Function(name + "_elem", *([z3.IntSort()] * nd), z3.RealSort())
        return ex.st.alloc(HArr(shape, sym_dtype(ex, name + "_dtype"), lambda ix: VFloat(f(*[z_int(i) for i in ix]) if nd else f())))
    if kind == "none":
        return NONE
    if kind == "float":
        return VFloat(z3.Real(name + "_scalar"))
    if kind == "list":
        return ex.st.alloc(HList([VFloat(z3.Real(name + "_item"))]))
    if kind == "xr":
        return mk_xr(ex, name)
    raise ValueError(kind)


def mk_container(ex, u, path, cls, allowed, pre, photon=False):
    """Real constructor executed symbolically, then the pre-state is installed (rep holds)."""
    geo = mk_geo(ex, u)
    ci = u.cls(f"{path}::{cls}")
    ref = ex.instantiate(ci, [geo], {}, Frame(None, ci.module))
    cell = ex.st.cell(ref)
    if pre == "empty":
        cell.fields["_array"] = NONE
    elif pre == "full":
        f = z3.Function("old_elem", z3.IntSort(), z3.IntSort(), z3.RealSort())
        cell.fields["_array"] = ex.st.alloc(HArr((ROWS, COLS), sym_dtype(ex, "old_dtype", allowed), lambda ix: VFloat(f(z_int(ix[0]), z_int(ix[1])))))
    elif pre == "3d":
        cell.fields["_array"] = mk_xr(ex, "old3d", valid=True)
    # HISTORY: whatever boolean flags the constructor sets up besides the content (a "warned once" / "checked" / "dirty" marker) may have
    # either value after earlier operations on the container: every such flag is an arbitrary boolean in the pre-state
    for fname, fval in list(cell.fields.items()):
        if fname != "_array" and isinstance(fval, VBool):
            cell.fields[fname] = VBool(z3.Bool(f"flag{fname}_after_earlier_operations"))
    ex.self_ref = ref
    ex.pre_array = cell.fields["_array"]
    if isinstance(ex.pre_array, VRef):
        ex.pre_elem = ex.st.cell(ex.pre_array).elem
    g = (z3.Int("g_r"), z3.Int("g_c"))
    ex.st.assume(z3.And(g[0] >= 0, g[0] < ROWS, g[1] >= 0, g[1] < COLS))
    ex.st.ghost["generic"] = [g]
    ex.generic = g
    return ref


def rep(p: Path, ref, allowed, photon=False):
    a = p.st.cell(ref).fields.get("_array")
    if isinstance(a, VNone):
        return True
    if isinstance(a, VRef) and isinstance(p.st.cell(a), HArr):
        c = p.st.cell(a)
        if len(c.shape) != 2:
            return False
        return z_and(z_int(c.shape[0]) == ROWS, z_int(c.shape[1]) == COLS, arrays.dtype_in(None, c.dtype, allowed))
    if photon and isinstance(a, VOpaque) and a.kind == "DataArray":
        return xr_rep(a)
    return False


def unchanged(p: Path, ref):
    a = p.st.cell(ref).fields.get("_array")
    pre = p.ex.pre_array
    if isinstance(pre, VNone):
        return isinstance(a, VNone)
    if isinstance(pre, VRef):
        return isinstance(a, VRef) and a.addr == pre.addr and p.st.cell(a).elem is p.ex.pre_elem
    if isinstance(pre, VOpaque):
        return a is pre
    return False


def witness(kind, pre):
    w = {"rows": ROWS, "cols": COLS, "kind": kind, "pre": pre, "value_dtype": z3.Int("value_dtype"), "old_dtype": z3.Int("old_dtype"),
         "xr_dtype": z3.Int("value_dtype"), "xr_ndim": z3.Int("value_ndim"), "xr_size_y": z3.Int("value_size_y"), "xr_size_x": z3.Int("value_size_x")}
    if kind.startswith("nd"):
        for i in range(int(kind[2])):
            w[f"s{i}"] = z3.Int(f"value_s{i}")
    return w


def small_terms(kind):
    return [ROWS, COLS] + [z3.Int(f"value_s{i}") for i in range(3)] + [z3.Int("value_size_y"), z3.Int("value_size_x"), z3.Int("value_ndim")]


def native_value(w):
    kind = w["kind"]
    dt = DTYPES[w.get("value_dtype", 11) % len(DTYPES)] if isinstance(w.get("value_dtype"), int) else "float64"
    if kind.startswith("nd"):
        shape = tuple(w.get(f"s{i}", 1) for i in range(int(kind[2])))
        return f"N.make_value('nd', shape={shape!r}, dtype={dt!r})"
    if kind == "xr":
        nd = w.get("xr_ndim", 3)
        shape = (2, w.get("xr_size_y", 1), w.get("xr_size_x", 1))
        return f"N.make_value('xr', shape={shape!r}, dtype={dt!r})"
    return f"N.make_value({kind!r})"


def replay_op(attr_name, cls, allowed, op_code, photon=False):
    """op_code: python statement(s) using `c` (container) and `value`."""
    def mk(w):
        rows, cols = max(1, w.get("rows", 2)), max(1, w.get("cols", 2))
        old_dt = DTYPES[w["old_dtype"]] if isinstance(w.get("old_dtype"), int) and 0 <= w["old_dtype"] < len(DTYPES) else allowed[-1]
        if old_dt not in allowed:
            old_dt = allowed[-1]
        pre = {"empty": "pass", "full": f"c._array = np.ones(({rows}, {cols}), dtype={old_dt!r})",
               "3d": f"c._array = N.make_value('xr', shape=(2, {rows}, {cols}))"}[w["pre"]]
        return {"code": f"""
import numpy as np, warnings, c13_native as N
VIOLATED, DETAIL = False, 'no candidate value broke the representation invariant'
cands = [{native_value(w)}, np.ones(({rows}, {cols})), np.ones((2, {rows}, {cols})), np.ones(({rows}, {cols}), dtype=complex), np.ones((1, {cols})), np.ones(({rows}, {cols}), dtype=np.uint16),
         np.ones(({rows}, {cols}), dtype=np.int64), np.ones({cols}), 1.5, np.float32(2.0), -np.ones(({rows}, {cols})), N.make_value('xr', shape=(2, {rows}, {cols})) - 5.0]
for strict in (False, True):                  # warnings ignored / escalated to errors (python -W error): a raising assignment changes nothing either way
  for value in cands:
    det = N.detector({rows}, {cols}, kind={'"MKID"' if attr_name == 'phase' else '"CCD"'})
    c = det.{attr_name}
    {pre}
    before = c._array
    before_copy = None if before is None else before.copy()
    raised = None
    with warnings.catch_warnings():
        warnings.simplefilter('error' if strict else 'ignore')
        try:
        {op_code}
        except Exception as e:
            raised = e
    ok, what = N.rep(c, {rows}, {cols}, {tuple(allowed)!r}, photon={photon})
    same = (c._array is before) and (before is None or bool(np.array_equal(np.asarray(before), np.asarray(before_copy))))
    if (not ok) or (raised is not None and not same):
        VIOLATED = True
        DETAIL = ('warnings as errors: ' if strict else '') + 'after op on {cls} (pre={w["pre"]}, value=' + repr(getattr(value, 'shape', value)) + '/' + str(getattr(value, 'dtype', type(value).__name__)) + '): container holds ' + what + ('; raised ' + repr(raised) + (' and content changed' if not same else '') if raised else '')
        break
  if VIOLATED: break
""", "expect": f"{cls} keeps its representation invariant"}
    return mk


def replay_nonneg(op_code):
    """Contract-guided search: the failed obligation is `every stored element >= 0` after a normal return; the witness
    fixes shape/dtype/pre-state, the element pattern is searched over a fixed candidate list (negatives, NaN, inf)."""
    def mk(w):
        rows, cols = max(1, w.get("rows", 2)), max(1, w.get("cols", 2))
        pre = {"empty": "pass", "full": f"c._array = np.ones(({rows}, {cols}), dtype='float64')",
               "3d": f"c._array = N.make_value('xr', shape=(2, {rows}, {cols}))"}[w["pre"]]
        return {"code": f"""
import numpy as np, warnings, c13_native as N
warnings.simplefilter('ignore')
base = {native_value(w)}
VIOLATED, DETAIL = False, 'no candidate element pattern left a negative count stored'
pats = [[-1.0], [-5.0, 1.0], [float('nan'), -5.0], [-5.0, float('nan')], [float('-inf'), 0.0], [float('inf'), -1e-3], [float('nan'), float('-inf')], [-1e-30, 0.0]]
for pat in pats + pats:
    det = N.detector({rows}, {cols})
    c = det.photon
    if pat is pats[0] or len(pats) and pats.index(pat) % 2:          # HISTORY: an earlier assignment of a frame with negative values, then a reset
        with warnings.catch_warnings():
            warnings.simplefilter('ignore')
            try:
                c.array = np.full(({rows}, {cols}), -3.0); c.empty()
            except Exception:
                pass
    {pre}
    value = base.copy()
    try:
        flat = value.values.reshape(-1) if hasattr(value, 'values') else value.reshape(-1)
        for i in range(flat.size):
            flat[i] = pat[i % len(pat)] if i < max(len(pat), 2) or pat[0] != pat[0] else 1.0
        if hasattr(value, 'values'):
            value = value.copy(data=flat.reshape(value.shape))
        else:
            value = flat.reshape(value.shape)
    except Exception:
        continue
    try:
{op_code.replace("    ", "        ", 1)}
    except Exception:
        continue
    a = c._array
    if a is not None and bool((np.asarray(a) < 0).any()):
        VIOLATED, DETAIL = True, 'assigned ' + repr(np.asarray(value).tolist()) + ' (' + str(np.asarray(value).dtype) + '); stored ' + repr(np.asarray(a).tolist())
        break
""", "expect": "no negative photon count is stored after an assignment"}
    return mk


OPS = {
    "array.setter": ("{path}::{cls}.array.setter", "    c.array = value", lambda ex, ref, v: ([ref, v], {})),
    "__iadd__": ("pyxel/data_structure/array.py::ArrayBase.__iadd__", "    c += value", lambda ex, ref, v: ([ref, v], {})),
    "__add__": ("pyxel/data_structure/array.py::ArrayBase.__add__", "    c + value", lambda ex, ref, v: ([ref, v], {})),
    "update": ("{path}::{cls}.update", "    c.update(value)", lambda ex, ref, v: ([ref, v], {})),
}


def STORE_REPLAY(attr_name, cls, allowed):
    return lambda w: {"code": f"""
import numpy as np, verif_probes as VP
det = VP.detector(rows=2, cols=3, kind='MKID' if {attr_name!r} == 'phase' else 'CCD') if {attr_name!r} != 'phase' else None
if det is None:
    from pyxel.detectors import MKID, MKIDGeometry, Characteristics, Environment
    det = MKID(geometry=MKIDGeometry(row=2, col=3), environment=Environment(), characteristics=Characteristics())
c = getattr(det, {attr_name!r})
VIOLATED, DETAIL = False, 'an accepted assignment stores the given array: its type and its values'
allowed = {list(allowed)!r}
for old_dt in allowed:
    for new_dt in allowed:
        c._array = None
        c.array = np.ones((2, 3), dtype=old_dt)
        hi = np.iinfo(new_dt).max if np.dtype(new_dt).kind in 'ui' else 1.5
        new = np.full((2, 3), hi, dtype=new_dt)
        c.array = new
        got = c.array
        if got.dtype != np.dtype(new_dt) or not np.array_equal(got, new):
            VIOLATED, DETAIL = True, f'{cls} holding {{old_dt}}: assigning a {{new_dt}} array of {{hi}} stores {{got.dtype}} {{np.asarray(got).ravel()[:2].tolist()}}'; break
    if VIOLATED: break
""", "expect": "the container holds the array it was given (type and values), whatever it held before"}


def _arraybase_units():
    for (path, cls, allowed, attr_name) in CONTAINERS:
        for opname, (qual, op_code, mkargs) in OPS.items():
            def un(u: Unit, path=path, cls=cls, allowed=allowed, attr_name=attr_name, opname=opname, qual=qual, op_code=op_code, mkargs=mkargs):
                q = qual.format(path=path, cls=cls)
                try:
                    fi = u.fn(q)
                except Exception:
                    fi = u.fn(q.replace(f"{path}::{cls}", "pyxel/data_structure/array.py::ArrayBase"))
                cfg = mk_cfg()
                n_ok = 0
                for pre in ("empty", "full"):
                    for kind in VALUE_KINDS:
                        if opname == "update" and kind == "xr":
                            continue      # update() takes array-likes; np.asarray(DataArray) is not modelled
                        def setup(ex, pre=pre, kind=kind):
                            ref = mk_container(ex, u, path, cls, allowed, pre)
                            ex.given = mk_value(ex, kind)
                            ex.given_elem = ex.st.cell(ex.given).elem if isinstance(ex.given, VRef) and isinstance(ex.st.cell(ex.given), HArr) else None
                            return mkargs(ex, ref, ex.given)
                        for p in u.paths(fi, setup, cfg, label=f"{cls}.{opname}[{pre},{kind}]"):
                            ref = p.ex.self_ref
                            w = witness(kind, pre)
                            info = {"small": small_terms(kind)}
                            rp = replay_op(attr_name, cls, allowed, op_code)
                            u.oblige(p, f"inv[{cls}.{opname}:{pre},{kind},{p.kind}]", zb(rep(p, ref, allowed)), w, rp, info=info)
                            if p.kind == "raise":
                                u.oblige(p, f"atomic[{cls}.{opname}:{pre},{kind}]", zb(unchanged(p, ref)), w, rp, info=info)
                            else:
                                n_ok += 1
                                if opname == "array.setter" and p.ex.given_elem is not None:
                                    # an ACCEPTED assignment stores what was given: the type of the given array (a wider image type is not
                                    # squeezed into the type of the content held before) and its values
                                    now = p.st.cell(ref).fields.get("_array")
                                    okr = isinstance(now, VRef) and isinstance(p.st.cell(now), HArr)
                                    goal = z3.BoolVal(False)
                                    if okr and len(p.st.cell(now).shape) == 2 and len(p.st.cell(p.ex.given).shape) == 2:
                                        nc, gv = p.st.cell(now), p.st.cell(p.ex.given)
                                        g = p.ex.generic
                                        goal = z3.And(zb(arrays.dtype_eq(p.ex, nc.dtype, gv.dtype)), to_real(nc.elem(g)) == to_real(p.ex.given_elem(g)))
                                    u.oblige(p, f"stores_the_given_array[{cls}.{opname}:{pre},{kind}]", goal, w, STORE_REPLAY(attr_name, cls, allowed), info=info)
                u.cover(f"cover[{cls}.{opname}]", [1] * n_ok, lambda _: True)
            unit("C13", f"{cls}.{opname}")(un)
            if cls == "Image" and opname == "array.setter":
                globals()["IMAGE_SETTER_UNIT"] = un

        def un_misc(u: Unit, path=path, cls=cls, allowed=allowed, attr_name=attr_name):
            cfg = mk_cfg()
            # empty(): ends in a rep-state
            try:
                fe = u.fn(f"{path}::{cls}.empty")
            except Exception:
                fe = u.fn("pyxel/data_structure/array.py::ArrayBase.empty")
            for pre in ("empty", "full"):
                for p in u.paths(fe, lambda ex, pre=pre: ([mk_container(ex, u, path, cls, allowed, pre)], {}), cfg, label=f"{cls}.empty[{pre}]"):
                    u.oblige(p, f"inv[{cls}.empty:{pre},{p.kind}]", zb(rep(p, p.ex.self_ref, allowed)), witness("none", pre),
                             replay_op(attr_name, cls, allowed, "    c.empty()"))
            # reading an empty container raises; reading a full one returns the stored array
            fg = u.fn("pyxel/data_structure/array.py::ArrayBase.array")
            for pre in ("empty", "full"):
                ps = u.paths(fg, lambda ex, pre=pre: ([mk_container(ex, u, path, cls, allowed, pre)], {}), cfg, label=f"{cls}.array[{pre}]")
                for p in ps:
                    if pre == "empty":
                        u.oblige(p, f"read.empty_raises[{cls}]", p.kind == "raise" and p.exc_name() == "ValueError", witness("none", pre),
                                 lambda w, attr_name=attr_name: {"code": f"""
import c13_native as N
c = N.detector(2, 2, kind={'"MKID"' if attr_name == 'phase' else '"CCD"'}).{attr_name}
c._array = None
try:
    r = c.array
    VIOLATED, DETAIL = True, 'reading an empty container returned ' + repr(r)
except ValueError as e:
    VIOLATED, DETAIL = False, 'ValueError: ' + str(e)[:80]
""", "expect": "reading an empty container raises ValueError"})
                    else:
                        u.oblige(p, f"read.returns_stored[{cls}]", p.kind == "return" and isinstance(p.value, VRef) and p.value.addr == p.ex.pre_array.addr, witness("none", pre))
                u.cover(f"cover[{cls}.array.getter:{pre}]", ps, lambda p: True)
        unit("C13", f"{cls}.misc")(un_misc)


_arraybase_units()


# ---- equality ------------------------------------------------------------------------------------
@unit("C13", "ArrayBase.__eq__")
def eq_unit(u: Unit):
    fi = u.fn("pyxel/data_structure/array.py::ArrayBase.__eq__")
    cfg = mk_cfg()
    path, cls, allowed, attr_name = CONTAINERS[0]

    def replay(pre_a, pre_b, same_shape):
        def mk(w):
            rb = "2, 2" if same_shape else "3, 2"
            return {"code": f"""
import numpy as np, c13_native as N
a = N.detector(2, 2).pixel
b = N.detector({rb}).pixel
a._array = {'None' if pre_a == 'empty' else 'np.ones((2, 2))'}
b._array = {'None' if pre_b == 'empty' else f'np.ones(({rb}))'}
expected = {same_shape and (pre_a == 'empty') == (pre_b == 'empty')}
try:
    got = (a == b)
    VIOLATED = bool(got) != expected
    DETAIL = 'a({pre_a}) == b({pre_b}, shape {rb}) returned ' + repr(got) + ', expected ' + repr(expected)
except Exception as e:
    VIOLATED, DETAIL = True, 'a({pre_a}) == b({pre_b}) raised ' + repr(e)
""", "expect": "== is total and symmetric on empty / non-empty containers"}
        return mk
    for pre_a in ("empty", "full"):
        for pre_b in ("empty", "full"):
            for same_shape in (True, False):
                def setup(ex, pre_a=pre_a, pre_b=pre_b, same_shape=same_shape):
                    a = mk_container(ex, u, path, cls, allowed, pre_a)
                    ci = u.cls(f"{path}::{cls}")
                    r2, c2 = (ROWS, COLS) if same_shape else (z3.Int("rows_b"), z3.Int("cols_b"))
                    if not same_shape:
                        ex.st.assume(z3.And(r2 > 0, c2 > 0, z3.Or(r2 != ROWS, c2 != COLS)))
                    geo_b = ex.st.alloc(HObj(u.cls(GEO), {"_row": VInt(r2), "_col": VInt(c2)}))
                    b = ex.instantiate(ci, [geo_b], {}, Frame(None, ci.module))
                    fb = z3.Function("b_elem", z3.IntSort(), z3.IntSort(), z3.RealSort())
                    ex.st.cell(b).fields["_array"] = NONE if pre_b == "empty" else ex.st.alloc(
                        HArr((r2, c2), sym_dtype(ex, "b_dtype", allowed), lambda ix: VFloat(fb(z_int(ix[0]), z_int(ix[1])))))
                    return [a, b], {}
                ps = u.paths(fi, setup, cfg, label=f"__eq__[{pre_a},{pre_b},{same_shape}]")
                for p in ps:
                    name = f"eq.spec[{pre_a},{pre_b},{'same' if same_shape else 'other'}-shape]"
                    rp = replay(pre_a, pre_b, same_shape)
                    if p.kind == "raise":
                        u.oblige(p, name + ".total", False, {}, rp)
                        continue
                    t = p.ex.truth(p.value)
                    if not same_shape:
                        u.oblige(p, name, zb(z_not(t)), {}, rp)
                    elif pre_a == "empty" and pre_b == "empty":
                        u.oblige(p, name, zb(t), {}, rp)
                    elif pre_a != pre_b:
                        u.oblige(p, name, zb(z_not(t)), {}, rp)
                    else:
                        # both hold arrays: the result is numpy's array_equal of the two stored arrays
                        u.oblige(p, name, isinstance(p.value, VBool) and not isinstance(p.value.v, bool) and "array_equal" in str(p.value.v), {}, rp)
                u.cover(f"cover[eq:{pre_a},{pre_b},{same_shape}]", ps, lambda p: True)


# ---- Photon --------------------------------------------------------------------------------------
PH = DS + "photon.py"
PHOTON_OPS = {
    "array.setter": ("    c.array = value", ["empty", "full", "3d"]),
    "array_2d.setter": ("    c.array_2d = value", ["empty", "full"]),
    "array_3d.setter": ("    c.array_3d = value", ["empty", "full", "3d"]),
    "__iadd__": ("    c += value", ["empty", "full", "3d"]),
    "__add__": ("    c + value", ["empty", "full", "3d"]),
}


def _photon_units():
    for opname, (op_code, pres) in PHOTON_OPS.items():
        def un(u: Unit, opname=opname, op_code=op_code, pres=pres):
            fi = u.fn(f"{PH}::Photon.{opname}")
            cfg = mk_cfg()
            n_ok = 0
            for pre in pres:
                for kind in VALUE_KINDS:
                    def setup(ex, pre=pre, kind=kind):
                        ref = mk_container(ex, u, PH, "Photon", FLOATS, pre, photon=True)
                        return [ref, mk_value(ex, kind)], {}
                    for p in u.paths(fi, setup, cfg, label=f"Photon.{opname}[{pre},{kind}]"):
                        ref = p.ex.self_ref
                        w = witness(kind, pre)
                        info = {"small": small_terms(kind)}
                        rp = replay_op("photon", "Photon", FLOATS, op_code, photon=True)
                        u.oblige(p, f"inv[Photon.{opname}:{pre},{kind},{p.kind}]", zb(rep(p, ref, FLOATS, photon=True)), w, rp, info=info)
                        if p.kind == "raise":
                            u.oblige(p, f"atomic[Photon.{opname}:{pre},{kind}]", zb(unchanged(p, ref)), w, rp, info=info)
                            continue
                        n_ok += 1
                        if opname.endswith("setter"):
                            a = p.st.cell(ref).fields["_array"]
                            g = p.ex.generic
                            if isinstance(a, VRef) and isinstance(p.st.cell(a), HArr) and len(p.st.cell(a).shape) == 2:
                                u.oblige(p, f"assign.nonneg[Photon.{opname}:{pre},{kind}]", zb(num_compare("ge", p.st.cell(a).elem(g), VInt(0))), w, replay_nonneg(op_code), info=info)
                                u.oblige(p, f"assign.copied[Photon.{opname}:{pre},{kind}]", a.addr != getattr(p.ex, "value_addr", -1), w)
                            elif isinstance(a, VOpaque):
                                u.oblige(p, f"assign.nonneg[Photon.{opname}:{pre},{kind}]", a.info["nonneg"], w, replay_nonneg(op_code), info=info)
            u.cover(f"cover[Photon.{opname}]", [1] * n_ok, lambda _: True)
        unit("C13", f"Photon.{opname}")(un)
        if opname == "array.setter":
            globals()["PHOTON_SETTER_UNIT"] = un


_photon_units()


@unit("C13", "Photon.misc")
def photon_misc(u: Unit):
    cfg = mk_cfg()
    fe = u.fn(f"{PH}::Photon.empty")
    for pre in ("empty", "full", "3d"):
        for p in u.paths(fe, lambda ex, pre=pre: ([mk_container(ex, u, PH, "Photon", FLOATS, pre, photon=True)], {}), cfg, label=f"Photon.empty[{pre}]"):
            u.oblige(p, f"inv[Photon.empty:{pre},{p.kind}]", p.kind == "return" and isinstance(p.st.cell(p.ex.self_ref).fields["_array"], VNone), {})
    for getter in ("array", "array_2d", "array_3d"):
        fg = u.fn(f"{PH}::Photon.{getter}")
        ps = u.paths(fg, lambda ex: ([mk_container(ex, u, PH, "Photon", FLOATS, "empty", photon=True)], {}), cfg, label=f"Photon.{getter}[empty]")
        for p in ps:
            u.oblige(p, f"read.empty_raises[Photon.{getter}]", p.kind == "raise" and p.exc_name() == "ValueError", {},
                     lambda w, getter=getter: {"code": f"""
import c13_native as N
c = N.detector(2, 2).photon
try:
    r = c.{getter}
    VIOLATED, DETAIL = True, 'reading an empty Photon returned ' + repr(r)
except ValueError as e:
    VIOLATED, DETAIL = False, 'ValueError'
""", "expect": "reading an empty Photon raises ValueError"})
        u.cover(f"cover[Photon.{getter}:empty]", ps, lambda p: True)


# ---- Detector bucket setters -----------------------------------------------------------------------
def rp_atomic(attr_name, allowed):
    def mk(w):
        return {"code": f"""
import numpy as np, c13_native as N
VIOLATED, DETAIL = False, 'a refused assignment through the detector attribute leaves the bucket as it was'
for kind in ('CCD', 'MKID'):
    det = N.detector(3, 4, kind); other = N.detector(5, 5, kind)
    old = np.full((3, 4), 2, dtype={allowed[-1]!r}); det.{attr_name}._array = old.copy()
    for bad in (np.ones((5, 5), dtype={allowed[-1]!r}), np.ones((3, 4), dtype='int64'), N.make_value('xr', rows=5, cols=5)):
        other.{attr_name}._array = bad
        try:
            det.{attr_name} = other.{attr_name}
        except Exception:
            now = det.{attr_name}._array
            if now is None or not isinstance(now, np.ndarray) or not np.array_equal(now, old):
                VIOLATED, DETAIL = True, f'{{kind}}: a refused assignment of {{type(bad).__name__}}{{getattr(bad, "shape", "")}} left the bucket holding {{None if now is None else "other data"}}'; break
""", "expect": "detector.<bucket> = <invalid bucket> raises and keeps the previous content"}
    return mk


@unit("C13", "Detector.setters")
def detector_setters(u: Unit):
    """det.<bucket> = other_container keeps rep of the detector's own container."""
    cfg = mk_cfg()
    D = "pyxel/detectors/detector.py"
    dci = u.cls(f"{D}::Detector")
    table = [("pixel", DS + "pixel.py", "Pixel", FLOATS), ("signal", DS + "signal.py", "Signal", FLOATS),
             ("image", DS + "image.py", "Image", UINTS), ("photon", PH, "Photon", FLOATS)]
    for attr_name, path, cls, allowed in table:
        fi = u.fn(f"{D}::Detector.{attr_name}.setter")
        src_pres = ("empty", "full", "alien") + (("3d",) if cls == "Photon" else ())
        for pre in ("empty", "full"):
            for src_pre in src_pres:
                def setup(ex, pre=pre, src_pre=src_pre, path=path, cls=cls, allowed=allowed, attr_name=attr_name):
                    own = mk_container(ex, u, path, cls, allowed, pre, photon=cls == "Photon")
                    det = ex.st.alloc(HObj(dci, {"_" + attr_name: own}))
                    ci = u.cls(f"{path}::{cls}")
                    # the assigned object is another container of the same class whose content is arbitrary
                    geo_b = ex.st.alloc(HObj(u.cls(GEO), {"_row": VInt(z3.Int("rows_b")), "_col": VInt(z3.Int("cols_b"))}))
                    ex.st.assume(z3.And(z3.Int("rows_b") > 0, z3.Int("cols_b") > 0))
                    src = ex.instantiate(ci, [geo_b], {}, Frame(None, ci.module))
                    if src_pre == "empty":
                        arr = NONE
                    elif src_pre == "3d":
                        arr = mk_xr(ex, "src3d")
                    else:
                        nd_shape = (z3.Int("src_s0"), z3.Int("src_s1"))
                        ex.st.assume(z3.And(nd_shape[0] >= 0, nd_shape[1] >= 0))
                        if src_pre == "full":
                            ex.st.assume(z3.And(nd_shape[0] == z3.Int("rows_b"), nd_shape[1] == z3.Int("cols_b")))
                        fs = z3.Function("src_elem", z3.IntSort(), z3.IntSort(), z3.RealSort())
                        arr = ex.st.alloc(HArr(nd_shape, sym_dtype(ex, "src_dtype", allowed if src_pre == "full" else None),
                                               lambda ix: VFloat(fs(z_int(ix[0]), z_int(ix[1])))))
                    ex.st.cell(src).fields["_array"] = arr
                    ex.self_ref = own
                    return [det, src], {}
                for p in u.paths(fi, setup, cfg, label=f"Detector.{attr_name}.setter[{pre},{src_pre}]"):
                    w = {"rows": ROWS, "cols": COLS, "rows_b": z3.Int("rows_b"), "cols_b": z3.Int("cols_b"), "src_s0": z3.Int("src_s0"),
                         "src_s1": z3.Int("src_s1"), "src_dtype": z3.Int("src_dtype"), "pre": pre, "src_pre": src_pre}

                    def rp(w, attr_name=attr_name, cls=cls, allowed=allowed):
                        rows, cols = max(1, w.get("rows", 2)), max(1, w.get("cols", 2))
                        rb, cb = max(1, w.get("rows_b", 2)), max(1, w.get("cols_b", 2))
                        sd = DTYPES[w["src_dtype"]] if isinstance(w.get("src_dtype"), int) and 0 <= w["src_dtype"] < len(DTYPES) else "int64"
                        if sd in ("object", "str", "complex64", "complex128"):
                            sd = "int64"
                        src_arr = {"empty": "None", "3d": f"N.make_value('xr', shape=(2, {rb}, {cb}), dtype='int64')",
                                   "full": f"np.ones(({rb}, {cb}), dtype={allowed[-1]!r})",
                                   "alien": f"np.ones(({max(0, w.get('src_s0', 1))}, {max(0, w.get('src_s1', 1))}), dtype={sd!r})"}[w["src_pre"]]
                        return {"code": f"""
import numpy as np, c13_native as N
det = N.detector({rows}, {cols})
other = N.detector({rb}, {cb})
{'det.' + attr_name + '._array = np.ones((' + str(rows) + ', ' + str(cols) + '), dtype=' + repr(allowed[-1]) + ')' if w['pre'] == 'full' else 'pass'}
other.{attr_name}._array = {src_arr}
raised = None
try:
    det.{attr_name} = other.{attr_name}
except Exception as e:
    raised = e
ok, what = N.rep(det.{attr_name}, {rows}, {cols}, {tuple(allowed)!r}, photon={cls == 'Photon'})
VIOLATED = not ok
DETAIL = 'detector.{attr_name} = <{cls} holding ' + repr(getattr(other.{attr_name}._array, 'shape', None)) + '> left the bucket holding ' + what + ('; raised ' + repr(raised) if raised else '')
""", "expect": "Detector bucket setter keeps the representation invariant"}
                    u.oblige(p, f"detector.setters[{attr_name}:{pre},{src_pre},{p.kind}]", zb(rep(p, p.ex.self_ref, allowed, photon=cls == "Photon")),
                             w, rp, info={"small": [ROWS, COLS, z3.Int("rows_b"), z3.Int("cols_b"), z3.Int("src_s0"), z3.Int("src_s1")]})
                    if p.kind == "raise":      # a refused assignment leaves the previous content of the detector's own container untouched
                        u.oblige(p, f"detector.setters.atomic[{attr_name}:{pre},{src_pre}]", zb(unchanged(p, p.ex.self_ref)), w, rp_atomic(attr_name, allowed),
                                 info={"small": [ROWS, COLS, z3.Int("rows_b"), z3.Int("cols_b"), z3.Int("src_s0"), z3.Int("src_s1")]})


# ---- Photon equality (its own __eq__: 2-D arrays and multi-wavelength cubes) -------------------------------------------------------
@unit("C13", "Photon.__eq__")
def photon_eq_unit(u: Unit):
    """Photon.__eq__ against the statement: equal exactly when same kind AND same (detector) shape AND both empty or both holding equal
    content; never raises. Pre-states: empty / 2-D array / 3-D cube on both sides, same or different detector shape."""
    fi = u.fn(PH + "::Photon.__eq__")
    cfg = mk_cfg()
    cfg.lib_overrides[("isinstance", "DataArray")] = lambda ex, v, libs, clss: VBool("xarray.DataArray" in libs)
    base_attr = cfg.lib_overrides[("opaque_attr", "DataArray")]
    cfg.lib_overrides[("opaque_attr", "DataArray")] = lambda ex, obj, name, fr: VLib("xr.DataArray.equals", obj) if name == "equals" else base_attr(ex, obj, name, fr)
    def equals(ex, f, args, kwargs, fr):      # xarray: equal values, dimensions and coordinates — in particular equal sizes
        o, me = args[0], f.self_val
        if not (isinstance(o, VOpaque) and o.kind == "DataArray"):
            return VBool(False)
        return VBool(z3.And(z3.Bool("cubes_equal"), me.info["size_y"] == o.info["size_y"], me.info["size_x"] == o.info["size_x"], me.info["ndim"] == o.info["ndim"]))
    cfg.lib_overrides["xr.DataArray.equals"] = equals
    base_ae = arrays.NP["numpy.array_equal"]

    def array_equal(ex, f, args, kwargs, fr):     # a 2-D array against a 3-D cube: shapes differ
        a, b = args[0], args[1]
        for x, y in ((a, b), (b, a)):
            if isinstance(x, VOpaque) and x.kind == "DataArray" and ex.is_arr(y) and len(ex.st.cell(y).shape) == 2:
                if ex.st.branch(x.info["ndim"] == 3):
                    return VBool(False)
                raise Unsupported("array_equal of a 2-D array and a DataArray that is not 3-D")
        return base_ae(ex, args, kwargs, fr)
    cfg.lib_overrides["numpy.array_equal"] = array_equal
    ci = u.cls(PH + "::Photon")

    def replay(pre_a, pre_b, same_shape):
        def mk(w):
            rb = "2, 2" if same_shape else "3, 2"
            val = {"empty": "None", "full": "np.ones(({s}))", "3d": "N.make_value('xr', rows={r}, cols={c})"}
            va = val[pre_a].format(s="2, 2", r=2, c=2)
            vb = val[pre_b].format(s=rb, r=rb.split(",")[0], c=2)
            return {"code": f"""
import numpy as np, c13_native as N
a = N.detector(2, 2).photon
b = N.detector({rb}).photon
a._array = {va}
b._array = {vb}
expected = {same_shape and pre_a == pre_b}
try:
    got = (a == b)
    VIOLATED = bool(got) != expected
    DETAIL = 'photon a({pre_a}, detector 2x2) == photon b({pre_b}, detector {rb}) returned ' + repr(got) + ', expected ' + repr(expected)
except Exception as e:
    VIOLATED, DETAIL = True, 'a({pre_a}) == b({pre_b}) raised ' + repr(e)
""", "expect": "photon containers are equal exactly when same shape and both empty or equal content"}
        return mk
    for pre_a in ("empty", "full", "3d"):
        for pre_b in ("empty", "full", "3d"):
            for same_shape in (True, False):
                def setup(ex, pre_a=pre_a, pre_b=pre_b, same_shape=same_shape):
                    a = mk_container(ex, u, DS + "photon.py", "Photon", FLOATS, pre_a, photon=True)
                    r2, c2 = (ROWS, COLS) if same_shape else (z3.Int("rows_b"), z3.Int("cols_b"))
                    if not same_shape:
                        ex.st.assume(z3.And(r2 > 0, c2 > 0, z3.Or(r2 != ROWS, c2 != COLS)))
                    geo_b = ex.st.alloc(HObj(u.cls(GEO), {"_row": VInt(r2), "_col": VInt(c2)}))
                    b = ex.instantiate(ci, [geo_b], {}, Frame(None, ci.module))
                    fb = z3.Function("b_elem", z3.IntSort(), z3.IntSort(), z3.RealSort())
                    if pre_b == "empty":
                        ex.st.cell(b).fields["_array"] = NONE
                    elif pre_b == "full":
                        ex.st.cell(b).fields["_array"] = ex.st.alloc(HArr((r2, c2), sym_dtype(ex, "b_dtype", FLOATS), lambda ix: VFloat(fb(z_int(ix[0]), z_int(ix[1])))))
                    else:
                        cb = mk_xr(ex, "cube_b")
                        i = cb.info           # a cube that b's own setter accepted (rep of b's detector shape)
                        ex.st.assume(z3.And(zb(arrays.dtype_in(None, i["dtype"], FLOATS)), i["ndim"] == 3, i["dims"][0] == "wavelength", i["dims"][1] == "y", i["dims"][2] == "x",
                                            i["size_y"] == r2, i["size_x"] == c2))
                        ex.st.cell(b).fields["_array"] = cb
                    return [a, b], {}
                ps = u.paths(fi, setup, cfg, label=f"Photon.__eq__[{pre_a},{pre_b},{same_shape}]")
                name = f"photon_eq.spec[{pre_a},{pre_b},{'same' if same_shape else 'other'}-shape]"
                rp = replay(pre_a, pre_b, same_shape)
                for p in ps:
                    if p.kind == "raise":
                        u.oblige(p, name + ".total", False, {"exc": p.exc_name()}, rp)
                        continue
                    t = p.ex.truth(p.value)
                    if not same_shape or pre_a != pre_b:
                        u.oblige(p, name, zb(z_not(t)), {}, rp)
                    elif pre_a == "empty":
                        u.oblige(p, name, zb(t), {}, rp)
                    elif pre_a == "full":
                        u.oblige(p, name, isinstance(p.value, VBool) and not isinstance(p.value.v, bool) and "array_equal" in str(p.value.v), {}, rp)
                    else:
                        u.oblige(p, name, zb(t) == z3.Bool("cubes_equal"), {}, rp)
                u.cover(f"cover[photon_eq:{pre_a},{pre_b},{same_shape}]", ps, lambda p: True)


def _detector_ctors(u: Unit):
    """C18.detector_ctors (imported late)"""
    from . import C18 as _C18
    return _C18.detector_ctors(u)


unit("C13", "ctor.detectors")(_detector_ctors)      # a new detector holds one empty container of each kind on its own geometry


def _pixel_reset_ieee(u: Unit):
    """C02.pixel_reset_ieee (imported late)"""
    from . import C02 as _C02
    return _C02.pixel_reset_ieee(u)


unit("C13", "empty.pixel_reset_ieee")(_pixel_reset_ieee)      # a reset pixel bucket holds zeros whatever it held before (nothing of the old frame survives, NaN included)
