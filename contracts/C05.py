"""C05 — observation runs exactly the requested parameter space, correctly labelled.

Specification of the parameter spaces (from the statement):
  product    : all index tuples of the ENABLED lists; run n <-> mixed-radix digits of n; parameters {key_j: list_j[d_j]}
  sequential : for each enabled parameter in declaration order, for each of its values: defaults with that one key changed
  custom     : one run per table row; parameter j takes the next width_j columns (1 for "_", else number of placeholders)
The real enumeration code (ParameterValues, ProductMode / SequentialMode / CustomMode.get_parameters_item and their
generators) is executed symbolically with SYMBOLIC values, keys' defaults and enabled flags on a family of concrete
shapes (number of parameters 1..3, list lengths 1..3, table rows 1..2): within a shape the proof covers every value,
every enabled pattern; the shape dimension is BOUNDED (stated in the evidence, not counted as unbounded proof).
"""
from __future__ import annotations

import itertools

from .common import *  # noqa: F401,F403
from . import boundary

MISC = "pyxel/observation/misc.py"
OBS = "pyxel/observation/observation.py"
PV = "pyxel/observation/parameter_values.py"
BOUNDED = {
    r'expression text': 'parameters declared as the text numpy.arange(2, 8, 3): two symbolic values (eval is the boundary)',
    r'^(?!mode\.selection)': 'parameter spaces of 1..3 parameters with 1..3 values each and tables of 1..2 rows (symbolic values and enabled flags)',
}      # unit-name / obligation-name patterns -> the family these obligations are proved for
TRUSTED = ["shapes are bounded: 1..3 parameters, list lengths 1..3, 1..2 table rows (symbolic values, defaults and enabled flags inside each shape)",
           "itertools.product order; pandas: Series(list(idx), index=idx).to_xarray() of idx = MultiIndex.from_product(lists, names) holds entry l at the coordinates l (boundary contract, not proved)", "xarray places each run at its coordinates (boundary)",
           "processor.get(key) returns the configured default of key"]
LEVEL = "other"      # bounded family of shapes: not claimed as an unbounded proof
SHAPES = [(2,), (1, 3), (3, 2), (2, 1, 2), (2, 3, 2)]


def mk_params(ex, u, shape, multi=None):
    """ParameterValues built by the REAL constructor: symbolic integer values, symbolic enabled flags."""
    ci = u.cls(f"{PV}::ParameterValues")
    out, vals, ens = [], [], []
    for j, L in enumerate(shape):
        vs = [VInt(z3.Int(f"v{j}_{i}")) for i in range(L)]
        en = z3.Bool(f"enabled{j}")
        values = ex.st.alloc(HList(vs)) if not multi else multi[j](ex)
        pv = ex.instantiate(ci, [], {"key": VStr(f"detector.geometry.k{j}"), "values": values, "enabled": VBool(en)}, Frame(None, ci.module))
        out.append(pv)
        vals.append(vs)
        ens.append(en)
    return out, vals, ens


def same(a, b):
    """Same symbolic value (objects are re-created on every path run; the z3 terms are stable)."""
    if a is b:
        return True
    if a is None or b is None or type(a) is not type(b) or not hasattr(a, "v"):
        return False
    if is_conc(a.v) or is_conc(b.v):
        return is_conc(a.v) and is_conc(b.v) and a.v == b.v
    return z3.eq(a.v, b.v)


def entry_fields(p: Path, e):
    c = p.st.cell(e)
    return c.fields


def dict_of(p: Path, ref):
    return {(k.v if isinstance(k, VStr) else k): v for k, v in p.st.cell(ref).items}


ENUM_REPLAY = lambda w: {"code": """
import verif_probes as VP
from pyxel.observation import ParameterValues
from pyxel.observation.misc import ProductMode, SequentialMode
from pyxel.pipelines import DetectionPipeline, Processor
ps = [ParameterValues(key='detector.geometry.row', values=[3, 0, 5]), ParameterValues(key='detector.geometry.col', values=[7, 0.0], enabled=True),
      ParameterValues(key='detector.environment.temperature', values=[100, 200], enabled=False)]
prod = ProductMode(ps).get_parameters_item()
got = sorted((e.index, tuple(sorted(e.parameters.items())), e.run_index) for e in prod)
exp = sorted(((i, j), (('detector.geometry.col', c), ('detector.geometry.row', r)), n) for n, ((i, r), (j, c)) in enumerate(__import__('itertools').product(enumerate([3, 0, 5]), enumerate([7, 0.0]))))
det = VP.detector(rows=3, cols=4)
proc = Processor(detector=det, pipeline=DetectionPipeline())
seq = SequentialMode(ps).get_parameters_item(processor=proc)
gots = [tuple(sorted(e.parameters.items())) for e in seq]
exps = [tuple(sorted({'detector.geometry.row': 3, 'detector.geometry.col': 4, k: v}.items())) for k, vs in (('detector.geometry.row', [3, 0, 5]), ('detector.geometry.col', [7, 0.0])) for v in vs]
VIOLATED = got != exp or gots != exps
DETAIL = 'product: ' + repr(got[:3]) + ' ... sequential: ' + repr(gots)
if not VIOLATED:
    # the same sweep with one list, then the other, then both given as expression text
    base = [ParameterValues(key='detector.geometry.row', values=[3, 4, 5]), ParameterValues(key='detector.geometry.col', values=[7, 8]), ps[2]]
    exp = sorted(((i, j), (('detector.geometry.col', c), ('detector.geometry.row', r)), n) for n, ((i, r), (j, c)) in enumerate(__import__('itertools').product(enumerate([3, 4, 5]), enumerate([7, 8]))))
    for txt in ((0,), (1,), (0, 1)):
        ps2 = [ParameterValues(key='detector.geometry.row', values='numpy.arange(3, 6)') if 0 in txt else base[0],
               ParameterValues(key='detector.geometry.col', values='numpy.arange(7, 9)') if 1 in txt else base[1], base[2]]
        got2 = sorted((e.index, tuple(sorted(e.parameters.items())), e.run_index) for e in ProductMode(ps2).get_parameters_item())
        if got2 != exp:
            VIOLATED, DETAIL = True, f"with parameter(s) {txt} given as 'numpy.arange(..)' text the product has {len(got2)} entries (expected {len(exp)}): " + repr(got2[:4])
            break
""", "expect": "product = full Cartesian product of enabled lists; sequential = one parameter at a time over defaults"}


@unit("C05", "product.enumeration")
def product_enum(u: Unit):
    fi = u.fn(f"{MISC}::ProductMode.get_parameters_item")
    for n in ("ProductMode._product_parameters", "ProductMode._product_indices", "ProductMode.enabled_steps"):
        u.fn(f"{MISC}::{n}")
    u.fn(f"{PV}::ParameterValues.__init__")
    u.fn(f"{PV}::ParameterValues.__iter__")
    u.fn(f"{PV}::ParameterValues.__len__")
    u.fn("pyxel/evaluator.py::eval_range")
    mci = u.cls(f"{MISC}::ProductMode")
    # a parameter may also be declared as EXPRESSION TEXT ('numpy.arange(...)'): its values are the elements the expression
    # evaluates to (eval is the boundary: an integer array with one symbolic element per value), not the characters of the text
    TEXT = "numpy.arange(2, 8, 3)"                 # 21 characters, evaluates to 2 values
    for shape, texts in [(sh, ()) for sh in SHAPES] + [((2,), (0,)), ((2, 3), (0,)), ((3, 2), (1,)), ((2, 2), (0, 1))]:
        holder = {}
        cfg = Cfg("real")

        def np_eval(ex, f, args, kwargs, fr):
            if not (isinstance(args[0], VStr) and is_conc(args[0].v) and args[0].v == TEXT):
                raise Unsupported(f"eval({args[0]!r})")
            k = ex.st.ghost.get("evals", 0)
            ex.st.ghost["evals"] = k + 1
            return ex.st.alloc(HArr((2,), VDtype("int64"), lambda ix: VInt(z3.Function("expr_value", z3.IntSort(), z3.IntSort())(z_int(ix[0])))))
        cfg.lib_overrides["builtins.eval"] = np_eval
        cfg.lib_overrides["importlib.import_module"] = lambda ex, f, args, kwargs, fr: VLib(str(args[0].v))

        def setup(ex, shape=shape, texts=texts):
            multi = [((lambda ex: VStr(TEXT)) if j in texts else (lambda ex, j=j, L=L: ex.st.alloc(HList([VInt(z3.Int(f"v{j}_{i}")) for i in range(L)])))) for j, L in enumerate(shape)] if texts else None
            pvs, vals, ens = mk_params(ex, u, shape, multi=multi)
            for j in texts:
                vals[j] = [VInt(z3.Function("expr_value", z3.IntSort(), z3.IntSort())(z3.IntVal(i))) for i in range(2)]
            holder.update(vals=vals, ens=ens)
            mode = ex.instantiate(mci, [], {"parameters": ex.st.alloc(HList(pvs))}, Frame(None, mci.module))
            return [mode], {}
        tagx = f"{shape}" + (f"[expression text at {list(texts)}]" if texts else "")
        ps = u.paths(fi, setup, cfg, label=f"ProductMode.get_parameters_item{tagx}")
        n_paths = 0
        for p in ps:
            if p.kind != "return":
                u.oblige(p, f"product.enumeration{tagx}.no_raise", False, {"exc": p.exc_name()}, ENUM_REPLAY)
                continue
            n_paths += 1
            # which parameters are enabled on this path is decided by the path condition (all 2^P patterns explored)
            s = z3.Solver()
            s.add(*p.st.pc)
            assert s.check() == z3.sat
            m = s.model()
            enabled = [j for j, e in enumerate(holder["ens"]) if z3.is_true(m.eval(e, model_completion=True))]
            u.oblige(p, f"product.enumeration{tagx}.enabled_pattern_fixed", z3.And(*[(holder["ens"][j] if j in enabled else z3.Not(holder["ens"][j])) for j in range(len(shape))]), {}, ENUM_REPLAY)
            entries = p.ex.try_list(p.value) or []
            space = list(itertools.product(*[range(shape[j]) for j in enabled]))
            ok = len(entries) == len(space)
            seen = set()
            for n, e in enumerate(entries):
                if not ok:
                    break
                f = entry_fields(p, e)
                idx = tuple(x.v for x in f["index"].items) if isinstance(f["index"], VTuple) else None
                prm = dict_of(p, f["parameters"])
                ok = ok and idx == space[n] and f["run_index"].v == n and idx not in seen and sorted(prm) == sorted(f"detector.geometry.k{j}" for j in enabled)
                seen.add(idx)
                for pos, j in enumerate(enabled):
                    ok = ok and same(prm.get(f"detector.geometry.k{j}"), holder["vals"][j][idx[pos]])
            u.oblige(p, f"product.enumeration{tagx}[enabled={enabled}]", bool(ok), {"shape": str(shape), "enabled": str(enabled)}, ENUM_REPLAY)
        u.static(f"product.all_enabled_patterns{tagx}", n_paths == 2 ** len(shape), fi.qualname, f"{n_paths} paths for {2 ** len(shape)} enabled patterns")


@unit("C05", "sequential.enumeration")
def sequential_enum(u: Unit):
    fi = u.fn(f"{MISC}::SequentialMode.get_parameters_item")
    u.fn(f"{MISC}::SequentialMode._sequential_parameters")
    mci = u.cls(f"{MISC}::SequentialMode")
    for shape in SHAPES:
        holder = {}
        cfg = Cfg("real")
        defaults = [VInt(z3.Int(f"default{j}")) for j in range(len(shape))]
        cfg.lib_overrides[("opaque_attr", "proc")] = lambda ex, obj, name, fr: VLib("proc." + name, obj)
        cfg.lib_overrides["proc.get"] = lambda ex, f, args, kwargs, fr, defaults=defaults: defaults[int(str((args[0] if args else kwargs["key"]).v).rsplit("k", 1)[1])]

        def setup(ex, shape=shape):
            pvs, vals, ens = mk_params(ex, u, shape)
            holder.update(vals=vals, ens=ens)
            mode = ex.instantiate(mci, [], {"parameters": ex.st.alloc(HList(pvs))}, Frame(None, mci.module))
            return [mode], {"processor": VOpaque("proc", None, {})}
        ps = u.paths(fi, setup, cfg, label=f"SequentialMode.get_parameters_item{shape}")
        n_paths = 0
        for p in ps:
            if p.kind != "return":
                u.oblige(p, f"sequential.enumeration{shape}.no_raise", False, {"exc": p.exc_name()}, ENUM_REPLAY)
                continue
            n_paths += 1
            s = z3.Solver()
            s.add(*p.st.pc)
            s.check()
            m = s.model()
            enabled = [j for j, e in enumerate(holder["ens"]) if z3.is_true(m.eval(e, model_completion=True))]
            entries = p.ex.try_list(p.value) or []
            space = [(j, i) for j in enabled for i in range(shape[j])]
            ok = len(entries) == len(space)
            for n, e in enumerate(entries):
                if not ok:
                    break
                f = entry_fields(p, e)
                prm = dict_of(p, f["parameters"])
                j, i = space[n]
                ok = ok and f["run_index"].v == n and f["index"].v == n and sorted(prm) == sorted(f"detector.geometry.k{q}" for q in enabled)
                for q in enabled:
                    want = holder["vals"][j][i] if q == j else defaults[q]
                    ok = ok and same(prm.get(f"detector.geometry.k{q}"), want)
            u.oblige(p, f"sequential.enumeration{shape}[enabled={enabled}]", bool(ok), {"shape": str(shape)}, ENUM_REPLAY)
        u.static(f"sequential.all_enabled_patterns{shape}", n_paths == 2 ** len(shape), fi.qualname, f"{n_paths} paths")


# ---- custom mode --------------------------------------------------------------------------------------------
CUSTOM_LAYOUTS = [("_",), ("_", ("_", "_")), (("_", "_", "_"), "_"), ("_", ("_", "_"), "_")]


@unit("C05", "custom.columns")
def custom_enum(u: Unit):
    fi = u.fn(f"{MISC}::CustomMode.get_parameters_item")
    u.fn(f"{MISC}::CustomMode._custom_parameters")
    mci = u.cls(f"{MISC}::CustomMode")
    rp = lambda w: {"code": """
import pandas as pd
from pyxel.observation import ParameterValues
from pyxel.observation.misc import CustomMode
ps = [ParameterValues(key='a.b.one', values='_'), ParameterValues(key='a.b.vec', values=['_', '_']), ParameterValues(key='a.b.off', values='_', enabled=False),
      ParameterValues(key='a.b.last', values='_')]
df = pd.DataFrame([[1, 2, 3, 4], [5, 6, 7, 8]])
got = [(e.index, {k: (list(v) if hasattr(v, '__len__') else v) for k, v in e.parameters.items()}, e.run_index) for e in CustomMode(ps, df).get_parameters_item(processor=None)]
exp = [(0, {'a.b.one': 1, 'a.b.vec': [2, 3], 'a.b.last': 4}, 0), (1, {'a.b.one': 5, 'a.b.vec': [6, 7], 'a.b.last': 8}, 1)]
VIOLATED, DETAIL = got != exp, 'custom rows -> ' + repr(got)
""", "expect": "columns are assigned to enabled parameters in declaration order, vector parameters take consecutive columns"}
    for layout in CUSTOM_LAYOUTS:
        for nrows in (1, 2):
            holder = {}
            cfg = Cfg("real")
            width = [1 if x == "_" else len(x) for x in layout]

            def mkvals(x):
                return (lambda ex: VStr("_")) if x == "_" else (lambda ex, x=x: ex.st.alloc(HList([VStr("_")] * len(x))))

            def rows_of(ex, obj):
                return obj.info["rows"]
            cfg.lib_overrides[("opaque_attr", "table")] = lambda ex, obj, name, fr: VLib("table." + name, obj)
            cfg.lib_overrides["table.iterrows"] = lambda ex, f, args, kwargs, fr: ex.st.alloc(HList([VTuple([VInt(r), VOpaque("rowserie", None, {"row": row})]) for r, row in enumerate(f.self_val.info["rows"])]))
            cfg.lib_overrides[("opaque_attr", "rowserie")] = lambda ex, obj, name, fr: VLib("rowserie." + name, obj)
            cfg.lib_overrides["rowserie.to_list"] = lambda ex, f, args, kwargs, fr: ex.st.alloc(HList(list(f.self_val.info["row"])))
            cfg.lib_overrides["builtins.isinstance"] = lambda ex, f, args, kwargs, fr: VBool(True) if isinstance(args[0], VOpaque) and args[0].kind == "table" else L_isinstance(ex, args)

            def setup(ex, layout=layout, nrows=nrows):
                pvs, _, ens = mk_params(ex, u, tuple(1 for _ in layout), multi=[mkvals(x) for x in layout])
                holder["ens"] = ens
                ncols = sum(width)
                rows = [[VInt(z3.Int(f"cell{r}_{c}")) for c in range(ncols)] for r in range(nrows)]
                holder["rows"] = rows
                mode = ex.st.alloc(HObj(mci, {"parameters": ex.st.alloc(HList(pvs)), "custom_data": VOpaque("table", None, {"rows": rows})}))
                # all parameters enabled: the table has exactly sum(width) columns (CustomMode.build enforces it)
                for e in ens:
                    ex.st.assume(e)
                return [mode], {"processor": NONE}
            ps = u.paths(fi, setup, cfg, label=f"CustomMode.get_parameters_item{layout}x{nrows}")
            for p in ps:
                if p.kind != "return":
                    u.oblige(p, f"custom.columns{layout}x{nrows}.no_raise", False, {"exc": p.exc_name()}, rp)
                    continue
                entries = p.ex.try_list(p.value) or []
                ok = len(entries) == nrows
                for r, e in enumerate(entries):
                    if not ok:
                        break
                    f = entry_fields(p, e)
                    prm = dict_of(p, f["parameters"])
                    ok = ok and f["run_index"].v == r and f["index"].v == r and len(prm) == len(layout)
                    off = 0
                    for j, x in enumerate(layout):
                        got = prm.get(f"detector.geometry.k{j}")
                        if x == "_":
                            ok = ok and same(got, holder["rows"][r][off])
                        else:
                            items = p.ex.try_list(got) or []
                            ok = ok and len(items) == len(x) and all(same(items[t], holder["rows"][r][off + t]) for t in range(len(items)))
                        off += width[j]
                u.oblige(p, f"custom.columns{layout}x{nrows}", bool(ok), {}, rp)
            u.cover(f"custom.cover{layout}x{nrows}", ps, lambda p: p.kind == "return")


def L_isinstance(ex, args):
    from pyvc import lib as L
    return L.isinstance_(ex, args[0], args[1])


# ---- one run per entry, labelled with the value that was set ---------------------------------------------------------
@unit("C05", "run.one_per_entry")
def run_one_per_entry(u: Unit):
    fi = u.fn(f"{OBS}::Observation.run_pipelines")
    oci = u.cls(f"{OBS}::Observation")
    pmc = u.cls(f"{MISC}::ProductMode")
    rp = ENUM_REPLAY
    for nentries in (0, 1, 3):
        cfg = Cfg("real")
        boundary.install(cfg)
        calls = []
        entries = [VOpaque("entry", z3.Int(f"entry{i}"), {"i": i}) for i in range(nentries)]

        def single(ex, args, kwargs, fr):
            calls.append((args[1] if len(args) > 1 else kwargs.get("param_item"), kwargs.get("processor")))
            return VOpaque("xr", ex.st.fresh_int("tree"), {"label": "tree"})
        cfg.contracts[f"{OBS}::Observation._run_single_pipeline"] = Contract(f"{OBS}::Observation._run_single_pipeline", single, "one exposure on a copy of the processor (C06, C09)")
        cfg.contracts[f"{OBS}::Observation.validate_steps"] = Contract(f"{OBS}::Observation.validate_steps", lambda ex, args, kwargs, fr: (calls.append(("validate",)), NONE)[1], "C08")
        cfg.contracts[f"{OBS}::Observation._get_parameter_types"] = Contract(f"{OBS}::Observation._get_parameter_types", lambda ex, args, kwargs, fr: ex.st.alloc(HDict([])), "types")
        cfg.contracts[f"{OBS}::_get_short_dimension_names_new"] = Contract(f"{OBS}::_get_short_dimension_names_new", lambda ex, args, kwargs, fr: ex.st.alloc(HDict([])), "names")
        cfg.contracts[f"{MISC}::ProductMode.get_parameters_item"] = Contract(f"{MISC}::ProductMode.get_parameters_item", lambda ex, args, kwargs, fr: ex.st.alloc(HList(list(entries))), "enumeration")
        cfg.lib_prefix["tqdm."] = lambda ex, f, args, kwargs, fr: args[0]       # tqdm(iterable) iterates the iterable
        proc = VOpaque("xr", None, {"label": "processor", "truthy": True})

        def setup(ex):
            calls.clear()
            mode = ex.st.alloc(HObj(pmc, {"parameters": ex.st.alloc(HList([]))}))
            obs = ex.st.alloc(HObj(oci, {"parameter_mode": mode, "with_dask": VBool(False), "readout": NONE, "outputs": NONE, "_pipeline_seed": NONE}))
            return [obs], {"processor": proc, "with_inherited_coords": VBool(True)}
        ps = u.paths(fi, setup, cfg, label=f"Observation.run_pipelines[{nentries} entries]")
        for p in ps:
            runs = [c for c in calls if c[0] != "validate"]
            ok = p.kind == "return" and calls and calls[0] == ("validate",) and len(runs) == nentries and all(runs[i][0] is entries[i] and runs[i][1] is proc for i in range(nentries))
            u.oblige(p, f"run.one_per_entry[{nentries}]", bool(ok), {}, rp)
        u.cover(f"run.cover[{nentries}]", ps, lambda p: p.kind == "return")
    # the PARALLEL branch: the sweep is validated (unknown keys, arguments of disabled models: C08) before the task graph is built, exactly
    # as on the sequential branch
    cfg = Cfg("real")
    boundary.install(cfg)
    calls = []
    cfg.contracts[f"{OBS}::Observation.validate_steps"] = Contract(f"{OBS}::Observation.validate_steps", lambda ex, args, kwargs, fr: (calls.append(("validate", args[1] if len(args) > 1 else kwargs.get("processor"))), NONE)[1], "C08")
    cfg.contracts[f"{OBS}::Observation._get_parameter_types"] = Contract(f"{OBS}::Observation._get_parameter_types", lambda ex, args, kwargs, fr: ex.st.alloc(HDict([])), "types")
    cfg.contracts[f"{OBS}::_get_short_dimension_names_new"] = Contract(f"{OBS}::_get_short_dimension_names_new", lambda ex, args, kwargs, fr: ex.st.alloc(HDict([])), "names")
    dq = "pyxel/observation/observation_dask.py::run_pipelines_with_dask"
    cfg.contracts[dq] = Contract(dq, lambda ex, args, kwargs, fr: (calls.append(("dask", kwargs.get("processor", next((a for a in args if a is proc), None)))),
                                                                  VOpaque("xr", ex.st.fresh_int("tree"), {"label": "tree"}))[1], "C07")
    proc = VOpaque("xr", None, {"label": "processor", "truthy": True})

    def setup_d(ex):
        calls.clear()
        mode = ex.st.alloc(HObj(pmc, {"parameters": ex.st.alloc(HList([]))}))
        obs = ex.st.alloc(HObj(oci, {"parameter_mode": mode, "with_dask": VBool(True), "readout": NONE, "outputs": NONE, "_pipeline_seed": NONE}))
        return [obs], {"processor": proc, "with_inherited_coords": VBool(True)}
    ps = u.paths(fi, setup_d, cfg, label="Observation.run_pipelines[parallel]")
    for p in ps:
        ok = p.kind == "return" and len(calls) == 2 and calls[0][0] == "validate" and calls[0][1] is proc and calls[1][0] == "dask" and calls[1][1] is proc
        u.oblige(p, "run.parallel_validates_first", bool(ok), {"calls": str([c[0] for c in calls])}, DASK_DISABLED_REPLAY)
    u.cover("run.cover[parallel]", ps, lambda p: p.kind == "return")


DASK_DISABLED_REPLAY = lambda w: {"code": """
import dask, numpy as np, verif_probes as VP
import pyxel
from pyxel.pipelines import DetectionPipeline, ModelFunction
from pyxel.exposure import Readout
from pyxel.observation import Observation, ParameterValues
VIOLATED, DETAIL = False, 'a sweep over an argument of a disabled model (or an unknown key) is refused before any pipeline runs, sequentially and in parallel'
for with_dask in (False, True):
    for key in ('pipeline.photon_collection.extra.arguments.level', 'pipeline.photon_collection.extra.arguments.levle'):
        VP.LOG.clear()
        pipe = DetectionPipeline(photon_collection=[ModelFunction(func='verif_probes.probe', name='main', arguments={'level': 50}),
                                                    ModelFunction(func='verif_probes.probe', name='extra', arguments={'level': 1}, enabled=False)])
        obs = Observation(parameters=[ParameterValues(key=key, values=[10, 1000])], readout=Readout(times=[1.0]), with_dask=with_dask)
        try:
            with dask.config.set(scheduler='synchronous'):
                pyxel.run_mode(mode=obs, detector=VP.detector(), pipeline=pipe)
            VIOLATED, DETAIL = True, f'with_dask={with_dask}: the sweep over {key!r} (model disabled / key unknown) was accepted; {len(VP.LOG)} model calls were made'; break
        except (ValueError, KeyError, AttributeError) as e:
            if VP.LOG:
                VIOLATED, DETAIL = True, f'with_dask={with_dask}: {key!r} refused only after {len(VP.LOG)} model calls'; break
    if VIOLATED: break
""", "expect": "validation of the swept keys happens before any run on both branches of Observation.run_pipelines"}


@unit("C05", "label.product")
def label_product(u: Unit):
    fi = u.fn(f"{OBS}::_add_product_parameters")
    pt = u.cls(f"{PV}::ParameterType")
    cfg = Cfg("real")
    boundary.install(cfg)
    vals = [VInt(z3.Int("pv0")), VInt(z3.Int("pv1"))]

    def setup(ex):
        tree = VOpaque("xr", ex.st.fresh_int("tree"), {"label": "data_tree"})
        pd_ = ex.st.alloc(HDict([(VStr("key.a"), vals[0]), (VStr("key.b"), vals[1])]))
        dn = ex.st.alloc(HDict([(VStr("key.a"), VStr("a")), (VStr("key.b"), VStr("b"))]))
        ty = ex.st.alloc(HDict([(VStr("key.a"), VStr("simple")), (VStr("key.b"), VStr("simple"))]))
        return [], {"data_tree": tree, "parameter_dict": pd_, "indexes": VTuple([VInt(z3.Int("i0")), VInt(z3.Int("i1"))]), "dimension_names": dn, "types": ty}
    ps = u.paths(fi, setup, cfg, label="_add_product_parameters")
    for p in ps:
        if p.kind != "return":
            u.oblige(p, "label.product.no_raise", False, {"exc": p.exc_name()}, ENUM_REPLAY)
            continue
        got = []
        for ev in p.st.events:
            if ev[0] == "xr_call" and str(ev[1]).endswith("expand_dims"):
                dim = ev[3].get("dim") or (ev[2][0] if ev[2] else None)
                if isinstance(dim, VRef):
                    for k, v in p.st.cell(dim).items:
                        items = p.ex.try_list(v) or []
                        got.append((k.v, items[0] if items else None))
        ok = len(got) == 2 and got[0][0] == "a" and same(got[0][1], vals[0]) and got[1][0] == "b" and same(got[1][1], vals[1])
        u.oblige(p, "label.product", bool(ok), {"got": str(got)}, ENUM_REPLAY)
    u.cover("label.product.cover", ps, lambda p: p.kind == "return")


# ---- the parameter array of the parallel path ---------------------------------------------------------------------------
PAR_REPLAY = lambda w: {"code": """
from pyxel.observation import ParameterValues
from pyxel.observation.misc import ProductMode
VIOLATED, DETAIL = False, 'every cell of the parameter array holds the values of its own labels'
for xs, ys in (([30, 10, 20], [2.5, 0.5]), ([1, 2, 3], [10, 20]), (['uniform', 'elliptic'], [7, 3, 5])):
    ps = [ParameterValues(key='a.b.x', values=xs), ParameterValues(key='a.b.y', values=ys), ParameterValues(key='a.b.z', values=[1, 2], enabled=False)]
    arr = ProductMode(ps).create_params(dim_names={'a.b.x': 'x', 'a.b.y': 'y'})
    if tuple(arr.dims) != ('x', 'y') or arr.size != len(xs) * len(ys):
        VIOLATED, DETAIL = True, f'lists {xs} x {ys}: dims {arr.dims} size {arr.size}'; break
    for x in xs:
        for y in ys:
            cell = arr.sel(x=x, y=y).item()
            if tuple(cell) != (x, y):
                VIOLATED, DETAIL = True, f'lists {xs} x {ys}: the run labelled x={x!r}, y={y!r} is made with the values {cell!r}'; break
""", "expect": "parallel product mode: the run stored under the labels (x, y) is the run made with the values (x, y), also for lists that are not ascending"}
STANDIN = {r"parallel\.params": PAR_REPLAY}


@unit("C05", "parallel.params")
def parallel_params(u: Unit):
    """create_params (dask path): what reaches pandas must enumerate the same space as the sequential path."""
    rp_seq = lambda w: {"code": """
from pyxel.observation import ParameterValues
from pyxel.observation.misc import SequentialMode
ps = [ParameterValues(key='a.b.x', values=[1, 2, 3]), ParameterValues(key='a.b.y', values=[10, 20])]
arr = SequentialMode(ps).create_params(dim_names={'a.b.x': 'x', 'a.b.y': 'y'})
n = int(arr.size)
VIOLATED = n != 5
DETAIL = f'sequential mode with lists of 3 and 2 values: the parallel path prepares {n} runs {arr.values.tolist()} (5 one-at-a-time runs expected)'
""", "expect": "parallel sequential mode runs one parameter at a time (3 + 2 runs)"}
    for mode_name in ("ProductMode", "SequentialMode"):
        fi = u.fn(f"{MISC}::{mode_name}.create_params")
        mci = u.cls(f"{MISC}::{mode_name}")
        shape = (3, 2)
        holder = {}
        cfg = Cfg("real")
        boundary.install(cfg)

        def setup(ex):
            pvs, vals, ens = mk_params(ex, u, shape)
            for e in ens:
                ex.st.assume(e)
            holder["vals"] = vals
            mode = ex.instantiate(mci, [], {"parameters": ex.st.alloc(HList(pvs))}, Frame(None, mci.module))
            dn = ex.st.alloc(HDict([(VStr(f"detector.geometry.k{j}"), VStr(f"k{j}")) for j in range(len(shape))]))
            return [mode], {"dim_names": dn}
        ps = u.paths(fi, setup, cfg, label=f"{mode_name}.create_params")
        for p in ps:
            if p.kind != "return":
                u.oblige(p, f"parallel.params[{mode_name}].no_raise", False, {"exc": p.exc_name()}, rp_seq)
                continue
            if mode_name == "ProductMode":
                ok = False
                for ev in p.st.events:
                    if ev[0] == "lib_call" and ev[1].endswith("MultiIndex.from_product"):
                        it_arg = ev[2][0] if ev[2] else ev[3].get("iterables")       # MultiIndex.from_product(iterables, sortorder, names)
                        lists = [p.ex.try_list(x) for x in ((p.ex.try_list(it_arg) if it_arg is not None else None) or [])]
                        names = [x.v for x in (p.ex.try_list(ev[3].get("names")) or [])]
                        ok = len(lists) == 2 and all(len(lists[j]) == shape[j] and all(same(lists[j][i], holder["vals"][j][i]) for i in range(shape[j])) for j in range(2)) and names == ["k0", "k1"]
                u.oblige(p, "parallel.params[product]", bool(ok), {}, PAR_REPLAY)
                # ... and the array handed back is Series(list(IDX), index=IDX).to_xarray() of THAT index: the library contract
                # (TRUSTED) is that this array holds, at the coordinates l, the entry l, for every l of the index
                def prov(v):
                    return v.info if isinstance(v, VOpaque) else {}
                r = prov(p.value)
                ser = prov(prov(r.get("fn")).get("of")) if prov(r.get("fn")).get("attr") == "to_xarray" else {}
                data = ((ser.get("args") or [None])[0] if ser.get("args") else (ser.get("kwargs") or {}).get("data")) if ser.get("label") == "pandas.Series()" else None      # Series(data, index, ...)
                idx = (ser.get("kwargs") or {}).get("index", (ser.get("args") or [None, None])[1] if len(ser.get("args") or []) > 1 else None)
                ok2 = (isinstance(idx, VOpaque) and prov(idx).get("label") == "pandas.MultiIndex.from_product()" and isinstance(data, VOpaque)
                       and prov(data).get("of") is idx and str(prov(data).get("label", "")).startswith("list(")
                       and sum(1 for ev in p.st.events if ev[0] == "lib_call" and ev[1].endswith("MultiIndex.from_product")) == 1)
                u.oblige(p, "parallel.params[product].entries_at_their_own_labels", bool(ok2), {"returned": str(r.get("label"))}, PAR_REPLAY)
            else:
                # sequential space: 3 + 2 one-at-a-time runs; the rows handed to pandas must be that many
                rows = None
                for ev in p.st.events:
                    if ev[0] == "lib_call" and ev[1].endswith("pandas.DataFrame"):
                        rows = p.ex.try_list(ev[2][0]) if ev[2] else None
                u.oblige(p, "parallel.params[sequential]", bool(rows is not None and len(rows) == sum(shape)), {"rows": 0 if rows is None else len(rows)}, rp_seq)
        u.cover(f"parallel.params.cover[{mode_name}]", ps, lambda p: p.kind == "return")


DIM_REPLAY = lambda w: {"code": """
from pyxel.observation.observation import _get_short_dimension_names_new
VIOLATED, DETAIL = False, 'labels follow the declaration order and are distinct'
T, A, B, Q = 'detector.environment.temperature', 'pipeline.photon_collection.illum_a.arguments.level', 'pipeline.photon_collection.illum_b.arguments.level', 'detector.characteristics.quantum_efficiency'
for keys in ([T, A, B], [A, T, B], [A, B, T], [T, Q], [A, Q, B, T]):
    d = _get_short_dimension_names_new({k: None for k in keys})
    if list(d) != keys or len(set(d.values())) != len(keys):
        VIOLATED, DETAIL = True, f'declared {keys}: mapping order {list(d)}, labels {list(d.values())}'; break
""", "expect": "the key -> label mapping lists the parameters in declaration order (the parallel path pairs it positionally with the values) with distinct labels"}


@unit("C05", "dimension_names")
def dimension_names(u: Unit):
    """_get_short_dimension_names_new: one label per enabled parameter, IN DECLARATION ORDER (the dask task pairs the
    mapping's keys positionally with the run's value tuple: dict(zip(dimension_names, params_tuple))), labels distinct when
    the short names collide. Declared key lists of 2..4 parameters with and without colliding short names."""
    fi = u.fn(f"{OBS}::_get_short_dimension_names_new")
    cfg = Cfg("real")
    T, A, B, Q = ("detector.environment.temperature", "pipeline.photon_collection.illum_a.arguments.level", "pipeline.photon_collection.illum_b.arguments.level",
                  "detector.characteristics.quantum_efficiency")
    cases = {"T,A,B": [T, A, B], "A,T,B": [A, T, B], "A,B,T": [A, B, T], "T,Q": [T, Q], "A,Q,B,T": [A, Q, B, T], "readout": ["observation.readout.times", A, T, B]}
    for tag, keys in cases.items():
        def setup(ex, keys=keys):
            return [], {"types": ex.st.alloc(HDict([(VStr(k), VStr("number")) for k in keys]))}
        ps = u.paths(fi, setup, cfg, label=f"_get_short_dimension_names_new[{tag}]")
        for p in ps:
            if p.kind != "return":
                u.oblige(p, f"dimension_names.no_raise[{tag}]", False, {"exc": p.exc_name()}, DIM_REPLAY)
                continue
            d = p.ex.try_dict(p.value)
            got = [k.v for k, _ in d] if d is not None else None
            u.oblige(p, f"dimension_names.declaration_order[{tag}]", bool(got == keys), {"order": str(got)}, DIM_REPLAY)
            labels = [v.v for _, v in d] if d is not None else []
            u.oblige(p, f"dimension_names.distinct_labels[{tag}]", bool(len(set(labels)) == len(keys)), {"labels": str(labels)}, DIM_REPLAY)
        u.cover(f"dimension_names.cover[{tag}]", ps, lambda p: p.kind == "return")


# ---- which enumeration a configuration selects ----------------------------------------------------------------------------------------
MODE_REPLAY = lambda w: {"code": """
from pyxel.observation import Observation, ParameterValues
from pyxel.observation.misc import ProductMode, SequentialMode
ps = [ParameterValues(key='a.b.x', values=[1, 2, 3]), ParameterValues(key='a.b.y', values=[10, 20])]
VIOLATED, DETAIL = False, 'mode name selects the enumeration of that name, over the given parameters'
for mode, cls in (('product', ProductMode), ('sequential', SequentialMode)):
    o = Observation(parameters=ps, mode=mode, with_dask=(mode == 'product'), pipeline_seed=7)
    if type(o.parameter_mode) is not cls or list(o.parameter_mode.parameters) != ps or o.with_dask != (mode == 'product') or o.pipeline_seed != 7:
        VIOLATED, DETAIL = True, f'mode={mode!r}: built {type(o.parameter_mode).__name__} with {len(list(o.parameter_mode.parameters))} parameters, with_dask={o.with_dask}, seed={o.pipeline_seed}'
try:
    Observation(parameters=ps, mode='random'); VIOLATED, DETAIL = True, 'unknown mode accepted'
except NotImplementedError:
    pass
""", "expect": "Observation(mode=...) enumerates with the mode of that name over the parameters it was given"}


@unit("C05", "mode.selection")
def mode_selection(u: Unit):
    """build_parameter_mode / Observation.__init__: 'product' -> ProductMode(parameters), 'sequential' -> SequentialMode(parameters),
    'custom' -> CustomMode.build(parameters, custom_file = the given file, custom_columns = slice(*column_range) or None); any other name is
    refused; the observation keeps the dask flag and the seed it was given."""
    fi = u.fn(f"{OBS}::build_parameter_mode")
    for mode, want_cls in (("product", "ProductMode"), ("sequential", "SequentialMode"), ("custom", None), ("other", None)):
        for with_range in ((False, True) if mode == "custom" else (False,)):
            cfg = Cfg("real")
            boundary.install(cfg)
            for cn in ("ProductMode", "SequentialMode"):
                q = f"{MISC}::{cn}.__init__"
                cfg.contracts[q] = Contract(q, lambda ex, args, kwargs, fr, cn=cn: (ex.hold.__setitem__("ctor", (cn, list(args[1:]), dict(kwargs))), NONE)[1], "enumeration constructor")
            qb = f"{MISC}::CustomMode.build"
            cfg.contracts[qb] = Contract(qb, lambda ex, args, kwargs, fr: (ex.hold.__setitem__("build", ([a for a in args if not isinstance(a, VClass)], dict(kwargs))), VOpaque("xr", None, {"label": "custom_mode"}))[1], "custom.columns")

            def setup(ex, mode=mode, with_range=with_range):
                ex.hold = {"params": VOpaque("xr", None, {"label": "parameters"}), "file": VStr(z3.String("custom_file"))}
                return [], {"mode": VStr(mode), "parameters": ex.hold["params"], "custom_filename": ex.hold["file"] if mode == "custom" else NONE,
                            "column_range": VTuple([VInt(z3.Int("col_lo")), VInt(z3.Int("col_hi"))]) if with_range else NONE}
            tag = mode + (",range" if with_range else "")
            ps = u.paths(fi, setup, cfg, label=f"build_parameter_mode[{tag}]")
            for p in ps:
                h = p.ex.hold
                if mode == "other":
                    u.oblige(p, "mode.selection.unknown_name_refused", p.kind == "raise" and p.exc_name() == "NotImplementedError" and "ctor" not in h and "build" not in h, {}, MODE_REPLAY)
                elif p.kind != "return":
                    u.oblige(p, f"mode.selection.no_raise[{tag}]", False, {"exc": p.exc_name()}, MODE_REPLAY)
                elif want_cls:
                    cn = p.ex.cls_name(p.st.cell(p.value).cls) if isinstance(p.value, VRef) else None
                    ok = cn == want_cls and p.st.cell(p.value).fields.get("parameters") is h["params"] and "build" not in h
                    u.oblige(p, f"mode.selection.named_mode_over_the_given_parameters[{tag}]", bool(ok), {"built": str(cn)}, MODE_REPLAY)
                else:
                    a, k = h.get("build", ([], {}))
                    cols = k.get("custom_columns")
                    ok = "ctor" not in h and (a + [k.get("parameters")])[0] is h["params"] and k.get("custom_file") is h["file"]
                    if with_range:
                        ok = ok and isinstance(cols, VSlice) and isinstance(cols.lo, VInt) and z3.eq(z_int(cols.lo.v), z3.Int("col_lo")) and isinstance(cols.hi, VInt) and z3.eq(z_int(cols.hi.v), z3.Int("col_hi")) and isinstance(cols.step, VNone)
                    else:
                        ok = ok and isinstance(cols, VNone)
                    u.oblige(p, f"mode.selection.custom_file_and_columns[{tag}]", bool(ok), {}, MODE_REPLAY)
            u.cover(f"mode.selection.cover[{tag}]", ps, lambda p: True)


# ---- custom mode: the table the runs are taken from ----------------------------------------------------------------------------------
CUSTOM_REPLAY = lambda w: {"code": """
import tempfile, os
from pyxel.observation import ParameterValues
from pyxel.observation.misc import CustomMode
d = tempfile.mkdtemp(); fn = os.path.join(d, 'table.txt')
rows = [(10, 150), (20, 160), (10, 150), (40, 170), (20, 160)]
open(fn, 'w').write('\\n'.join(' '.join(str(x) for x in r) for r in rows) + '\\n')
ps = [ParameterValues(key='a.b.level', values='_'), ParameterValues(key='a.b.off', values=[1, 2], enabled=False), ParameterValues(key='a.b.temperature', values='_')]
mode = CustomMode.build(ps, custom_file=fn, custom_columns=slice(0, 1))      # .loc label slice: both ends included
runs = [(e.index, e.run_index, dict(e.parameters)) for e in mode.get_parameters_item(processor=None)]
want = [{'a.b.level': r[0], 'a.b.temperature': r[1]} for r in rows]
VIOLATED = len(runs) != len(rows) or [r[2] for r in runs] != want or [r[1] for r in runs] != list(range(len(rows)))
DETAIL = f'table of {len(rows)} rows (two of them repeated): {len(runs)} runs {[tuple(r[2].values()) for r in runs]}'
""", "expect": "custom mode makes one run per table row, repeated rows included, in table order"}


@unit("C05", "custom.table")
def custom_table(u: Unit):
    """CustomMode.build: the table the runs are taken from is the loaded file restricted to the requested columns — every row of it (no
    row dropped, none reordered): custom_data == load_table(file).loc[:, columns]. The loader and pandas are the boundary; another
    expression over the same table is not recognised -> undecided, decided by the native stand-in (a table with repeated rows)."""
    from .calibreport import term, judge
    fi = u.fn(f"{MISC}::CustomMode.build")
    cmc = u.cls(f"{MISC}::CustomMode")
    cfg = Cfg("real")
    boundary.install(cfg)
    cfg.lib_overrides["pyxel.load_table"] = lambda ex, f, args, kwargs, fr: VOpaque("xr", None, {"label": "load_table()", "args": list(args)})
    cfg.contracts["pyxel/inputs/loader.py::load_table"] = Contract("pyxel/inputs/loader.py::load_table", lambda ex, args, kwargs, fr: VOpaque("xr", None, {"label": "load_table()", "args": list(args[:1])}), "C20: the table of the file")
    cfg.lib_overrides[("len", "xr")] = lambda ex, v, fr: VInt(z3.Int("n_columns"))

    def setup(ex):
        pvs, vals, ens = mk_params(ex, u, (1, 1), multi=[lambda ex: VStr("_"), lambda ex: VStr("_")])
        for e in ens:
            ex.st.assume(e)
        ex.st.assume(z3.Int("n_columns") == 2)
        ex.pvs = ex.st.alloc(HList(pvs))
        return [VClass(cmc), ex.pvs], {"custom_file": VStr("table.txt"), "custom_columns": VOpaque("xr", None, {"label": "columns"})}
    ps = u.paths(fi, setup, cfg, label="CustomMode.build")
    for p in ps:
        if p.kind != "return":
            continue
        obj = p.st.cell(p.value).fields if isinstance(p.value, VRef) else {}
        got = term(p.ex, obj.get("custom_data"))
        judge(u, p, "custom.table.is_the_loaded_table_restricted_to_the_columns", got, "load_table('table.txt').loc[[slice(None, None, None), columns]]", CUSTOM_REPLAY)
        u.oblige(p, "custom.table.parameters_kept", obj.get("parameters") is p.ex.pvs, {}, CUSTOM_REPLAY)
    u.cover("custom.table.cover", ps, lambda p: p.kind == "return")


STANDIN[r"custom\\.table"] = CUSTOM_REPLAY


# ---- custom mode, PARALLEL path: convert_custom_data assigns to every parameter its own column(s) of the table ----------------------------
PARCOL_REPLAY = lambda w: {"code": """
import pandas as pd
from pyxel.observation.misc import convert_custom_data
VIOLATED, DETAIL = False, 'parameter j takes the table columns from the offset (sum of the widths before it) on'
table = pd.DataFrame([[1, 2, 3, 4, 5, 6], [10, 20, 30, 40, 50, 60]])
for layout, names, want in (([['_'], ['_', '_']], ['a', 'b'], {'a': [1, 10], 'b': [(2, 3), (20, 30)]}),
                            ([['_', '_'], ['_']], ['a', 'b'], {'a': [(1, 2), (10, 20)], 'b': [3, 30]}),
                            ([['_', '_', '_'], ['_'], ['_', '_']], ['a', 'b', 'c'], {'a': [(1, 2, 3), (10, 20, 30)], 'b': [4, 40], 'c': [(5, 6), (50, 60)]}),
                            ([['_'], ['_', '_'], ['_']], ['a', 'b', 'c'], {'a': [1, 10], 'b': [(2, 3), (20, 30)], 'c': [4, 40]})):
    got = convert_custom_data(custom_data=table, params_custom_list=layout, params_names=names)
    g = {k: [tuple(v) if isinstance(v, (tuple, list)) else v for v in got[k].tolist()] for k in got.columns}
    if g != want:
        VIOLATED, DETAIL = True, f'layout {layout}: {g}, expected {want}'; break
""", "expect": "convert_custom_data: a parameter after a multi-valued one starts at the column after ALL its columns"}


@unit("C05", "custom.parallel_columns")
def custom_parallel_columns(u: Unit):
    """convert_custom_data (the table of the dask path of a custom-mode observation) for parameter layouts of widths 1..3: parameter j is
    assigned column off(j) (width 1) or the columns off(j) .. off(j)+w_j-1 as row tuples, off(j) = w_0 + .. + w_(j-1) — the layout the
    sequential path uses (unit custom.columns). pandas is the boundary (column selections are recorded)."""
    fi = u.fn(f"{MISC}::convert_custom_data")
    for layout in ([1], [1, 2], [2, 1], [3, 1, 2], [1, 2, 1], [2, 2, 1]):
        cfg = Cfg("real")
        rec = u.track({})

        def t_attr(ex, obj, name, fr):
            if name == "columns":
                return VOpaque("tcolumns", None, {})
            if name == "values":
                return VOpaque("tvalues", None, {"of": obj})
            if name == "tolist":
                return VLib("tvalues.tolist", obj)
            raise Unsupported(f"table.{name}")

        def t_get(ex, obj, idx, fr):
            cols = ex.try_list(idx)
            if cols is None:
                return VOpaque("tcol", None, {"column": idx})
            return VOpaque("ctable", None, {"columns": list(cols)})

        def tolist(ex, f, args, kwargs, fr):
            src = f.self_val.info["of"]
            rows = [VOpaque("trow", None, {"columns": src.info["columns"], "row": r}) for r in range(2)]
            return ex.st.alloc(HList(rows))

        def new_set(ex, obj, idx, val, fr, rec=rec):
            rec.setdefault("assigned", []).append((idx, val))
            return NONE
        cfg.lib_overrides.update({("opaque_attr", "ctable"): t_attr, ("opaque_attr", "tvalues"): t_attr, ("getitem", "ctable"): t_get, "tvalues.tolist": tolist, ("len", "tcolumns"): lambda ex, v, fr: VInt(z3.Int("n_columns")),
                                  "pandas.DataFrame": lambda ex, f, args, kwargs, fr: VOpaque("newtable", None, {}), ("setitem", "newtable"): new_set,
                                  "builtins.tuple": lambda ex, f, args, kwargs, fr: args[0] if isinstance(args[0], VOpaque) and args[0].kind == "trow" else ex.lib.call(ex, f, args, kwargs, fr)})

        def setup(ex, layout=layout, rec=rec):
            rec.clear()
            ex.st.assume(z3.Int("n_columns") >= sum(layout))
            table = VOpaque("ctable", None, {"columns": None})
            plist = ex.st.alloc(HList([ex.st.alloc(HList([VStr("_")] * w)) for w in layout]))
            names = ex.st.alloc(HList([VStr(f"p{j}") for j in range(len(layout))]))
            return [], {"custom_data": table, "params_custom_list": plist, "params_names": names}
        ps = u.paths(fi, setup, cfg, label=f"convert_custom_data{layout}")
        for p in ps:
            if p.kind != "return":
                u.oblige(p, f"custom.parallel_columns{layout}.returns", False, {"exc": p.exc_name()}, PARCOL_REPLAY)
                continue
            asg = rec.get("assigned", [])
            ok = len(asg) == len(layout) and isinstance(p.value, VOpaque) and p.value.kind == "newtable"
            off = 0
            got = []
            for j, w in enumerate(layout):
                if not ok:
                    break
                name, val = asg[j]
                ok = isinstance(name, VStr) and name.v == f"p{j}"
                if w == 1:
                    c = val.info.get("column") if isinstance(val, VOpaque) and val.kind == "tcol" else None
                    got.append(getattr(c, "v", None))
                    ok = ok and isinstance(c, VInt) and is_conc(c.v) and c.v == off
                else:
                    rows = p.ex.try_list(val) or []
                    cols = [getattr(x, "v", None) for x in (rows[0].info["columns"] if rows and isinstance(rows[0], VOpaque) and rows[0].kind == "trow" else [])]
                    got.append(cols)
                    ok = ok and len(rows) == 2 and cols == list(range(off, off + w)) and [r.info.get("row") for r in rows] == [0, 1]
                off += w
            u.oblige(p, f"custom.parallel_columns{layout}", bool(ok), {"widths": str(layout), "columns taken": str(got)}, PARCOL_REPLAY)
        u.cover(f"custom.parallel_columns.cover{layout}", ps, lambda p: p.kind == "return")


# ---- labels of a custom-mode run: id = the row's index, every parameter under ITS OWN short name with ITS OWN value ------------------------
LABEL_CUSTOM_REPLAY = lambda w: {"code": """
import tempfile, os, warnings, numpy as np, verif_probes as VP, pyxel
from pyxel.exposure import Readout
from pyxel.observation import Observation, ParameterValues
from pyxel.pipelines import DetectionPipeline, ModelFunction
warnings.simplefilter('ignore')
d = tempfile.mkdtemp(); fn = os.path.join(d, 'table.txt')
rows = [(10.0, 1.5), (20.0, 2.5), (30.0, 3.5)]
open(fn, 'w').write('\\n'.join(' '.join(str(x) for x in r) for r in rows) + '\\n')
pipe = DetectionPipeline(photon_collection=[ModelFunction(func='pyxel.models.photon_collection.illumination', name='illum', arguments={'level': 1.0}),
                                            ModelFunction(func='verif_probes.writer', name='w', arguments={'pixel_add': 1.0})])
obs = Observation(parameters=[ParameterValues(key='pipeline.photon_collection.illum.arguments.level', values='_'), ParameterValues(key='pipeline.photon_collection.w.arguments.pixel_add', values='_')],
                  mode='custom', from_file=fn, column_range=(0, 2), readout=Readout(times=[1.0]))
dt = pyxel.run_mode(mode=obs, detector=VP.detector(), pipeline=pipe)
node = dt['/bucket'] if '/bucket' in dt.groups else dt
ds = node.to_dataset() if hasattr(node, 'to_dataset') else node
VIOLATED, DETAIL = False, 'every custom-mode run is labelled with its row index and its own parameter values'
ids = [int(x) for x in np.asarray(ds['id'].values)]
for i, (a, b) in enumerate(rows):
    sel = ds.sel(id=i)
    got = (float(np.asarray(sel['photon'].values).ravel()[0]), float(np.asarray(sel['pixel'].values).ravel()[0]))
    labels = (float(np.asarray(sel['level'].values)), float(np.asarray(sel['pixel_add'].values)))
    if got != (a, b) or labels != (a, b) or ids != [0, 1, 2]:
        VIOLATED, DETAIL = True, f'run id={i}: buckets {got}, labels (level, pixel_add) {labels}, table row {(a, b)}, ids {ids}'; break
""", "expect": "custom mode: the run stored under id i is the run made with row i of the table and carries that row's values as labels"}


@unit("C05", "label.custom")
def label_custom(u: Unit):
    """_add_custom_parameters for a run with two swept parameters (both one-valued; or the second multi-valued): every dataset of the
    result gets the dimension id = [index] first, then per parameter a coordinate named dimension_names[key] holding THAT parameter's
    value (one-valued: along id; multi-valued: an array expanded along id = [index])."""
    fi = u.fn(f"{OBS}::_add_custom_parameters")
    for second in ("simple", "multi"):
        cfg = Cfg("real")
        boundary.install(cfg)
        vals = [VInt(z3.Int("pv0")), VInt(z3.Int("pv1"))]

        def setup(ex, second=second):
            tree = VOpaque("xr", ex.st.fresh_int("tree"), {"label": "data_tree"})
            v1 = vals[1] if second == "simple" else ex.st.alloc(HList([VInt(z3.Int("pv1a")), VInt(z3.Int("pv1b"))]))
            ex.v1 = v1
            pd_ = ex.st.alloc(HDict([(VStr("key.a"), vals[0]), (VStr("key.b"), v1)]))
            dn = ex.st.alloc(HDict([(VStr("key.b"), VStr("b")), (VStr("key.a"), VStr("a"))]))           # mapping order differs from the run's order: lookups are by key
            ty = ex.st.alloc(HDict([(VStr("key.a"), VStr("simple")), (VStr("key.b"), VStr(second))]))
            return [], {"data_tree": tree, "parameter_dict": pd_, "index": VInt(z3.Int("run_index")), "dimension_names": dn, "types": ty}
        ps = u.paths(fi, setup, cfg, label=f"_add_custom_parameters[second {second}]")
        for p in ps:
            if p.kind != "return":
                u.oblige(p, f"label.custom[{second}].no_raise", False, {"exc": p.exc_name()}, LABEL_CUSTOM_REPLAY)
                continue
            ids, coords = [], []
            for ev in p.st.events:
                if ev[0] == "xr_call" and str(ev[1]).endswith("dataset.expand_dims"):
                    d = ev[2][0] if ev[2] else ev[3].get("dim")
                    if isinstance(d, VRef):
                        for k, v in p.st.cell(d).items:
                            items = p.ex.try_list(v) or []
                            ids.append((k.v, items[0] if items else None))
                if ev[0] == "xr_call" and str(ev[1]).endswith("dataset.assign_coords"):
                    d = ev[2][0] if ev[2] else None
                    if isinstance(d, VRef):
                        for k, v in p.st.cell(d).items:
                            coords.append((k.v, v))
            ok_id = len(ids) == 1 and ids[0][0] == "id" and isinstance(ids[0][1], VInt) and not is_conc(ids[0][1].v) and z3.eq(ids[0][1].v, z3.Int("run_index"))

            def simple_value(v):
                # (dim 'id', pandas.Index([value]))
                if isinstance(v, VTuple) and len(v.items) == 2 and isinstance(v.items[0], VStr) and v.items[0].v == "id" and isinstance(v.items[1], VOpaque):
                    a = (v.items[1].info.get("args") or [None])[0]
                    it = p.ex.try_list(a) if a is not None else None
                    return it[0] if it and len(it) == 1 else None
                return None
            ok = len(coords) == 2 and coords[0][0] == "a" and same(simple_value(coords[0][1]), vals[0]) and coords[1][0] == "b"
            if ok and second == "simple":
                ok = same(simple_value(coords[1][1]), vals[1])
            elif ok:
                from .calibreport import term
                t = term(p.ex, coords[1][1])
                das = [e for e in p.st.events if e[0] == "lib_call" and e[1] == "xarray.DataArray" and e[2] and p.ex.is_arr(e[2][0])]
                arr_ok = False
                if len(das) == 1:
                    c = p.st.cell(das[0][2][0])
                    arr_ok = len(c.shape) == 1 and str(z3.simplify(z_int(c.shape[0]))) == "2" and z3.eq(z3.simplify(z_int(int_of(c.elem((z3.IntVal(0),))))), z3.Int("pv1a")) \
                        and z3.eq(z3.simplify(z_int(int_of(c.elem((z3.IntVal(1),))))), z3.Int("pv1b"))
                ok = arr_ok and t.startswith("xarray.DataArray(") and ".expand_dims({'id': [run_index]})" in t
            u.oblige(p, f"label.custom[{second}].id_is_the_run_index", bool(ok_id), {"ids": str(ids)}, LABEL_CUSTOM_REPLAY)
            u.oblige(p, f"label.custom[{second}].each_parameter_under_its_own_name", bool(ok), {"coords": str([c[0] for c in coords])}, LABEL_CUSTOM_REPLAY)
        u.cover(f"label.custom.cover[{second}]", ps, lambda p: p.kind == "return")


# ---- the processor of a run carries EXACTLY the values of its entry (zero, False and empty values included) ---------------------------------
ZERO_REPLAY = lambda w: {"code": """
import warnings, numpy as np, verif_probes as VP, pyxel
from pyxel.exposure import Readout
from pyxel.observation import Observation, ParameterValues
from pyxel.observation.misc import create_new_processor
from pyxel.pipelines import DetectionPipeline, ModelFunction, Processor
warnings.simplefilter('ignore')
VIOLATED, DETAIL = False, 'every run is made with exactly the values of its entry, zero included'
pipe = DetectionPipeline(photon_collection=[ModelFunction(func='pyxel.models.photon_collection.illumination', name='illum', arguments={'level': 500.0})])
proc = Processor(detector=VP.detector(quantum_efficiency=0.8), pipeline=pipe)
for key, val, get in (('pipeline.photon_collection.illum.arguments.level', 0.0, lambda p: p.pipeline.photon_collection.illum.arguments['level']),
                      ('pipeline.photon_collection.illum.arguments.level', 0, lambda p: p.pipeline.photon_collection.illum.arguments['level']),
                      ('detector.characteristics.quantum_efficiency', 0.0, lambda p: p.detector.characteristics.quantum_efficiency),
                      ('pipeline.photon_collection.illum.enabled', False, lambda p: p.pipeline.photon_collection.illum.enabled)):
    for make in (lambda: create_new_processor(processor=proc, parameter_dict={key: val}), lambda: proc.replace({key: val})):
        got = get(make())
        if got != val or type(got) is not type(val):
            VIOLATED, DETAIL = True, f'requested {key} = {val!r}: the processor of the run holds {got!r}'; break
    if VIOLATED: break
if not VIOLATED:
    obs = Observation(parameters=[ParameterValues(key='pipeline.photon_collection.illum.arguments.level', values=[0.0, 10.0, 20.0])], readout=Readout(times=[1.0]))
    dt = pyxel.run_mode(mode=obs, detector=VP.detector(), pipeline=pipe)
    node = dt['/bucket'] if '/bucket' in dt.groups else dt
    ph = node['photon']
    for lv in (0.0, 10.0, 20.0):
        v = float(np.asarray(ph.sel(level=lv).values).ravel()[0])
        if v != lv:
            VIOLATED, DETAIL = True, f'the entry labelled level={lv} holds photon={v}'; break
""", "expect": "the run labelled with a value is made with that value; 0 / 0.0 / False are values like any other"}


def _new_processor_values(u: Unit):
    """C06.new_processor / replace units (imported late: C06 imports this module): the copy made for a run holds every requested value —
    arbitrary reals and integers, zero included — and nothing else differs from the caller's processor."""
    from . import C06 as _C06
    for name in ("new_processor", "replace"):
        f = dict(_verify_units("C06")).get(name)
        if f is not None:
            f(u)


def _verify_units(prop):
    from pyvc import verify as _v
    return _v.UNITS.get(prop, [])


unit("C05", "run.processor_values")(_new_processor_values)
STANDIN = dict(globals().get("STANDIN", {}), **{r"run\.processor_values": ZERO_REPLAY})


def _dims_order(u: Unit):
    """C07.dims_order (imported late): the label of a dask run pairs the short dimension names with the run's value tuple by position."""
    from . import C07 as _C07d
    return _C07d.dims_order(u)


unit("C05", "dims.order")(_dims_order)


# ---- eval_range on expression text: the values run are EXACTLY the elements the expression evaluates to ---------------------------------
RANGE_REPLAY = lambda w: {"code": """
import numpy as np
from pyxel.evaluator import eval_range
VIOLATED, DETAIL = False, 'a numpy expression denotes exactly the elements it evaluates to'
for text in ('numpy.linspace(1.0e-10, 2.0e-10, 5)', 'numpy.arange(0.1, 1.0, 0.1)', 'numpy.array([1e-12, 2.5e-11, 0.30000000000000004, 1e15 + 0.3])', 'numpy.geomspace(1e-15, 1e-9, 4)',
             'numpy.arange(2, 8, 3)', 'numpy.linspace(-3e-11, 3e-11, 4)'):
    want = eval(text, None, {'numpy': np})
    got = eval_range(text)
    if len(got) != len(want) or any(type(g) not in (float, int) or g != w_ for g, w_ in zip(got, want)):
        VIOLATED, DETAIL = True, f'{text}: values to run {got}, the expression evaluates to {want.tolist()}'; break
""", "expect": "eval_range(text) lists the elements of the evaluated array unchanged (float for float arrays, int for integer arrays)"}


@unit("C05", "range.expression_values")
def range_expression_values(u: Unit):
    """eval_range on a numpy expression (eval is the boundary: an array of n symbolic elements, float64 or int64): the list returned holds
    those n elements, each one UNCHANGED (as Python float / int) and in order -- every requested value is run as requested, however small."""
    fi = u.fn("pyxel/evaluator.py::eval_range")
    TEXT = "numpy.linspace(1.0e-10, 2.0e-10, 3)"
    ELEM = z3.Function("expr_element", z3.IntSort(), z3.RealSort())
    IEL = z3.Function("expr_int_element", z3.IntSort(), z3.IntSort())
    for kind in ("float64", "int64"):
        for n in (1, 3):
            cfg = Cfg("real")

            def np_eval(ex, f, args, kwargs, fr, kind=kind, n=n):
                if not (isinstance(args[0], VStr) and is_conc(args[0].v) and args[0].v == TEXT):
                    raise Unsupported(f"eval({args[0]!r})")
                return ex.st.alloc(HArr((n,), VDtype(kind), (lambda ix: VFloat(ELEM(z_int(ix[0])))) if kind == "float64" else (lambda ix: VInt(IEL(z_int(ix[0]))))))
            cfg.lib_overrides["builtins.eval"] = np_eval
            cfg.lib_overrides["importlib.import_module"] = lambda ex, f, args, kwargs, fr: VLib(str(args[0].v))
            tag = f"{kind},{n}"
            ps = u.paths(fi, lambda ex: ([VStr(TEXT)], {}), cfg, label=f"eval_range[{tag}]")
            for p in ps:
                items = p.ex.try_list(p.value) if p.kind == "return" else None
                if items is None:
                    u.oblige(p, f"range.expression_values[{tag}].returns_list", False, {"exc": p.exc_name()}, RANGE_REPLAY)
                    continue
                ok = len(items) == n and all(isinstance(x, VFloat if kind == "float64" else VInt) for x in items)
                goal = z3.And(*[(to_real(x) == ELEM(z3.IntVal(i))) if kind == "float64" else (z_int(x.v) == IEL(z3.IntVal(i))) for i, x in enumerate(items)]) if ok else z3.BoolVal(False)
                u.oblige(p, f"range.expression_values[{tag}]", goal, {"n": n}, RANGE_REPLAY)
            u.cover(f"range.expression_values.cover[{tag}]", ps, lambda p: p.kind == "return")


STANDIN = dict(globals().get("STANDIN", {}), **{r"range\.expression_values": RANGE_REPLAY})
