"""C17 — splitting an exposure into more readouts does not change collected charge.

  linear[f]   for each deterministic flux-integrating model f: executed TWICE on two detectors that differ only in
              their clock (time, time_step, absolute time, step counter, first/last flags); the increments X1, X2 it
              adds to its bucket satisfy  X1[g] * step2 == X2[g] * step1  (proportional to the model's own time step,
              independent of every other clock field), and a non-empty bucket is incremented, not replaced.
              The dark-current model (noise-free: no shot noise, no fixed-pattern noise; band gaps given or derived by the
              Varshni expression) is executed through the astropy Quantity contract.
              Helpers that do not receive the detector (calculate_illumination, compute_pattern, the cached file
              loader) are deterministic functions of their arguments.
  steps.telescope   sum_{i<k} steps[i] == times[k-1] - start   (induction over C02's step contract)
  nondestructive.sum / destructive.proportional   lemmas over the contracts of the step (C02 pixel rule, C15 exact
              collection and expectation-value conversion, linear[f]): final pixel == Phi * (t_end - t_start) for every
              partition; each destructive frame == Phi * its own duration.
"""
from __future__ import annotations

from pyvc import arrays
import ast

from .common import *  # noqa: F401,F403
from . import detmodel as D
from .C02 import T, START, steps_spec, N

TRUSTED = ["helpers that receive neither the detector nor a clock value are deterministic functions of their arguments (memoised uninterpreted results); they hand out the SAME array object for equal arguments exactly when a memoised function (lru_cache / cache) is on their call chain inside pyxel/ (decided from the code per run), otherwise a new array per call (numpy constructors, trusted)",
           "real arithmetic (two schedules agree only up to rounding in binary64)", "astropy Quantity/Unit/constants: values carried exactly, unit conversions multiply by a positive constant of the two units (contracts/quantity.py); np.exp and x ** 1.5 uninterpreted; dark current with shot noise or fixed-pattern noise is outside the property (not deterministic)",
           "load_cropped_and_aligned_image returns the same array for the same file within a run (C20)"]
G = D.GEN
PC = "pyxel/models/photon_collection/"
CG = "pyxel/models/charge_generation/"


def memoised_on_chain(world, fi, depth=0, seen=None) -> list:
    """qualified names of the functions reachable (by name, inside pyxel/) from fi — fi included — that are memoised (lru_cache / cache):
    such a helper hands out the SAME object again for equal arguments"""
    seen = seen if seen is not None else set()
    if fi.qualname in seen or depth > 6:
        return []
    seen.add(fi.qualname)
    out = [fi.qualname] if any(w in ast.unparse(d).lower() for d in fi.node.decorator_list for w in ("cache", "memo")) else []
    for n in ast.walk(fi.node):
        if isinstance(n, ast.Call) and isinstance(n.func, ast.Name):
            r = world.resolve(fi.module, n.func.id)
            if r and r[0] == "function" and r[1].module.relpath.startswith("pyxel/"):
                out.extend(memoised_on_chain(world, r[1], depth + 1, seen))
    return out


def pure_contract(qual, name, shared=True):
    """Deterministic helper: the result is an uninterpreted frame indexed by the (symbolic) arguments; the same
    arguments give the same frame (needed to compare two executions). `shared`: the helper (or something it calls) is memoised, so equal
    arguments give the same array OBJECT; otherwise every call builds a new array (numpy constructors) that the caller may change."""
    def apply(ex, args, kwargs, fr):
        if any(isinstance(v, VRef) and isinstance(ex.st.cell(v), HObj) and not isinstance(ex.st.cell(v).cls, str) and getattr(ex.st.cell(v).cls, "name", "") in
               ("CCD", "Detector", "CMOS", "ReadoutProperties") for v in list(args) + list(kwargs.values())):
            raise Unsupported(f"{name} receives the detector: not a clock-independent helper")
        key = name + "|" + "|".join(f"{k}={describe(ex, v)}" for k, v in sorted(kwargs.items())) + "|" + "|".join(describe(ex, v) for v in args)
        memo = ex.st.ghost.setdefault("PURE", {})
        if key not in memo:
            f = z3.Function(f"{name}_result_{len(memo)}", z3.IntSort(), z3.IntSort(), z3.RealSort())
            ex.st.assume(f(*G) >= 0)          # fluxes / loaded images are non-negative
            memo[key] = f
        f = memo[key]
        # the helper may hand out the SAME array object for equal arguments (a cache, a module-level table): a caller that scales it
        # in place would corrupt every later step. The contract therefore returns one object per argument tuple.
        if not shared:
            return ex.st.alloc(HArr((D.ROWS, D.COLS), VDtype("float64"), lambda ix, f=f: VFloat(f(z_int(ix[0]), z_int(ix[1])))))
        objs = ex.st.ghost.setdefault("PURE_OBJ", {})
        if key not in objs:
            objs[key] = ex.st.alloc(HArr((D.ROWS, D.COLS), VDtype("float64"), lambda ix, f=f: VFloat(f(z_int(ix[0]), z_int(ix[1])))))
        return objs[key]
    return Contract(qual, apply, f"{name}: deterministic function of its arguments")


def describe(ex, v):
    if isinstance(v, (VInt, VFloat, VStr, VBool)):
        return str(v.v)
    if isinstance(v, VNone):
        return "None"
    if isinstance(v, VTuple):
        return "(" + ",".join(describe(ex, x) for x in v.items) + ")"
    if isinstance(v, VRef) and isinstance(ex.st.cell(v), HList):
        return "[" + ",".join(describe(ex, x) for x in ex.st.cell(v).items) + "]"
    return repr(v)


def two_detectors(ex, u, bucket, prior):
    """Two detectors with identical settings and bucket contents but unrelated clocks."""
    dets = []
    for tag in ("a", "b"):
        det = D.mk_detector(ex, u, prior="fresh")
        st = ex.st
        parts = dict(ex.det_parts)
        rci = u.cls("pyxel/detectors/readout_properties.py::ReadoutProperties")
        step = z3.Real(f"time_step_{tag}")
        st.assume(step > 0)
        rp = st.alloc(HObj(rci, {"_time": VFloat(z3.Real(f"time_{tag}")), "_time_step": VFloat(step), "_start_time": VFloat(z3.Real(f"start_{tag}")),
                                 "_pipeline_count": VInt(z3.Int(f"count_{tag}")), "_num_steps": VInt(z3.Int(f"nsteps_{tag}")),
                                 "_non_destructive": VBool(z3.Bool(f"nd_{tag}")), "_read_out": VBool(True), "_times_linear": VBool(z3.Bool(f"lin_{tag}"))}))
        st.cell(det).fields["_readout_properties"] = rp
        if prior:
            f = z3.Function("prior_content", z3.IntSort(), z3.IntSort(), z3.RealSort())
            st.assume(f(*G) >= 0)
            arr = st.alloc(HArr((D.ROWS, D.COLS), VDtype("float64"), lambda ix, f=f: VFloat(f(z_int(ix[0]), z_int(ix[1])))))
            st.cell(parts[bucket]).fields["_array"] = arr
        dets.append((det, parts, step))
    ex.st.ghost["generic"] = [G]
    ex.st.ghost["dark_dets"] = [d for d, _, _ in dets]
    # documented parameter ranges: positive time scale, non-negative flux level / multiplier
    ex.st.assume(z3.And(z3.Real("time_scale") > 0, z3.Real("level") >= 0, z3.Real("multiplier") >= 0))
    return dets


LIN_REPLAY = lambda w: {"code": """
import numpy as np, tempfile, os, verif_probes as VP
from pyxel.models.photon_collection import illumination, stripe_pattern, load_image
from pyxel.models.charge_generation import load_charge, dark_current
d = tempfile.mkdtemp(); fn = os.path.join(d, 'img.npy'); np.save(fn, np.arange(24.0).reshape(4, 6) + 1)
def run(model, steps_times, kwargs, bucket):
    det = VP.detector(rows=4, cols=6)      # even sizes: the stripe pattern refuses odd ones
    det.environment.temperature = 250.0
    det.set_readout(times=[t for t, _ in steps_times], start_time=0.0)
    det.empty()
    out = []
    for i, (t, s) in enumerate(steps_times):
        det.readout_properties.time, det.readout_properties.time_step, det.readout_properties.pipeline_count = t, s, i
        getattr(det, bucket).empty() if bucket != 'charge' else det.charge.empty()
        model(det, **kwargs)
        out.append(np.array(getattr(det, bucket).array))
    return out
VIOLATED, DETAIL = False, ''
for model, kwargs, bucket in ((illumination, dict(level=3.0), 'photon'), (illumination, dict(level=3.0, time_scale=0.5), 'photon'),
                              (illumination, dict(level=100.0, option='elliptic', object_size=[2, 3], object_center=[2, 3], time_scale=0.5), 'photon'),
                              (illumination, dict(level=100.0, option='rectangular', object_size=[2, 3], object_center=[2, 3], time_scale=4.0), 'photon'),
                              (load_image, dict(image_file=fn, time_scale=0.25), 'photon'), (load_charge, dict(filename=fn, time_scale=2.0), 'charge'), (stripe_pattern, dict(period=2, level=5.0), 'photon'), (stripe_pattern, dict(period=2, level=5.0, angle=25), 'photon'),
                              (load_image, dict(image_file=fn), 'photon'), (load_charge, dict(filename=fn), 'charge'),
                              (dark_current, dict(figure_of_merit=2.0, temporal_noise=False), 'charge'),
                              (dark_current, dict(figure_of_merit=2.0, temporal_noise=False, band_gap=1.1, band_gap_room_temperature=1.12), 'charge')):
    a, b = run(model, [(2.0, 2.0), (5.0, 3.0)], kwargs, bucket)
    if not np.allclose(a * 1.5, b) or not np.any(b > 0):
        VIOLATED, DETAIL = True, f'{model.__name__}{kwargs if model is not dark_current else ""}: increment for a 3 s step is not 1.5x the increment of a 2 s step: {a.ravel()[:3]} vs {b.ravel()[:3]}'
""", "expect": "the increment of a flux model is proportional to its own time step and independent of the rest of the clock"}


def linear_unit(label, qual, bucket, kwargs_of, helper_quals):
    def un(u: Unit):
        fi = u.fn(qual)
        for prior in (False, True):
            cfg = D.install(Cfg("real"))
            for hq, hn in helper_quals:
                memo = memoised_on_chain(u.world, u.world.function(hq))
                cfg.contracts[hq] = pure_contract(hq, hn, shared=bool(memo))
                if not prior:
                    u.static(f"linear[{label}].helper_result[{hn}]", True, hq, f"{hn}: " + (f"memoised through {memo}: equal arguments give the same array object (a caller must not change it)" if memo
                                                                                             else "no memoised function on its chain: every call builds a new array"))
            u.internal_replay, u.internal_witness = LIN_REPLAY, {}
            res = {}

            def setup(ex, prior=prior):
                res["dets"] = two_detectors(ex, u, bucket, prior)
                return [res["dets"][0][0]], kwargs_of(ex)

            def run_both(st):
                pass
            # run the model on detector a (explored paths), then on detector b inside the same state
            from pyvc.values import VFunc

            def setup_and_second(ex, prior=prior):
                args, kw = setup(ex, prior)
                ex.second = lambda: ex.call_function(VFunc(fi), [res["dets"][1][0]], dict(kwargs_of(ex)), Frame(None, fi.module))
                return args, kw
            # the second execution (detector b) runs INSIDE the exploration: the branches it takes are explored like those of the first
            ps = u.paths(fi, setup_and_second, cfg, label=f"{label}[prior={prior}]", then=lambda ex, v: ex.second())
            for p in ps:
                if p.kind != "return":
                    u.oblige(p, f"linear[{label}].no_raise[prior={prior}]", False, {"exc": p.exc_name()}, LIN_REPLAY)
                    continue
                if p.ex.then_exc is not None:
                    u.oblige(p, f"linear[{label}].second_run_no_raise", False, {}, LIN_REPLAY)
                    continue
                (da, pa, sa), (db, pb, sb) = res["dets"]
                xa = D.frame_elem(p.st, D.bucket_array(p.st, pa[bucket]) if bucket != "charge" else p.st.cell(pa["charge"]).fields["_array"])
                xb = D.frame_elem(p.st, D.bucket_array(p.st, pb[bucket]) if bucket != "charge" else p.st.cell(pb["charge"]).fields["_array"])
                if xa is None or xb is None:
                    u.oblige(p, f"linear[{label}].bucket_written[prior={prior}]", False, {}, LIN_REPLAY)
                    continue
                if prior:
                    pr = z3.Function("prior_content", z3.IntSort(), z3.IntSort(), z3.RealSort())(*G)
                    u.oblige(p, f"linear[{label}].increments_not_replaces", (xa - pr) * sb == (xb - pr) * sa, {}, LIN_REPLAY)
                else:
                    u.oblige(p, f"linear[{label}].proportional_to_own_step", xa * sb == xb * sa, {"step_a": sa, "step_b": sb}, LIN_REPLAY)
            u.cover(f"linear.cover[{label},prior={prior}]", ps, lambda p: p.kind == "return")
    return un


def kw_illumination(ex):
    return {"level": VFloat(z3.Real("level")), "option": VStr("uniform"), "time_scale": VFloat(z3.Real("time_scale"))}


def kw_illumination_rect(ex):
    return {"level": VFloat(z3.Real("level")), "option": VStr("rectangular"), "object_size": VTuple([VInt(z3.Int("osy")), VInt(z3.Int("osx"))]),
            "object_center": VTuple([VInt(z3.Int("ocy")), VInt(z3.Int("ocx"))]), "time_scale": VFloat(z3.Real("time_scale"))}


def kw_stripe(ex):
    return {"period": VInt(z3.Int("period")), "level": VFloat(z3.Real("level")), "angle": VInt(z3.Int("angle")), "startwith": VInt(z3.Int("startwith")),
            "time_scale": VFloat(z3.Real("time_scale"))}


def kw_load_image(ex):
    return {"image_file": VStr(z3.String("image_file")), "position": VTuple([VInt(z3.Int("pos_y")), VInt(z3.Int("pos_x"))]), "align": NONE,
            "convert_to_photons": VBool(False), "multiplier": VFloat(z3.Real("multiplier")), "time_scale": VFloat(z3.Real("time_scale"))}


def kw_load_charge(ex):
    return {"filename": VStr(z3.String("filename")), "position": VTuple([VInt(z3.Int("pos_y")), VInt(z3.Int("pos_x"))]), "align": NONE,
            "time_scale": VFloat(z3.Real("time_scale"))}


ILL = PC + "illumination.py"
unit("C17", "linear.illumination")(linear_unit("illumination", ILL + "::illumination", "photon", kw_illumination, [(ILL + "::calculate_illumination", "calculate_illumination")]))
unit("C17", "linear.stripe_pattern")(linear_unit("stripe_pattern", PC + "stripe_pattern.py::stripe_pattern", "photon", kw_stripe,
                                                   [(PC + "stripe_pattern.py::compute_pattern", "compute_pattern")]))
unit("C17", "linear.load_image")(linear_unit("load_image", PC + "load_image.py::load_image", "photon", kw_load_image,
                                               [("pyxel/util/image.py::load_cropped_and_aligned_image", "load_cropped_and_aligned_image")]))
unit("C17", "linear.load_charge")(linear_unit("load_charge", CG + "load_charge.py::load_charge", "charge", kw_load_charge,
                                                [("pyxel/util/image.py::load_cropped_and_aligned_image", "load_cropped_and_aligned_image")]))


def kw_dark_current(ex):
    # noise-free dark current: no shot noise, no fixed-pattern noise; band gaps either both given or both derived (Varshni)
    ex.st.assume(z3.Real("figure_of_merit") >= 0)
    if not ex.st.ghost.get("dark_env"):
        # the settings the model reads besides the clock: pixel pitch and temperature, IDENTICAL in the two detectors (their
        # validated ranges are the setters' contracts, C12); an unset temperature is covered too (both runs raise alike)
        ex.st.ghost["dark_env"] = True
        eci = ex.world.cls("pyxel/detectors/environment.py::Environment")
        ex.st.assume(z3.And(z3.Real("pixel_vert_size") > 0, z3.Real("pixel_horz_size") > 0, z3.Real("temperature") > 0, z3.Real("temperature") <= 1000))
        for ref in ex.st.ghost.get("dark_dets", []):
            d = ex.st.cell(ref)
            ex.st.cell(d.fields["_geometry"]).fields.update({"_pixel_vert_size": VFloat(z3.Real("pixel_vert_size")), "_pixel_horz_size": VFloat(z3.Real("pixel_horz_size"))})
            d.fields["_environment"] = ex.st.alloc(HObj(eci, {"_temperature": VFloat(z3.Real("temperature")), "_wavelength": NONE, "_numbytes": VInt(0)}))
    ex.st.assume(z3.And(z3.Real("band_gap") > 0, z3.Real("band_gap_room") > 0))      # a band gap is a positive energy (0.0 counts as "not given")
    both = ex.st.branch(z3.Bool("band_gaps_given"))
    return {"figure_of_merit": VFloat(z3.Real("figure_of_merit")), "spatial_noise_factor": NONE, "temporal_noise": VBool(False), "seed": NONE,
            "band_gap": VFloat(z3.Real("band_gap")) if both else NONE, "band_gap_room_temperature": VFloat(z3.Real("band_gap_room")) if both else NONE}


def _dark_unit():
    from . import quantity
    inner = linear_unit("dark_current", CG + "dark_current.py::dark_current", "charge", kw_dark_current, [])

    def un(u: Unit):
        for n in ("compute_dark_current", "simulate_dark_signal", "calculate_band_gap", "calculate_band_gap_varshni"):
            u.fn(CG + f"dark_current.py::{n}")
        orig = D.install

        def install(cfg):
            return quantity.install(orig(cfg))
        D.install = install
        try:
            inner(u)
        finally:
            D.install = orig
    return un


unit("C17", "linear.dark_current")(_dark_unit())


# the step contract the lemmas below rest on is proved on the real ReadoutProperties.__init__ / calculate_steps
from . import C02 as _C02
unit("C17", "steps.contract")(_C02.rp_ctor)
# ... and the per-step pixel rule of the exposure loop itself (kept in non-destructive mode, cleared in destructive mode — whatever else the
# Readout object says), proved on the real exposure.run_pipeline for a symbolic number of steps
unit("C17", "run.pixel_rule")(_C02.run_entry)


# ---- lemmas over the contracts --------------------------------------------------------------------------------
_k = z3.Int("k")
sum_steps = z3.RecFunction("sum_steps", z3.IntSort(), z3.RealSort())
z3.RecAddDefinition(sum_steps, [_k], z3.If(_k <= 0, z3.RealVal(0), sum_steps(_k - 1) + steps_spec(_k - 1)))
LEMMA_REPLAY = lambda w: {"code": """
import numpy as np, verif_probes as VP
from pyxel.pipelines import DetectionPipeline, ModelFunction, Processor
from pyxel.exposure import Readout, run_pipeline
def final_pixel(times, start, nd):
    det = VP.detector(quantum_efficiency=0.5)
    pipe = DetectionPipeline(photon_collection=[ModelFunction(func='pyxel.models.photon_collection.illumination', name='ill', arguments={'level': 8.0})],
                             charge_generation=[ModelFunction(func='pyxel.models.charge_generation.simple_conversion', name='conv', arguments={'binomial_sampling': False})],
                             charge_collection=[ModelFunction(func='pyxel.models.charge_collection.simple_collection', name='coll', arguments={})])
    r = run_pipeline(processor=Processor(detector=det, pipeline=pipe), readout=Readout(times=times, start_time=start, non_destructive=nd), outputs=None, debug=False, with_inherited_coords=False)
    return np.array(r['pixel'])
a = final_pixel([10.0], 1.0, True)[-1]; b = final_pixel([2.0, 3.5, 7.0, 10.0], 1.0, True)[-1]
d1 = final_pixel([2.0, 5.0], 1.0, False); d2 = final_pixel([3.0, 9.0], 1.0, False)
VIOLATED = not np.allclose(a, b) or not np.allclose(d1[0] * 2, d2[0]) or not np.allclose(d1[1] * 2, d2[1])
DETAIL = f'non-destructive final pixel: one readout {a.ravel()[0]}, four readouts {b.ravel()[0]}; destructive frames {d1[:, 0, 0]} vs doubled intervals {d2[:, 0, 0]}'
""", "expect": "accumulated charge depends only on start and end time; destructive frames scale with their duration"}


@unit("C17", "lemmas")
def lemmas(u: Unit):
    fq = "pyxel/exposure/readout.py::calculate_steps"
    u.fn(fq)
    k = z3.Int("k")
    # telescoping sum, by induction over k
    u.oblige(None, "steps.telescope[base]", sum_steps(1) == T(0) - START, {}, LEMMA_REPLAY, fnq=fq)
    u.oblige(None, "steps.telescope[step]", sum_steps(k + 1) == T(k) - START, {}, LEMMA_REPLAY, fnq=fq, hyps=[k >= 1, sum_steps(k) == T(k - 1) - START])
    # non-destructive accumulation: P(k+1) = P(k) + Phi * steps[k]  (C02 pixel rule + C15 + linear[f]) => P(k) = Phi * sum_steps(k)
    phi = z3.Real("Phi")
    P = z3.Function("pixel_after_step", z3.IntSort(), z3.RealSort())
    u.oblige(None, "nondestructive.sum[base]", P(1) == phi * sum_steps(1), {}, LEMMA_REPLAY, fnq=fq, hyps=[P(1) == 0 + phi * steps_spec(0)])
    u.oblige(None, "nondestructive.sum[step]", P(k + 1) == phi * sum_steps(k + 1), {}, LEMMA_REPLAY, fnq=fq,
             hyps=[k >= 1, P(k) == phi * sum_steps(k), P(k + 1) == P(k) + phi * steps_spec(k)])
    u.oblige(None, "nondestructive.end_minus_start", P(k) == phi * (T(k - 1) - START), {}, LEMMA_REPLAY, fnq=fq,
             hyps=[k >= 1, P(k) == phi * sum_steps(k), sum_steps(k) == T(k - 1) - START])
    # destructive: frame_i = Phi * steps[i]; scaling all intervals by lambda scales every frame by lambda
    lam = z3.Real("lambda")
    s1, s2 = z3.Real("step_i"), z3.Real("step_i_scaled")
    u.oblige(None, "destructive.proportional", phi * s2 == lam * (phi * s1), {}, LEMMA_REPLAY, fnq=fq, hyps=[s2 == lam * s1])


# "non-destructive mode keeps the pixel bucket between steps" must hold for EVERY detector type: the per-step reset as each
# detector class resolves it (MKID overrides Detector.empty) is proved in C02's unit, which is part of this check as well
from . import C02 as _C02  # noqa: E402
unit("C17", "nondestructive.keeps_pixel_all_detector_types")(_C02.empty_all_types)


# the linearity of the accumulated charge rests on the conversion and collection steps being exact (C15): expectation-value photo-conversion
# gives EXACTLY efficiency x photons (no rounding or truncation of the photon count) and simple collection adds exactly the generated charge
from . import C15 as _C15  # noqa: E402
unit("C17", "step.conversion_exact")(_C15.qe_unit)
unit("C17", "step.collection_exact")(_C15.collection)



def _photon_setter(u: Unit):
    """C13's Photon.array setter unit (imported late): the flux a model stores in the photon bucket is treated the same way at EVERY readout
    step -- negative values never stay stored, whatever the container went through before (its flags are arbitrary in the pre-state) -- so
    the charge collected over a partition of an interval does not depend on which step comes first."""
    from . import C13 as _C13
    return _C13.PHOTON_SETTER_UNIT(u)


unit("C17", "photon.setter")(_photon_setter)
