"""Symbolic model of ModelFittingDataTree.fitness (the REAL method, executed from source) shared by C11 / C06 / C04 / C09.

Ghost vocabulary (uninterpreted, so nothing about their values is assumed):
  PROC(i)  i-th processor of param_processor_list        TGT(i)   i-th slice of all_target_data (iteration order)
  UPD(p, P) processor returned by update_processor(parameter=p, processor=P)      RUN(P) tree returned by run_pipeline
  HASB(T)  "bucket" in T      SIM(T, flag) DataArray returned by _get_simulated_data      CF(S, T, W) _calculate_fitness
  weights: WFULL(rows, cols, value) = np.full((rows, cols), value) ; WFILE(i) = weighting_from_file.isel(processor=i)
The fitness loop runs under a loop contract:  overall_fitness == SUM(k) with SUM(k+1) = SUM(k) + TERM(k) and
  TERM(k) = CF(SIM(RUN(UPD(param, PROC(k))), flag(k)), TGT(k), weight(k)).
Callee contracts record their arguments in `rec` for the data-flow obligations of the other properties.
"""
from __future__ import annotations

from .common import *  # noqa: F401,F403
from . import boundary
from .trace import exc_attr, exc_add_note

FD = "pyxel/calibration/fitting_datatree.py"
I, R, B = z3.IntSort(), z3.RealSort(), z3.BoolSort()
NP, NT = z3.Int("n_processors"), z3.Int("n_targets")
PROC, TGT = z3.Function("fit_processor", I, I), z3.Function("fit_target", I, I)
UPD, RUN = z3.Function("upd_processor", I, I, I), z3.Function("run_tree", I, I)
HASB = z3.Function("tree_has_bucket", I, B)
SIM = z3.Function("simulated_data", I, B, I)
CF = z3.Function("calc_fitness", I, I, I, R)
WFULL, WFILE = z3.Function("w_full", I, I, R, I), z3.Function("w_file", I, I)
ROWF, COLF = z3.Function("proc_rows", I, I), z3.Function("proc_cols", I, I)
WLIST = z3.Function("weight_of", I, R)
PARAM = z3.Int("param_token")
WIC = z3.Bool("with_inherited_coords")
WMODE = z3.Int("weight_mode")        # 0: none, 1: per-processor numbers, 2: from files
WNONE = z3.IntVal(-1)


def flag(k):
    t = RUN(UPD(PARAM, PROC(k)))
    return z3.If(z3.And(HASB(t), z3.Not(WIC)), z3.BoolVal(True), WIC)


def weight(k):
    p = UPD(PARAM, PROC(k))
    return z3.If(WMODE == 1, WFULL(ROWF(p), COLF(p), WLIST(k)), z3.If(WMODE == 2, WFILE(k), WNONE))


def term(k):
    t = RUN(UPD(PARAM, PROC(k)))
    return CF(SIM(t, flag(k)), TGT(k), weight(k))


SUM = z3.RecFunction("fitness_sum", I, R)
_k = z3.Int("k_")
z3.RecAddDefinition(SUM, [_k], z3.If(_k <= 0, z3.RealVal(0), SUM(_k - 1) + term(_k - 1)))


def weight_token(ex, w):
    """Token of the value handed to _calculate_fitness as `weighting`."""
    if isinstance(w, VNone):
        return WNONE
    if isinstance(w, VRef) and isinstance(ex.st.cell(w), HArr):
        c = ex.st.cell(w)
        if len(c.shape) == 2:
            g = (z3.Int("wg0"), z3.Int("wg1"))
            return WFULL(z_int(c.shape[0]), z_int(c.shape[1]), to_real(c.elem(g)))
    if isinstance(w, VOpaque) and w.info.get("fn") is not None:          # weighting_from_file.isel(processor=i).to_numpy()
        sel = w.info["fn"].info.get("of")
        if isinstance(sel, VOpaque) and sel.info.get("kwargs", {}).get("processor") is not None and str(sel.info.get("fn").info.get("attr")) == "isel" \
                and sel.info["fn"].info.get("of") is ex.fit["weighting_from_file"]:
            return WFILE(z_int(int_of(sel.info["kwargs"]["processor"])))
    return ex.st.fresh_int("unknown_weight")


def mk_cfg(u, rec, may_raise=False):
    cfg = Cfg("real")
    boundary.install(cfg)
    cfg.lib_overrides[("sym_attr", "exc")] = exc_attr
    cfg.lib_overrides["symexc.add_note"] = exc_add_note

    def sym_attr(kind):
        def h(ex, obj, name, fr):
            if kind == "fitproc" and name == "detector":
                return VSym("fitdet", obj.t)
            if kind == "fitdet" and name == "geometry":
                return VSym("fitgeo", obj.t)
            if kind == "fitgeo" and name in ("row", "col"):
                return VInt((ROWF if name == "row" else COLF)(obj.t))
            raise Unsupported(f"attribute {name} of {kind}")
        return h
    for kind in ("fitproc", "fitdet", "fitgeo"):
        cfg.lib_overrides[("sym_attr", kind)] = sym_attr(kind)
    cfg.lib_overrides[("truth", "fitproc")] = lambda ex, v: True

    def conv(ex, args, kwargs, fr):
        rec.setdefault("convert", []).append((args, kwargs))
        return VOpaque("xr", PARAM, {"label": "parameter_1d"})

    def upd(ex, args, kwargs, fr):
        p, proc = kwargs.get("parameter", args[1] if len(args) > 1 else None), kwargs.get("processor", args[2] if len(args) > 2 else None)
        rec.setdefault("upd", []).append((p, proc))
        pt = p.t if isinstance(p, VOpaque) and p.t is not None else ex.st.fresh_int("some_parameter")
        qt = proc.t if isinstance(proc, VSym) else ex.st.fresh_int("some_processor")
        return VSym("fitproc", UPD(pt, qt))

    def run(ex, args, kwargs, fr):
        rec.setdefault("runs", []).append(dict(kwargs))
        proc = kwargs.get("processor", args[0] if args else None)
        if may_raise and ex.st.choose([True, True]) == 1:
            e = VSym("exc", ex.st.fresh_int("model_exc"))
            ex.st.ghost["MODEL_EXC"] = e
            raise PyExc(e)
        return VOpaque("xr", RUN(proc.t) if isinstance(proc, VSym) else ex.st.fresh_int("tree"), {"label": "data_tree"})

    def get_sim(ex, args, kwargs, fr):
        data = kwargs.get("data", args[1] if len(args) > 1 else None)
        fl = kwargs.get("with_inherited_coords", args[2] if len(args) > 2 else None)
        rec.setdefault("sim", []).append((data, fl))
        return VOpaque("xr", SIM(data.t, zb(ex.truth(fl, fr))), {"label": "simulated_data"})

    def calc(ex, args, kwargs, fr):
        s, t, w = kwargs.get("simulated_data"), kwargs.get("target_data"), kwargs.get("weighting", NONE)
        rec.setdefault("calc", []).append((s, t, w))
        return VFloat(CF(s.t if isinstance(s, VOpaque) and s.t is not None else ex.st.fresh_int("some_sim"),
                         t.t if isinstance(t, VOpaque) and t.t is not None else ex.st.fresh_int("some_target"), weight_token(ex, w)))
    M = f"{FD}::ModelFittingDataTree."
    cfg.contracts[M + "convert_to_parameters"] = Contract(M + "convert_to_parameters", conv, "C10: decision vector -> parameters")
    cfg.contracts[M + "update_processor"] = Contract(M + "update_processor", upd, "C06/C10: copy of the processor with the parameters applied")
    cfg.contracts["pyxel/exposure/exposure.py::run_pipeline"] = Contract("pyxel/exposure/exposure.py::run_pipeline", run, "C02/C03: one exposure of the given processor")
    cfg.contracts[M + "_get_simulated_data"] = Contract(M + "_get_simulated_data", get_sim, "C11.sim_data")
    cfg.contracts[M + "_calculate_fitness"] = Contract(M + "_calculate_fitness", calc, "C11.calc")
    cfg.lib_overrides[("contains", "xr")] = lambda ex, container, item: (HASB(container.t) if isinstance(item, VStr) and item.v == "bucket" and container.t is not None
                                                                         else ex.st.fresh_bool("xr_contains"))
    fi = u.fn(M + "fitness")

    def inv(ex, fr, k):
        return {"running_sum": to_real(fr.locals["overall_fitness"]) == SUM(k), "bounds": z3.And(k >= 0, k <= z3.If(NP < NT, NP, NT))}

    def hav(ex, fr, k):
        fr.locals["overall_fitness"] = VFloat(ex.st.fresh_real("overall_fitness"))
        ex.st.ghost["FIT_K"] = k
    cfg.loops[(fi.qualname, 0)] = LoopSpec("(processor_id, (processor, target_data)) in enumerate(zip(processor_list, self.all_target_data, strict=False))",
                                           inv, havoc=hav, name="fitness.loop")
    return cfg, fi


def setup(u, ex):
    st = ex.st
    st.assume(z3.And(NP >= 0, NT >= 0, WMODE >= 0, WMODE <= 2))
    mci = u.cls(f"{FD}::ModelFittingDataTree")
    o = lambda l, **kw: VOpaque("xr", st.fresh_int("xr"), dict(label=l, **kw))
    from pyvc import arrays as A
    wl = A.new_array(ex, (z3.Int("n_weights"),), VDtype("float64"), lambda ix: VFloat(WLIST(z_int(ix[0]))))
    st.assume(z3.Int("n_weights") >= z3.If(NP < NT, NP, NT))
    wfile = o("weighting_from_file")
    ex.fit = {"readout": o("readout", truthy=True), "weighting_from_file": wfile, "fitness_func": o("fitness_func"), "sim_fit_range": o("sim_fit_range")}
    me = st.alloc(HObj(mci, {
        "pop": VInt(z3.Int("population")), "param_processor_list": VSeq(NP, lambda i: VSym("fitproc", PROC(i)), None, "list"),
        "all_target_data": VSeq(NT, lambda i: VOpaque("xr", TGT(i), {"label": "target", "index": i}), None, "list"),
        "readout": ex.fit["readout"], "pipeline_seed": VMaybe(z3.Bool("has_seed"), VInt(z3.Int("pipeline_seed"))), "_with_inherited_coords": VBool(WIC),
        "weighting": VMaybe(WMODE == 1, wl), "weighting_from_file": VMaybe(WMODE == 2, wfile), "fitness_func": ex.fit["fitness_func"],
        "sim_output": VStr("image"), "sim_fit_range": ex.fit["sim_fit_range"], "_variables": o("variables")}))
    ex.fit["self"] = me
    dv = o("decision_vector_1d")
    ex.fit["decision"] = dv
    return [me, dv], {}
