"""C10 — calibration candidates map to the right parameters, inside their bounds.

  width(v) = 1 if v.values == "_" else len(v.values);  off(k) = sum_{j<k} width(j)            [statement]
  convert_to_parameters(d)   for a SYMBOLIC number of variables (loop invariant, generic variable J and position g with
                             off(J) <= g < off(J+1)):  result[..., g] == 10 ** d[..., g] iff variable J is logarithmic,
                             d[..., g] otherwise; 1-D and 2-D inputs; shape kept
  update_processor(p, proc)  works on a deep copy; the k-th assignment uses key_k and p[off(k)] (scalar) resp. the slice
                             p[off(k) : off(k) + width(k)] (vector), in declaration order, exactly one per variable
  _set_bound                 lower/upper vectors: component off(k)+i carries tr_k(low), tr_k(high), tr_k = log10 iff
                             logarithmic, shared or per-component boundary pairs (bounded shapes, symbolic bounds)
  inbox (lemma)              lbd <= d <= ubd component-wise  =>  applied value inside its declared [low, high]
  report.champions / .best   _get_champions / get_best_individuals executed symbolically with pygmo and xarray as boundary objects:
                             the reported parameters are convert_to_parameters of the SAME array that is reported as decision, the
                             fitness comes from the same individuals, one selection per island dataset (contracts/calibreport.py)
"""
from __future__ import annotations

import ast

from .common import *  # noqa: F401,F403
from pyvc import arrays

FD = "pyxel/calibration/fitting_datatree.py"
AD = "pyxel/calibration/archipelago_datatree.py"
PVQ = "pyxel/observation/parameter_values.py"
BOUNDED = {
    r'^bounds\.layout': 'a fixed family of variable layouts (scalars and vectors of 2..3 components)',
    r'^report\.best': 'archipelagos of 1 or 3 islands',
}      # unit-name / obligation-name patterns -> the family these obligations are proved for
TRUSTED = ["pygmo / xarray objects of the reporting path are boundary objects (provenance obligations; sel / argsort / concat do what their names say)",
           "real arithmetic; 10**x and log10 are uninterpreted, strictly monotone and mutually inverse on positives (10**log10(b) may differ from b by an ulp in binary64)",
           "pygmo only proposes vectors inside get_bounds()", "offset monotonicity lemma off(J+1) <= off(k) for J < k (proved by induction, then used as an instance)",
           "_set_bound is proved on bounded shapes (1..3 variables, vector widths 1..3) with symbolic bounds"]
W = z3.Function("width_list", z3.IntSort(), z3.IntSort())         # len(values) when values is a list
SC = z3.Function("is_scalar", z3.IntSort(), z3.BoolSort())         # values == "_"
LOG = z3.Function("is_log", z3.IntSort(), z3.BoolSort())
KEY = z3.Function("key_of", z3.IntSort(), z3.StringSort())
NV = z3.Int("n_vars")
_k = z3.Int("k")
VARS = z3.Const("vars_seq", z3.SeqSort(z3.IntSort()))
width = lambda j: z3.If(SC(VARS[j]), 1, W(VARS[j]))
off = z3.RecFunction("off", z3.IntSort(), z3.IntSort())
z3.RecAddDefinition(off, [_k], z3.If(_k <= 0, z3.IntVal(0), off(_k - 1) + width(_k - 1)))
J, GP = z3.Int("J_var"), z3.Int("g_pos")

REPLAY = lambda w: {"code": """
import numpy as np
from pyxel.observation import ParameterValues
from pyxel.calibration.fitting_datatree import ModelFittingDataTree
class Fake(ModelFittingDataTree):
    def __init__(self, variables): self._variables = variables
vs = [ParameterValues(key='a.b.vec', values=['_', '_', '_'], boundaries=[1.0, 100.0], logarithmic=True), ParameterValues(key='a.b.s1', values='_', boundaries=[0.0, 5.0], enabled=False),
      ParameterValues(key='a.b.s2', values='_', boundaries=[10.0, 1000.0], logarithmic=True), ParameterValues(key='a.b.v2', values=['_', '_'], boundaries=[[0, 1], [2, 3]]),
      ParameterValues(key='a.b.v3', values=['_', '_'], boundaries=[[1.0, 10.0], [100.0, 1000.0]], logarithmic=True)]
f = Fake(vs)
d = np.array([0.0, 1.0, 2.0, 4.5, 1.5, 0.25, 2.5, 0.5, 2.5])
exp = np.array([1.0, 10.0, 100.0, 4.5, 10 ** 1.5, 0.25, 2.5, 10 ** 0.5, 10 ** 2.5])
got1, got2 = f.convert_to_parameters(d), f.convert_to_parameters(np.stack([d, d]))
lo, hi = f._set_bound()
calls = []
class P:
    def set(self, key, value): calls.append((key, np.array(value).tolist()))
import copy
f.update_processor.__func__  # exists
import unittest.mock as m
with m.patch('copy.deepcopy', lambda p: p):
    f.update_processor(parameter=exp, processor=P())
expc = [('a.b.vec', [1.0, 10.0, 100.0]), ('a.b.s1', 4.5), ('a.b.s2', 10 ** 1.5), ('a.b.v2', [0.25, 2.5]), ('a.b.v3', [10 ** 0.5, 10 ** 2.5])]
VIOLATED = (not np.allclose(got1, exp) or not np.allclose(got2, np.stack([exp, exp])) or not np.allclose(lo, [0, 0, 0, 0, 1, 0, 2, 0, 2]) or not np.allclose(hi, [2, 2, 2, 5, 3, 1, 3, 1, 3])
            or [(k, v) for k, v in calls] != [(k, v) for k, v in expc])
DETAIL = f'convert -> {got1.tolist()}; bounds {lo} {hi}; update calls {calls}'
""", "expect": "decision-vector components are assigned to variables in declaration order; log variables are 10**x"}


def pv_values(ex, t):
    return VOpaque("pvvalues", t, {})


def mk_cfg(u):
    cfg = Cfg("real")
    cfg.field_types[("ParameterValues", "_values")] = ("custom", pv_values)
    cfg.field_types[("ParameterValues", "_logarithmic")] = "bool"
    cfg.field_types[("ParameterValues", "_enabled")] = "bool"          # arbitrary per variable: the layout holds whatever the flags are
    cfg.field_types[("ParameterValues", "_key")] = "str"
    cfg.lib_overrides[("eq", "pvvalues")] = lambda ex, a, b, fr: (SC((a if isinstance(a, VOpaque) else b).t)
                                                                   if isinstance((b if isinstance(a, VOpaque) else a), VStr) and (b if isinstance(a, VOpaque) else a).v == "_" else False)
    cfg.lib_overrides[("isinstance", "pvvalues")] = lambda ex, v, libs, clss: VBool(z3.Not(SC(v.t))) if ("builtins.list" in libs or "collections.abc.Sequence" in libs or "typing.Sequence" in libs) \
        else VBool(SC(v.t)) if "builtins.str" in libs else VBool(False)
    cfg.lib_overrides[("len", "pvvalues")] = lambda ex, v, fr: VInt(z3.If(SC(v.t), 1, W(v.t)))
    return cfg


def sym_vars(ex, u):
    ci = u.cls(f"{PVQ}::ParameterValues")
    st = ex.st
    q = z3.Int("q")
    st.assume(z3.And(z3.Length(VARS) == NV, NV >= 0))
    st.assume(z3.ForAll([q], W(q) >= 1))
    # the field arrays of the symbolic ParameterValues objects ARE the spec functions
    st.symfields[("ParameterValues", "_logarithmic")] = z3.Lambda([q], LOG(q))
    st.symfields[("ParameterValues", "_key")] = z3.Lambda([q], KEY(q))
    st.symfields[("ParameterValues", "_values")] = z3.Lambda([q], q)
    return VSeq(NV, lambda i: VSym(ci, VARS[i]), VARS, "list")


def mono_facts(st, k):
    """off is monotone (lemma proved in unit `lemmas`): instantiated for the generic variable J."""
    st.assume(z3.Implies(z3.And(J >= 0, J < k), off(J + 1) <= off(k)))
    st.assume(z3.Implies(z3.And(J >= 0, k >= 0, k <= J), off(k) <= off(J)))
    st.assume(z3.Implies(z3.And(J >= 0, k >= 0, k < J), off(k + 1) <= off(J)))
    st.assume(off(k) >= 0)


def convert_spec(ndim):
    def P(ex, fr):
        return ex.st.cell(fr.locals["parameters"])

    def idx(g):
        return (z3.Int("g_row"), g) if ndim == 2 else (g,)

    def inv(ex, fr, k):
        d = ex.dvec
        p = to_real(P(ex, fr).elem(idx(GP)))
        dv = to_real(d(idx(GP)))
        return {"offset": z_int(int_of(fr.locals["a"])) == off(k),
                "layout": z3.Implies(z3.And(J >= 0, J < NV, off(J) <= GP, GP < off(J + 1)), p == z3.If(z3.And(J < k, LOG(VARS[J])), pow10(dv), dv)),
                "shape": z3.And(*[z_int(a) == z_int(b) for a, b in zip(P(ex, fr).shape, ex.dshape)])}

    def hav(ex, fr, k):
        f = z3.Function(ex.st.fresh_name("params"), *([z3.IntSort()] * ndim), z3.RealSort())
        P(ex, fr).elem = lambda ix, f=f: VFloat(f(*[z_int(i) for i in ix]))
        mono_facts(ex.st, k)
    return LoopSpec("var in self._variables", inv, havoc=hav, modifies=lambda ex, fr: [fr.locals["parameters"].addr], name=f"convert.loop[{ndim}D]")


@unit("C10", "convert.layout")
def convert_layout(u: Unit):
    fi = u.fn(f"{FD}::ModelFittingDataTree.convert_to_parameters")
    mci = u.cls(f"{FD}::ModelFittingDataTree")
    u.internal_replay, u.internal_witness = REPLAY, {}
    for ndim in (1, 2):
        cfg = mk_cfg(u)
        cfg.loops[(fi.qualname, 0)] = convert_spec(ndim)
        D = z3.Int("dim")
        M = z3.Int("n_individuals")

        def setup(ex, ndim=ndim):
            vs = sym_vars(ex, u)
            st = ex.st
            st.assume(z3.And(D == off(NV), M >= 1, z3.Int("g_row") >= 0, z3.Int("g_row") < M, GP >= 0, GP < D))
            mono_facts(st, z3.IntVal(0))
            f = z3.Function("decision", *([z3.IntSort()] * ndim), z3.RealSort())
            shape = (D,) if ndim == 1 else (M, D)
            dv = st.alloc(HArr(shape, VDtype("float64"), lambda ix: VFloat(f(*[z_int(i) for i in ix]))))
            ex.dvec = st.cell(dv).elem
            ex.dshape = shape
            me = st.alloc(HObj(mci, {"_variables": vs}))
            return [me, dv], {}
        ps = u.paths(fi, setup, cfg, label=f"convert_to_parameters[{ndim}D]")
        for p in ps:
            if p.kind != "return" or not p.ex.is_arr(p.value):
                u.oblige(p, f"convert.no_raise[{ndim}D]", False, {"exc": p.exc_name()}, REPLAY)
                continue
            out = p.st.cell(p.value)
            ix = (z3.Int("g_row"), GP) if ndim == 2 else (GP,)
            dv = to_real(p.ex.dvec(ix))
            u.oblige(p, f"convert.layout[{ndim}D]", z3.Implies(z3.And(J >= 0, J < NV, off(J) <= GP, GP < off(J + 1)),
                                                                to_real(out.elem(ix)) == z3.If(LOG(VARS[J]), pow10(dv), dv)), {}, REPLAY)
            u.oblige(p, f"convert.shape[{ndim}D]", z3.And(*[z_int(a) == z_int(b) for a, b in zip(out.shape, p.ex.dshape)]), {}, REPLAY)
        u.cover(f"convert.cover[{ndim}D]", ps, lambda p: p.kind == "return")


@unit("C10", "update.layout")
def update_layout(u: Unit):
    fi = u.fn(f"{FD}::ModelFittingDataTree.update_processor")
    mci = u.cls(f"{FD}::ModelFittingDataTree")
    cfg = mk_cfg(u)
    D = z3.Int("dim")
    PVEC = z3.Function("parameter", z3.IntSort(), z3.RealSort())
    u.internal_replay, u.internal_witness = REPLAY, {}

    def set_attr(ex, obj, name, fr):
        if name == "set":
            return VLib("newproc.set", obj)
        raise Unsupported(f"processor copy .{name}")

    def set_call(ex, f, args, kwargs, fr):
        st = ex.st
        k = st.ghost["LOOP_K"]
        key, value = kwargs.get("key"), kwargs.get("value")
        st.oblige("update.layout.on_the_copy", bool(f.self_val.info.get("copy_of") is ex.orig_proc), {"replay": REPLAY}, assume_after=False)
        st.oblige("update.layout.key", z_str(key.v) == KEY(VARS[k]), {"replay": REPLAY}, assume_after=False)
        if ex.is_arr(value):
            c = st.cell(value)
            lo = c.tag[2][0][1] if c.tag and c.tag[0] == "view" else None
            ok = lo is not None and len(c.shape) == 1
            st.oblige("update.layout.vector_slice", z3.And(zb(ok), z3.Not(SC(VARS[k])), (lo == off(k)) if ok else z3.BoolVal(False),
                                                           (z_int(c.shape[0]) == W(VARS[k])) if ok else z3.BoolVal(False)), {"replay": REPLAY}, assume_after=False)
        else:
            st.oblige("update.layout.scalar_component", z3.And(SC(VARS[k]), to_real(value) == PVEC(off(k))), {"replay": REPLAY}, assume_after=False)
        st.ghost["SETS"] = st.ghost["SETS"] + 1
        return NONE
    cfg.lib_overrides[("opaque_attr", "newproc")] = set_attr
    cfg.lib_overrides["newproc.set"] = set_call
    cfg.lib_overrides[("deepcopy", "proc")] = lambda ex, v, dc, fr: VOpaque("newproc", ex.st.fresh_int("copy"), {"copy_of": v})

    def inv(ex, fr, k):
        return {"offset": z_int(int_of(fr.locals["a"])) == off(k), "one_set_per_variable": ex.st.ghost["SETS"] == k}

    def hav(ex, fr, k):
        ex.st.ghost["SETS"] = ex.st.fresh_int("sets")
        ex.st.ghost["LOOP_K"] = k
        mono_facts(ex.st, k)
        ex.st.assume(z3.Implies(z3.And(k >= 0, k < NV), off(k + 1) <= off(NV)))
    cfg.loops[(fi.qualname, 0)] = LoopSpec("var in self._variables", inv, havoc=hav, name="update.loop")

    def setup(ex):
        vs = sym_vars(ex, u)
        st = ex.st
        st.assume(D == off(NV))
        st.ghost["SETS"] = z3.IntVal(0)
        pv = st.alloc(HArr((D,), VDtype("float64"), lambda ix: VFloat(PVEC(z_int(ix[0])))))
        ex.orig_proc = VOpaque("proc", st.fresh_int("proc"), {})
        me = st.alloc(HObj(mci, {"_variables": vs}))
        return [me], {"parameter": pv, "processor": ex.orig_proc}
    ps = u.paths(fi, setup, cfg, label="update_processor")
    for p in ps:
        if p.kind != "return":
            u.oblige(p, "update.no_raise", False, {"exc": p.exc_name()}, REPLAY)
            continue
        u.oblige(p, "update.returns_the_copy", bool(isinstance(p.value, VOpaque) and p.value.kind == "newproc" and p.value.info.get("copy_of") is p.ex.orig_proc), {}, REPLAY)
        u.oblige(p, "update.one_set_per_variable", p.st.ghost["SETS"] == NV, {}, REPLAY)
    u.cover("update.cover", ps, lambda p: p.kind == "return")


# ---- _set_bound on bounded shapes -----------------------------------------------------------------------------------
SHAPES = [("s",), ("v2",), ("s", "v3"), ("v2", "s"), ("v3p", "s", "v2")]      # s scalar, vN vector shared pair, vNp per-component pairs


@unit("C10", "bounds.layout")
def bounds_layout(u: Unit):
    fi = u.fn(f"{FD}::ModelFittingDataTree._set_bound")
    mci = u.cls(f"{FD}::ModelFittingDataTree")
    pci = u.cls(f"{PVQ}::ParameterValues")
    for shape in SHAPES:
        holder = {}

        def setup(ex, shape=shape):
            st = ex.st
            vs, exp = [], []
            for j, kind in enumerate(shape):
                lg = z3.Bool(f"log{j}")
                n = 1 if kind == "s" else int(kind[1])
                if kind == "s":
                    values = VStr("_")
                else:
                    values = st.alloc(HList([VStr("_")] * n))
                if kind.endswith("p"):
                    los = [z3.Real(f"lo{j}_{i}") for i in range(n)]
                    his = [z3.Real(f"hi{j}_{i}") for i in range(n)]
                    b = st.alloc(HArr((n, 2), VDtype("float64"), lambda ix, los=los, his=his: VFloat(sel2(ix, los, his))))
                else:
                    los, his = [z3.Real(f"lo{j}")] * n, [z3.Real(f"hi{j}")] * n
                    b = st.alloc(HArr((2,), VDtype("float64"), lambda ix, los=los, his=his: VFloat(z3.If(z_int(ix[0]) == 0, los[0], his[0]))))
                for t in los + his:         # a logarithmic boundary is a positive number; a linear one is ANY number (0 and negatives included)
                    st.assume(z3.Implies(lg, t > 0))
                vs.append(st.alloc(HObj(pci, {"_key": VStr(f"a.b.k{j}"), "_values": values, "_boundaries": b, "_logarithmic": VBool(lg), "_enabled": VBool(True)})))
                for i in range(n):
                    exp.append((lg, los[i], his[i]))
            holder["exp"] = exp
            me = st.alloc(HObj(mci, {"_variables": st.alloc(HList(vs))}))
            return [me], {}
        ps = u.paths(fi, setup, Cfg("real"), label=f"_set_bound{shape}")
        for p in ps:
            if p.kind != "return":
                u.oblige(p, f"bounds.layout{shape}.no_raise", False, {"exc": p.exc_name()}, REPLAY)
                continue
            lbd, ubd = (p.ex.try_list(x) for x in p.ex.iterate(p.value, None))
            exp = holder["exp"]
            ok = lbd is not None and ubd is not None and len(lbd) == len(ubd) == len(exp)
            goal = []
            if ok:
                for (lg, lo, hi), a, b in zip(exp, lbd, ubd):
                    goal.append(z3.And(to_real(a) == z3.If(lg, log10(lo), lo), to_real(b) == z3.If(lg, log10(hi), hi)))
            u.oblige(p, f"bounds.layout{shape}", z3.And(zb(ok), *goal), {}, REPLAY)
        u.cover(f"bounds.cover{shape}", ps, lambda p: p.kind == "return")


def sel2(ix, los, his):
    out = z3.If(z_int(ix[1]) == 0, los[-1], his[-1])
    for i in range(len(los) - 2, -1, -1):
        out = z3.If(z_int(ix[0]) == i, z3.If(z_int(ix[1]) == 0, los[i], his[i]), out)
    return out


@unit("C10", "lemmas")
def lemmas(u: Unit):
    fq = f"{FD}::ModelFittingDataTree.convert_to_parameters"
    u.fn(fq)
    k = z3.Int("k")
    q = z3.Int("q")
    wpos = z3.ForAll([q], W(q) >= 1)
    # off is monotone: induction on k for the statement  J < k  =>  off(J+1) <= off(k)
    u.oblige(None, "lemma.off_monotone[base]", off(J + 1) <= off(k), {}, REPLAY, fnq=fq, hyps=[wpos, J >= 0, k == J + 1])
    u.oblige(None, "lemma.off_monotone[step]", off(J + 1) <= off(k + 1), {}, REPLAY, fnq=fq, hyps=[wpos, J >= 0, k > J, off(J + 1) <= off(k)])
    # inbox: bounds are tr(low), tr(high); a decision inside them converts to a value inside [low, high]
    lo, hi, d = z3.Reals("low high d")
    x, y = z3.Reals("x y")
    ax = [z3.ForAll([x], z3.Implies(x > 0, pow10(log10(x)) == x)), z3.ForAll([x, y], z3.Implies(x <= y, pow10(x) <= pow10(y)))]
    u.oblige(None, "inbox[logarithmic]", z3.And(pow10(d) >= lo, pow10(d) <= hi), {}, REPLAY, fnq=fq, hyps=ax + [lo > 0, hi > 0, log10(lo) <= d, d <= log10(hi)])
    u.oblige(None, "inbox[linear]", z3.And(d >= lo, d <= hi), {}, REPLAY, fnq=fq, hyps=[lo <= d, d <= hi])


# the reporting path by symbolic execution with pygmo / xarray as boundary objects (provenance obligations)
from . import calibreport as _CR  # noqa: E402
unit("C10", "report.champions")(_CR.champions_unit)
unit("C10", "report.best")(_CR.best_unit)
STANDIN = {r"report\.": _CR.CHAMP_REPLAY}


# ---- the declared boundaries are the stored boundaries (ParameterValues.__init__) ------------------------------------------------------
BOUNDS_REPLAY = lambda w: {"code": """
import numpy as np
from pyxel.observation import ParameterValues
from pyxel.calibration.fitting_datatree import ModelFittingDataTree
VIOLATED, DETAIL = False, 'each component keeps the boundary pair declared for it'
for vals, b in (('_', [0.5, 7.0]), (['_', '_', '_'], [[100.0, 1000.0], [10.0, 50.0], [1.0, 2.0]]), (['_', '_'], [[5.0, 6.0], [1.0, 9.0]]), (['_', '_'], [0.0, 1.0])):
    pv = ParameterValues(key='a.b.c', values=vals, boundaries=b)
    if not np.array_equal(np.asarray(pv.boundaries, dtype=float), np.asarray(b, dtype=float)):
        VIOLATED, DETAIL = True, f'declared boundaries {b}, stored {np.asarray(pv.boundaries).tolist()}'; break
class Fake(ModelFittingDataTree):
    def __init__(self, variables): self._variables = variables
lo, hi = Fake([ParameterValues(key='a.b.v', values=['_', '_', '_'], boundaries=[[100.0, 1000.0], [10.0, 50.0], [1.0, 2.0]])])._set_bound()
if not VIOLATED and (list(lo) != [100.0, 10.0, 1.0] or list(hi) != [1000.0, 50.0, 2.0]):
    VIOLATED, DETAIL = True, f'box handed to the optimiser: lower {list(lo)} upper {list(hi)}'
for bad in ([1.0, 2.0, 3.0], [[1.0, 2.0]], [[[1.0, 2.0]]]):
    try:
        ParameterValues(key='a.b.c', values=['_', '_'], boundaries=bad); VIOLATED, DETAIL = True, f'boundaries {bad} accepted for two components'
    except ValueError:
        pass
""", "expect": "ParameterValues keeps the declared boundary pairs, component by component"}


@unit("C10", "bounds.declared")
def bounds_declared(u: Unit):
    """ParameterValues.__init__: the stored boundaries are the declared ones, element by element — one shared (low, high) pair or one pair
    per component (2 and 3 components, symbolic numbers, in any order); other shapes are refused. (What _set_bound does with them is
    bounds.layout.)"""
    fi = u.fn(f"{PVQ}::ParameterValues.__init__")
    ci = u.cls(f"{PVQ}::ParameterValues")
    for shape in ("pair", 2, 3, "bad"):
        cfg = Cfg("real")

        def setup(ex, shape=shape):
            obj = ex.st.alloc(HObj(ci, {}))
            ex.self_ref = obj
            n = 3 if shape == "pair" else (2 if shape == "bad" else shape)
            vals = ex.st.alloc(HList([VStr("_")] * n))
            if shape == "pair":
                ex.b = [VFloat(z3.Real("low")), VFloat(z3.Real("high"))]
                b = ex.st.alloc(HList(list(ex.b)))
            elif shape == "bad":
                ex.b = None
                b = ex.st.alloc(HList([ex.st.alloc(HList([VFloat(z3.Real("low")), VFloat(z3.Real("high"))]))]))      # one pair for two components
            else:
                ex.b = [[VFloat(z3.Real(f"low{i}")), VFloat(z3.Real(f"high{i}"))] for i in range(shape)]
                b = ex.st.alloc(HList([ex.st.alloc(HList(list(p_))) for p_ in ex.b]))
            return [obj], {"key": VStr("a.b.c"), "values": vals, "boundaries": b, "logarithmic": VBool(z3.Bool("logarithmic"))}
        ps = u.paths(fi, setup, cfg, label=f"ParameterValues.__init__[boundaries {shape}]")
        for p in ps:
            if shape == "bad":
                u.oblige(p, "bounds.declared.wrong_shape_refused", p.kind == "raise" and p.exc_name() == "ValueError", {}, BOUNDS_REPLAY)
                continue
            if p.kind != "return":
                u.oblige(p, f"bounds.declared.no_raise[{shape}]", False, {"exc": p.exc_name()}, BOUNDS_REPLAY)
                continue
            arr = p.st.cell(p.ex.self_ref).fields.get("_boundaries")
            if not p.ex.is_arr(arr):
                u.oblige(p, f"bounds.declared.stored_as_declared[{shape}]", False, {}, BOUNDS_REPLAY)
                continue
            c = p.st.cell(arr)
            if shape == "pair":
                goal = z3.And(zb(len(c.shape) == 1), to_real(c.elem((0,))) == z3.Real("low"), to_real(c.elem((1,))) == z3.Real("high"))
            else:
                goal = z3.And(zb(len(c.shape) == 2), *[z3.And(to_real(c.elem((i, 0))) == z3.Real(f"low{i}"), to_real(c.elem((i, 1))) == z3.Real(f"high{i}")) for i in range(shape)])
            u.oblige(p, f"bounds.declared.stored_as_declared[{shape}]", goal, {}, BOUNDS_REPLAY)
        u.cover(f"bounds.declared.cover[{shape}]", ps, lambda p: True)


STANDIN[r"bounds\\.declared"] = BOUNDS_REPLAY


# the values applied to the pipeline for the REPORT (re-simulation of the last champions) are each island's own champion parameters
unit("C10", "resimulation.pairs")(_CR.pairs_unit)
unit("C10", "run_evolve")(_CR.evolve_unit)
STANDIN[r"resimulation|run_evolve"] = _CR.PAIRS_REPLAY


# ---- representation of the declared values: what the layout units ASSUME about ParameterValues.values ---------------------------------------
VALUES_REPLAY = lambda w: {"code": """
import numpy as np
from pyxel.observation import ParameterValues
from pyxel.calibration.fitting_datatree import ModelFittingDataTree
class Fake(ModelFittingDataTree):
    def __init__(self, variables): self._variables = variables
VIOLATED, DETAIL = False, 'a vector parameter declared with any sequence of placeholders is one variable of that many components in every function of the problem'
for vals in (['_', '_', '_'], ('_', '_', '_'), ('_', '_'), ['_']):
    vs = [ParameterValues(key='a.b.s', values='_', boundaries=[0.0, 5.0]), ParameterValues(key='a.b.vec', values=vals, boundaries=[1.0, 100.0], logarithmic=True),
          ParameterValues(key='a.b.t', values='_', boundaries=[10.0, 1000.0], logarithmic=True)]
    f = Fake(vs)
    n = len(vals)
    lo, hi = f._set_bound()
    d = np.array([4.5] + [1.0] * n + [2.0])
    got = f.convert_to_parameters(d)
    calls = []
    class P:
        def set(self, key, value): calls.append((key, np.array(value).tolist()))
    import unittest.mock as m
    with m.patch('copy.deepcopy', lambda p: p):
        f.update_processor(parameter=got, processor=P())
    want_calls = [('a.b.s', 4.5), ('a.b.vec', [10.0] * n) if n > 1 or isinstance(vals, (list, tuple)) else None, ('a.b.t', 100.0)]
    if len(lo) != n + 2 or not np.allclose(got, [4.5] + [10.0] * n + [100.0]) or [c[0] for c in calls] != ['a.b.s', 'a.b.vec', 'a.b.t'] or not np.allclose(np.ravel(calls[1][1]), [10.0] * n) or not np.allclose(calls[2][1], 100.0):
        VIOLATED, DETAIL = True, f'values={vals!r}: {len(lo)} box components, parameters {np.asarray(got).tolist()}, applied {calls}'; break
    if not isinstance(vs[1].values, list):
        VIOLATED, DETAIL = True, f'values={vals!r} stored as {type(vs[1].values).__name__}: the layout functions only recognise a list as a vector parameter'; break
""", "expect": "box, conversion and application agree on the number of components of every variable, whatever sequence type declared it"}


@unit("C10", "values.representation")
def values_representation(u: Unit):
    """ParameterValues.__init__ (with convert_values) for values declared as '_' or as a list / tuple of 1..3 placeholders: the stored
    `values` is the text '_' or a LIST with one entry per declared placeholder — the representation invariant under which the layout units
    (convert.layout, update.layout, bounds) identify a vector parameter (`isinstance(values, list)`) and count its components."""
    PVQ_ = "pyxel/observation/parameter_values.py"
    fi = u.fn(f"{PVQ_}::ParameterValues.__init__")
    u.fn(f"{PVQ_}::convert_values")
    ci = u.cls(f"{PVQ_}::ParameterValues")
    for kind in ("text", "list1", "list3", "tuple2", "tuple3"):
        def setup(ex, kind=kind):
            n = int(kind[-1]) if kind != "text" else 0
            items = [VStr("_")] * n
            vals = VStr("_") if kind == "text" else (ex.st.alloc(HList(items)) if kind.startswith("list") else VTuple(items))
            me = ex.st.alloc(HObj(ci, {}))
            ex.me = me
            return [me], {"key": VStr("pipeline.g.m.arguments.a"), "values": vals, "boundaries": ex.st.alloc(HList([VFloat(z3.Real("low")), VFloat(z3.Real("high"))])),
                          "logarithmic": VBool(z3.Bool("logarithmic"))}
        cfg = Cfg("real")
        ps = u.paths(fi, setup, cfg, label=f"ParameterValues.__init__[{kind}]")
        for p in ps:
            if p.kind != "return":
                u.oblige(p, f"values.representation[{kind}].accepted", False, {"exc": p.exc_name()}, VALUES_REPLAY)
                continue
            v = p.st.cell(p.ex.me).fields.get("_values")
            if kind == "text":
                ok = isinstance(v, VStr) and v.v == "_"
            else:
                items = p.st.cell(v).items if isinstance(v, VRef) and isinstance(p.st.cell(v), HList) else None
                ok = items is not None and len(items) == int(kind[-1]) and all(isinstance(x, VStr) and x.v == "_" for x in items)
            u.oblige(p, f"values.representation[{kind}]", bool(ok), {"stored as": type(v).__name__ if not isinstance(v, VRef) else type(p.st.cell(v)).__name__}, VALUES_REPLAY)
        u.cover(f"values.representation.cover[{kind}]", ps, lambda p: p.kind == "return")
unit("C10", "run_calibration.history")(_CR.run_calibration_history_unit)      # every run optimises the problem of the declarations in force when it starts
