"""C12 — a configuration means what it says, and nonsense is refused.

Contracts (written from the statement and the documented ranges, not from the bodies):
  class invariant  valid(obj): every validated field is None or a number inside its documented range
  ctor     : returns  =>  valid(self) and the stored value equals the given one
  setter   : returns  =>  valid(self) and stored == value ; raises => field unchanged
Inputs range over the complete tag split none/bool/int/float/str; floats are IEEE binary64 terms
(NaN, +-inf, -0.0 included) because the code only compares them.
"""
from __future__ import annotations

import itertools

from .common import *  # noqa: F401,F403

G = "pyxel/detectors/geometry.py"
C = "pyxel/detectors/characteristics.py"
E = "pyxel/detectors/environment.py"
A = "pyxel/detectors/apd/apd_characteristics.py"

# (class file, class, public name, private attr, lo, hi, lo_strict, import path, ctor kwargs needed besides the field)
FIELDS = [
    (G, "Geometry", "row", "_row", 0, None, True, "pyxel.detectors", {"col": 4}),
    (G, "Geometry", "col", "_col", 0, None, True, "pyxel.detectors", {"row": 3}),
    (G, "Geometry", "total_thickness", "_total_thickness", 0.0, 10000.0, False, "pyxel.detectors", {"row": 3, "col": 4}),
    (G, "Geometry", "pixel_vert_size", "_pixel_vert_size", 0.0, 1000.0, False, "pyxel.detectors", {"row": 3, "col": 4}),
    (G, "Geometry", "pixel_horz_size", "_pixel_horz_size", 0.0, 1000.0, False, "pyxel.detectors", {"row": 3, "col": 4}),
    (G, "Geometry", "pixel_scale", "_pixel_scale", 0.0, 1000.0, False, "pyxel.detectors", {"row": 3, "col": 4}),
    (C, "Characteristics", "quantum_efficiency", "_quantum_efficiency", 0.0, 1.0, False, "pyxel.detectors", {}),
    (C, "Characteristics", "charge_to_volt_conversion", "_charge_to_volt_conversion", 0.0, 100.0, False, "pyxel.detectors", {}),
    (C, "Characteristics", "pre_amplification", "_pre_amplification", 0.0, 10000.0, False, "pyxel.detectors", {}),
    (C, "Characteristics", "full_well_capacity", "_full_well_capacity", 0.0, 1.0e7, False, "pyxel.detectors", {}),
    (C, "Characteristics", "adc_bit_resolution", "_adc_bit_resolution", 4, 64, False, "pyxel.detectors", {}),
    (E, "Environment", "temperature", "_temperature", 0.0, 1000.0, True, "pyxel.detectors", {}),
    (E, "Environment", "wavelength", "_wavelength", 0.0, None, True, "pyxel.detectors", {}),
]

APD_SETTERS = [
    (A, "APDCharacteristics", "quantum_efficiency", "_quantum_efficiency", 0.0, 1.0, False),
    (A, "APDCharacteristics", "adc_bit_resolution", "_adc_bit_resolution", 4, 64, False),
    (A, "APDCharacteristics", "full_well_capacity", "_full_well_capacity", 0.0, 1.0e7, False),
    (A, "APDCharacteristics", "avalanche_gain", "_avalanche_gain", 1.0, 1000.0, False),
]
APD_BUILD = "APDCharacteristics(roic_gain=0.8, avalanche_gain=2.0, pixel_reset_voltage=12.0)"


def range_text(lo, hi, strict):
    return f"{lo} {'<' if strict else '<='} v" + (f" <= {hi}" if hi is not None else "")


def native_pred(lo, hi, strict):
    lo_c = f"v > {lo!r}" if strict else f"v >= {lo!r}"
    hi_c = f" and v <= {hi!r}" if hi is not None else ""
    return f"(v is None or (isinstance(v, (int, float)) and not isinstance(v, str) and ({lo_c}{hi_c})))"


EXTRA_CANDIDATES = {
    "str": ["-5", "0", "1e9", "nan", "-1.5", "100000"],
    "float": [float("nan"), -1.0, 1e300, float("inf"), float("-inf")],
    "int": [-1, 0, 10**6, 10**9],
    "bool": [False, True],
}


def cand_list(w):
    """Witness of the counter-model first, then a few same-typed candidates (contract-guided search:
    uninterpreted parse_float / abstract rounding can make the model's own value not reproduce)."""
    vals = [w.get("value")] + EXTRA_CANDIDATES.get(w.get("tag"), [])
    return "[" + ", ".join(pylit(v) for v in vals) + "]"


def ctor_replay(imp, cls, name, attr, lo, hi, strict, extra):
    def mk(w):
        kw = ", ".join(f"{k}={v!r}" for k, v in extra.items())
        return {"code": f"""
from {imp} import {cls}
VIOLATED, DETAIL = False, 'no candidate was accepted out of range'
for value in {cand_list(w)}:
    try:
        obj = {cls}({kw}{', ' if kw else ''}{name}=value)
    except Exception as e:
        DETAIL = 'constructor refused ' + repr(value) + ': ' + repr(e)
        continue
    v = obj.{attr}
    if not {native_pred(lo, hi, strict)}:
        VIOLATED = True
        DETAIL = {cls!r} + '(' + {name!r} + '=' + repr(value) + ') accepted; stored {attr}=' + repr(v) + ' ; documented range: ' + {range_text(lo, hi, strict)!r}
        break
""", "expect": f"{cls}.__init__ refuses {name} outside {range_text(lo, hi, strict)}"}
    return mk


def setter_replay(imp, cls, name, attr, lo, hi, strict, build):
    def mk(w):
        return {"code": f"""
from {imp} import {cls}
VIOLATED, DETAIL = False, 'no candidate was accepted out of range'
for value in {cand_list(w)}:
    obj = {build}
    before = obj.{attr}
    try:
        obj.{name} = value
    except Exception as e:
        if obj.{attr} is not before and obj.{attr} != before:
            VIOLATED, DETAIL = True, 'setter raised ' + repr(e) + ' but changed the field to ' + repr(obj.{attr})
            break
        DETAIL = 'setter refused ' + repr(value) + ': ' + repr(e)
        continue
    v = obj.{attr}
    if not {native_pred(lo, hi, strict)}:
        VIOLATED = True
        DETAIL = {cls!r} + '.' + {name!r} + ' = ' + repr(value) + ' accepted; stored {attr}=' + repr(v) + ' ; documented range: ' + {range_text(lo, hi, strict)!r}
        break
""", "expect": f"{cls}.{name} setter refuses values outside {range_text(lo, hi, strict)}"}
    return mk


def _field_units():
    for (path, cls, name, attr, lo, hi, strict, imp, extra) in FIELDS:
        def ctor_unit(u: Unit, path=path, cls=cls, name=name, attr=attr, lo=lo, hi=hi, strict=strict, imp=imp, extra=extra):
            fi = u.fn(f"{path}::{cls}.__init__")
            ci = u.cls(f"{path}::{cls}")
            cfg = Cfg("fp")
            normal = 0
            for tag in SCALAR_TAGS:
                val = sym_scalar("value", tag)

                def setup(ex, val=val):
                    obj = ex.st.alloc(HObj(ci, {}))
                    ex.self_ref = obj
                    kw = {k: VInt(v) for k, v in extra.items()}
                    kw[name] = val
                    return [obj], kw
                ps = u.paths(fi, setup, cfg, label=f"{cls}.__init__[{name}:{tag}]")
                for p in ps:
                    if p.kind != "return":
                        continue
                    normal += 1
                    stored = p.field(p.ex.self_ref, attr)
                    w = {"value": term_of(val), "tag": tag}
                    u.oblige(p, f"ctor.valid[{cls}.{name}:{tag}]", zb(in_range(stored, lo, hi, strict)), w,
                             ctor_replay(imp, cls, name, attr, lo, hi, strict, extra))
                    if tag in ("int", "float", "bool") and is_num(stored) and stored is not val:
                        u.oblige(p, f"ctor.stored_is_given[{cls}.{name}:{tag}]", zb(num_compare("eq", stored, val)), w)
            u.cover(f"ctor.cover[{cls}.{name}]", [1] * normal, lambda _: True)

        def setter_unit(u: Unit, path=path, cls=cls, name=name, attr=attr, lo=lo, hi=hi, strict=strict, imp=imp, extra=extra):
            fi = u.fn(f"{path}::{cls}.{name}.setter")
            ci = u.cls(f"{path}::{cls}")
            cfg = Cfg("fp")
            bk = dict(extra, row=3, col=4) if cls == "Geometry" else extra
            build = f"{cls}(" + ", ".join(f"{k}={v!r}" for k, v in bk.items()) + ")"
            normal = 0
            for tag in SCALAR_TAGS:
                val = sym_scalar("value", tag)
                old = VFloat(z3.FP("old_value", F64))

                def setup(ex, val=val, old=old):
                    obj = ex.st.alloc(HObj(ci, {attr: old}))
                    ex.self_ref = obj
                    return [obj, val], {}
                for p in u.paths(fi, setup, cfg, label=f"{cls}.{name}.setter[{tag}]"):
                    stored = p.field(p.ex.self_ref, attr)
                    w = {"value": term_of(val), "tag": tag}
                    if p.kind == "return":
                        normal += 1
                        u.oblige(p, f"setter.valid[{cls}.{name}:{tag}]", zb(in_range(stored, lo, hi, strict)), w,
                                 setter_replay(imp, cls, name, attr, lo, hi, strict, build))
                        if stored is not val:
                            u.oblige(p, f"setter.stored_is_given[{cls}.{name}:{tag}]", zb(is_num(stored) and is_num(val) and num_compare("eq", stored, val)), w)
                    else:
                        u.oblige(p, f"setter.atomic[{cls}.{name}:{tag}]", stored is old, w,
                                 setter_replay(imp, cls, name, attr, lo, hi, strict, build))
            u.cover(f"setter.cover[{cls}.{name}]", [1] * normal, lambda _: True)

        unit("C12", f"ctor[{cls}.{name}]")(ctor_unit)
        unit("C12", f"setter[{cls}.{name}]")(setter_unit)


_field_units()


def _apd_setter_units():
    """The APD characteristics' own setters (same documented ranges; the avalanche gain 1..1000). The dependent quantities
    the gain setter recomputes (bias, common voltage) come from empirical formulas and are outside this obligation."""
    for (path, cls, name, attr, lo, hi, strict) in APD_SETTERS:
        def setter_unit(u: Unit, path=path, cls=cls, name=name, attr=attr, lo=lo, hi=hi, strict=strict):
            fi = u.fn(f"{path}::{cls}.{name}.setter")
            ci = u.cls(f"{path}::{cls}")
            cfg = Cfg("fp")
            for q in ("gain_to_bias_saphira", "bias_to_gain_saphira"):
                cfg.contracts[f"{path}::{cls}.{q}"] = Contract(f"{path}::{cls}.{q}", lambda ex, args, kwargs, fr: VFloat(ex.st.fresh_fp("saphira")), "empirical conversion formula (outside)")
            normal = 0
            for tag in SCALAR_TAGS:
                if tag in ("none", "str"):
                    continue
                val = sym_scalar("value", tag)
                old = VFloat(z3.FP("old_value", F64))

                def setup(ex, val=val, old=old):
                    obj = ex.st.alloc(HObj(ci, {attr: old, "_pixel_reset_voltage": VFloat(z3.FP("prv", F64)), "_common_voltage": VFloat(z3.FP("cv", F64)),
                                                "_avalanche_bias": VFloat(z3.FP("bias", F64))}))
                    ex.self_ref = obj
                    return [obj, val], {}
                for p in u.paths(fi, setup, cfg, label=f"{cls}.{name}.setter[{tag}]"):
                    stored = p.field(p.ex.self_ref, attr)
                    w = {"value": term_of(val), "tag": tag}
                    rp = setter_replay("pyxel.detectors", cls, name, attr, lo, hi, strict, APD_BUILD)
                    if p.kind == "return":
                        normal += 1
                        u.oblige(p, f"setter.valid[{cls}.{name}:{tag}]", zb(in_range(stored, lo, hi, strict)), w, rp)
                    else:
                        u.oblige(p, f"setter.atomic[{cls}.{name}:{tag}]", stored is old, w, rp)
            u.cover(f"setter.cover[{cls}.{name}]", [1] * normal, lambda _: True)
        unit("C12", f"setter[{cls}.{name}]")(setter_unit)


_apd_setter_units()


def _apd_ctor_units():
    """APDCharacteristics.__init__ (its own constructor, not the base class's): every validated field handed to the constructor is
    stored only inside its documented range (avalanche gain with a pixel reset voltage as the two given quantities; the empirical
    gain <-> bias formulas are contracts)."""
    for (path, cls, name, attr, lo, hi, strict) in APD_SETTERS:
        def ctor_unit(u: Unit, path=path, cls=cls, name=name, attr=attr, lo=lo, hi=hi, strict=strict):
            fi = u.fn(f"{path}::{cls}.__init__")
            ci = u.cls(f"{path}::{cls}")
            cfg = Cfg("fp")
            for q in ("gain_to_bias_saphira", "bias_to_gain_saphira", "bias_to_node_capacitance_saphira", "detector_gain_saphira"):
                cfg.contracts[f"{path}::{cls}.{q}"] = Contract(f"{path}::{cls}.{q}", lambda ex, args, kwargs, fr: VFloat(ex.st.fresh_fp("saphira")), "empirical conversion formula (outside)")
            normal = 0
            extra = {"roic_gain": 0.8, "pixel_reset_voltage": 12.0}
            if name != "avalanche_gain":
                extra["avalanche_gain"] = 2.0
            for tag in SCALAR_TAGS:
                if tag == "str" or (tag == "none" and name == "avalanche_gain"):
                    continue
                val = sym_scalar("value", tag)

                def setup(ex, val=val):
                    obj = ex.st.alloc(HObj(ci, {}))
                    ex.self_ref = obj
                    kw = {k: VFloat(v) for k, v in extra.items()}
                    kw[name] = val
                    return [obj], kw
                for p in u.paths(fi, setup, cfg, label=f"{cls}.__init__[{name}:{tag}]"):
                    if p.kind != "return":
                        continue
                    normal += 1
                    stored = p.field(p.ex.self_ref, attr)
                    w = {"value": term_of(val), "tag": tag}
                    u.oblige(p, f"ctor.valid[{cls}.{name}:{tag}]", zb(in_range(stored, lo, hi, strict)), w, ctor_replay("pyxel.detectors", cls, name, attr, lo, hi, strict, extra))
            u.cover(f"ctor.cover[{cls}.{name}]", [1] * normal, lambda _: True)
        unit("C12", f"ctor[{cls}.{name}]")(ctor_unit)


_apd_ctor_units()


# ---- exactly one running mode and one detector -----------------------------------------------------------------------
CFGQ = "pyxel/configuration/configuration.py"
MODES = ["exposure", "observation", "calibration"]
DETS = ["ccd_detector", "cmos_detector", "mkid_detector", "apd_detector"]

ONE_REPLAY = lambda w: {"code": """
import itertools
from pyxel.configuration.configuration import Configuration
from pyxel.pipelines import DetectionPipeline
MODES, DETS = ['exposure', 'observation', 'calibration'], ['ccd_detector', 'cmos_detector', 'mkid_detector', 'apd_detector']
VIOLATED, DETAIL = False, ''
for bits in itertools.product([False, True], repeat=7):
    kw = {k: object() for k, b in zip(MODES + DETS, bits) if b}
    ok = sum(bits[:3]) == 1 and sum(bits[3:]) == 1
    try:
        Configuration(pipeline=DetectionPipeline(), **kw); accepted = True
    except ValueError:
        accepted = False
    if accepted != ok:
        VIOLATED, DETAIL = True, f'Configuration with {sorted(kw)} accepted={accepted}'; break
# ... and the same through the YAML document builder, for every set of sections
from pyxel.configuration.configuration import _build_configuration
DET = {'geometry': {'row': 3, 'col': 4}, 'environment': {}, 'characteristics': {}}
APD = {'geometry': {'row': 3, 'col': 4}, 'environment': {}, 'characteristics': {'roic_gain': 0.8, 'avalanche_gain': 2.0, 'pixel_reset_voltage': 12.0}}
for bits in itertools.product([False, True], repeat=7):
    if VIOLATED: break
    doc = {'pipeline': {}}
    for k, b in zip(MODES + DETS, bits):
        if b:
            doc[k] = ({'readout': {'times': [1.0]}} if k == 'exposure' else {'parameters': [{'key': 'a.b.c', 'values': [1]}]} if k == 'observation' else None) if k in MODES else (dict(APD) if k == 'apd_detector' else dict(DET))
    if doc.get('calibration', 0) is None and 'calibration' in doc:
        continue          # building a calibration needs target files: covered by the constructor loop above
    ok = sum(bits[:3]) == 1 and sum(bits[3:]) == 1
    try:
        import copy; _build_configuration(copy.deepcopy(doc)); accepted = True
    except (ValueError, KeyError, TypeError):
        accepted = False
    if accepted != ok:
        VIOLATED, DETAIL = True, f'YAML document with sections {sorted(k for k in doc if k != "pipeline")} accepted={accepted}'
""", "expect": "exactly one running mode and exactly one detector, otherwise refused"}


@unit("C12", "exactly_one")
def exactly_one(u: Unit):
    """Configuration.__post_init__ for symbolic presence of the seven optional entries (one symbolic run), and
    _build_configuration for all 2^7 key sets of the YAML mapping (complete case split)."""
    import itertools
    from pyvc.values import VMaybe, VOpaque
    fi = u.fn(f"{CFGQ}::Configuration.__post_init__")
    ci = u.cls(f"{CFGQ}::Configuration")
    flags = {k: z3.Bool("has_" + k) for k in MODES + DETS}

    def setup(ex):
        f = {"pipeline": VOpaque("cfgobj", None, {})}
        for k, b in flags.items():
            f[k] = VMaybe(b, VOpaque("cfgobj", ex.st.fresh_int(k), {}))
        return [ex.st.alloc(HObj(ci, f))], {}
    one = lambda names: z3.Sum([z3.If(flags[n], 1, 0) for n in names]) == 1
    ps = u.paths(fi, setup, Cfg("real"), label="Configuration.__post_init__")
    for p in ps:
        spec = z3.And(one(MODES), one(DETS))
        if p.kind == "return":
            u.oblige(p, "exactly_one[Configuration accepts]", spec, {k: v for k, v in flags.items()}, ONE_REPLAY)
        else:
            u.oblige(p, "exactly_one[Configuration refuses]", z3.And(zb(p.exc_name() == "ValueError"), z3.Not(spec)), {k: v for k, v in flags.items()}, ONE_REPLAY)
    u.cover("exactly_one.cover", ps, lambda p: p.kind == "return")
    u.cover("exactly_one.cover_refuse", ps, lambda p: p.kind == "raise")
    fb = u.fn(f"{CFGQ}::_build_configuration")
    cfg = Cfg("real")
    for name in ("to_pipeline", "to_exposure", "to_observation", "to_calibration", "to_ccd", "to_cmos", "to_mkid_array", "to_apd"):
        cfg.contracts[f"{CFGQ}::{name}"] = Contract(f"{CFGQ}::{name}", lambda ex, args, kwargs, fr: VOpaque("cfgobj", ex.st.fresh_int("built"), {"from": args[0] if args else None}), "builder (boundary here)")
    n_ok = 0
    wrong = []
    for bits in itertools.product([False, True], repeat=7):
        present = [k for k, b in zip(MODES + DETS, bits) if b]

        def setup_b(ex, present=present):
            items = [(VStr("pipeline"), VOpaque("cfgobj", None, {}))] + [(VStr(k), VOpaque("cfgobj", None, {"section": k})) for k in present]
            return [ex.st.alloc(HDict(items))], {}
        ps = u.paths(fb, setup_b, cfg, label=f"_build_configuration{present}")
        want = sum(bits[:3]) == 1 and sum(bits[3:]) == 1
        for p in ps:
            good = (p.kind == "return") == want and (p.kind == "return" or p.exc_name() == "ValueError")
            if good and p.kind == "return":
                c = p.st.cell(p.value).fields
                built = [k for k in MODES + DETS if not isinstance(c.get(k), VNone) and c.get(k) is not None]
                good = built == present
            n_ok += good
            if not good:
                wrong.append(str(present))
    u.static("exactly_one[_build_configuration, all 128 key sets]", not wrong and n_ok >= 128, fb.qualname, f"{n_ok} key sets behave as specified; wrong: {wrong[:3]}", witness={"wrong": wrong[:3]}, replay=ONE_REPLAY)


@unit("C12", "builders.passthrough")
def builders(u: Unit):
    """The YAML section builders hand every entry of the mapping to the constructor under the same name: the built
    object's settings equal the written values (unknown keys raise TypeError)."""
    from pyvc.values import HDict
    cases = [("to_ccd_geometry", {"row": ("int", 1, None), "col": ("int", 1, None), "total_thickness": ("real", 0, 10000), "pixel_vert_size": ("real", 0, 1000),
                                  "pixel_horz_size": ("real", 0, 1000), "pixel_scale": ("real", 0, 1000)}),
             ("to_cmos_geometry", {"row": ("int", 1, None), "col": ("int", 1, None), "pixel_scale": ("real", 0, 1000)}),
             ("to_ccd_characteristics", {"quantum_efficiency": ("real", 0, 1), "charge_to_volt_conversion": ("real", 0, 100), "pre_amplification": ("real", 0, 10000),
                                         "full_well_capacity": ("real", 0, 1e7), "adc_bit_resolution": ("int", 4, 64)}),
             ("to_environment", {"temperature": ("real", 0, 1000)})]
    rp = lambda w: {"code": """
from pyxel.configuration import configuration as C
g = C.to_ccd_geometry({'row': 3, 'col': 4, 'total_thickness': 10.0, 'pixel_vert_size': 2.0, 'pixel_horz_size': 3.0, 'pixel_scale': 1.5})
c = C.to_ccd_characteristics({'quantum_efficiency': 0.5, 'charge_to_volt_conversion': 1e-6, 'pre_amplification': 2.0, 'full_well_capacity': 1000, 'adc_bit_resolution': 16})
e = C.to_environment({'temperature': 123.0})
VIOLATED = (g.row, g.col, g.total_thickness, g.pixel_vert_size, g.pixel_horz_size, g.pixel_scale) != (3, 4, 10.0, 2.0, 3.0, 1.5) or \
    (c.quantum_efficiency, c.charge_to_volt_conversion, c.pre_amplification, c.full_well_capacity, c.adc_bit_resolution) != (0.5, 1e-6, 2.0, 1000, 16) or e.temperature != 123.0
DETAIL = 'built objects: ' + repr((vars(g), vars(c), vars(e)))
try:
    C.to_ccd_geometry({'row': 3, 'col': 4, 'rowx': 1}); VIOLATED, DETAIL = True, 'unknown key accepted'
except TypeError:
    pass
""", "expect": "each written setting arrives unchanged; unknown keys refused"}
    for name, spec in cases:
        fi = u.fn(f"{CFGQ}::{name}")
        vals = {}

        def setup(ex, spec=spec):
            items = []
            for k, (kind, lo, hi) in spec.items():
                t = z3.Int("yaml_" + k) if kind == "int" else z3.Real("yaml_" + k)
                ex.st.assume(t >= lo if kind == "int" else t > lo)
                if hi is not None:
                    ex.st.assume(t <= hi)
                vals[k] = VInt(t) if kind == "int" else VFloat(t)
                items.append((VStr(k), vals[k]))
            return [ex.st.alloc(HDict(items))], {}
        ps = u.paths(fi, setup, Cfg("real"), label=name)
        for p in ps:
            if p.kind != "return":
                u.oblige(p, f"builders.passthrough[{name}].no_raise", False, {"exc": p.exc_name()}, rp)
                continue
            f = p.st.cell(p.value).fields
            conds = [zb(p.ex.eq(f.get("_" + k), v)) if f.get("_" + k) is not None else z3.BoolVal(False) for k, v in vals.items()]
            u.oblige(p, f"builders.passthrough[{name}]", z3.And(*conds), {}, rp)
        u.cover(f"builders.cover[{name}]", ps, lambda p: p.kind == "return")
        # an unknown key is refused
        def setup_bad(ex, spec=spec):
            items = [(VStr("row"), VInt(3)), (VStr("col"), VInt(3))] if "geometry" in name else []
            return [ex.st.alloc(HDict(items + [(VStr("no_such_setting"), VInt(1))]))], {}
        if name == "to_environment":
            continue          # Environment.from_dict reads the keys it knows; the statement does not demand refusing others
        for p in u.paths(fi, setup_bad, Cfg("real"), label=name + "[unknown key]"):
            u.oblige(p, f"builders.unknown_key_refused[{name}]", p.kind == "raise" and p.exc_name() in ("TypeError", "KeyError"), {}, rp)


# ---- the section builders: which YAML section builds which part ------------------------------------------------------------------------
SECTIONS_REPLAY = lambda w: {"code": """
import pyxel
from pyxel.configuration import configuration as C
VIOLATED, DETAIL = False, 'every part is built from its own section'
for build, kind in ((C.to_ccd, 'ccd'), (C.to_cmos, 'cmos'), (C.to_mkid_array, 'mkid'), (C.to_apd, 'apd')):
    ch = {'quantum_efficiency': 0.5, 'full_well_capacity': 1234, 'adc_bit_resolution': 12}
    if kind == 'apd':
        ch = {'roic_gain': 0.8, 'avalanche_gain': 10.0, 'pixel_reset_voltage': 5.0, 'quantum_efficiency': 0.5, 'full_well_capacity': 1234, 'adc_bit_resolution': 12}
    det = build({'geometry': {'row': 3, 'col': 7}, 'environment': {'temperature': 77.0}, 'characteristics': ch})
    if (det.geometry.row, det.geometry.col, det.environment.temperature, det.characteristics.quantum_efficiency, det.characteristics.full_well_capacity, det.characteristics.adc_bit_resolution) != (3, 7, 77.0, 0.5, 1234, 12) \\
            or type(det).__name__.lower() != kind:
        VIOLATED, DETAIL = True, f'{kind}: built {type(det).__name__} row={det.geometry.row} col={det.geometry.col} T={det.environment.temperature}'; break
obs = C.to_observation({'readout': {'times': [1.0, 2.0], 'non_destructive': True}, 'parameters': [{'key': 'a.b.c', 'values': [1, 2]}, {'key': 'd.e.f', 'values': [3], 'enabled': False}], 'with_dask': False})
ps = list(obs.parameter_mode.parameters) if hasattr(obs, 'parameter_mode') else []
if [p.key for p in ps] != ['a.b.c', 'd.e.f'] or [list(p.values) for p in ps] != [[1, 2], [3]] or [p.enabled for p in ps] != [True, False] or list(obs.readout.times) != [1.0, 2.0] or obs.readout.non_destructive is not True:
    VIOLATED, DETAIL = True, f'observation: parameters {[(p.key, list(p.values), p.enabled) for p in ps]} readout {list(obs.readout.times)}'
ex = C.to_exposure({'readout': {'times': [0.5, 4.0], 'start_time': 0.25}})
if list(ex.readout.times) != [0.5, 4.0] or ex.readout.start_time != 0.25:
    VIOLATED, DETAIL = True, f'exposure: readout {list(ex.readout.times)} start {ex.readout.start_time}'
""", "expect": "geometry / environment / characteristics / readout / parameters are each built from the YAML section of that name, for every detector type and running mode"}


@unit("C12", "sections")
def sections_unit(u: Unit):
    """to_ccd / to_cmos / to_mkid_array / to_apd and to_exposure / to_observation / to_calibration: each part of the built object comes
    from the YAML section of the same name, through the builder of the matching type (the builders are units builders.* and the
    constructors / setters are ctor.* / setter.*); parameter lists keep their order."""
    from pyvc.values import HDict
    DQ = "pyxel/detectors/"
    det_cases = [("to_ccd", f"{DQ}ccd/ccd.py::CCD", "to_ccd_geometry", "to_ccd_characteristics"), ("to_cmos", f"{DQ}cmos/cmos.py::CMOS", "to_cmos_geometry", "to_cmos_characteristics"),
                 ("to_mkid_array", f"{DQ}mkid/mkid.py::MKID", "to_mkid_geometry", "to_mkid_characteristics"), ("to_apd", f"{DQ}apd/apd.py::APD", "to_apd_geometry", "to_apd_characteristics")]
    helpers = ["to_ccd_geometry", "to_cmos_geometry", "to_mkid_geometry", "to_apd_geometry", "to_environment", "to_ccd_characteristics", "to_cmos_characteristics",
               "to_mkid_characteristics", "to_apd_characteristics", "to_readout", "to_parameters", "to_exposure_outputs", "to_observation_outputs", "to_calibration_outputs",
               "to_algorithm", "to_fitness_function"]

    def mk_cfg():
        cfg = Cfg("real")
        for h in helpers:
            q = f"{CFGQ}::{h}"

            def stub(ex, args, kwargs, fr, h=h):
                ex.rec.setdefault("built", []).append((h, args[0] if args else None))
                return VOpaque("part", ex.st.fresh_int("part"), {"by": h, "from": args[0] if args else None})
            cfg.contracts[q] = Contract(q, stub, f"{h}: builders.passthrough / ctor.*")
        return cfg

    for name, cls_q, geo_b, cha_b in det_cases:
        fi = u.fn(f"{CFGQ}::{name}")
        cfg = mk_cfg()
        ci = u.cls(cls_q)
        initq = None
        for c in u.world.mro(ci) if hasattr(u.world, "mro") else [ci]:
            if "__init__" in getattr(c, "methods", {}):
                initq = c.methods["__init__"].qualname
                break

        def ctor(ex, args, kwargs, fr):
            ex.rec["ctor"] = dict(kwargs)
            ex.rec["ctor_args"] = list(args[1:])
            return NONE
        if initq:
            cfg.contracts[initq] = Contract(initq, ctor, "detector constructor (C18 / C02)")

        def setup(ex):
            ex.rec = {}
            ex.sec = {k: VOpaque("section", z3.Int(f"section_{k}"), {"name": k}) for k in ("geometry", "environment", "characteristics")}
            return [ex.st.alloc(HDict([(VStr(k), v) for k, v in ex.sec.items()]))], {}
        ps = u.paths(fi, setup, cfg, label=name)
        for p in ps:
            if p.kind != "return":
                u.oblige(p, f"sections.no_raise[{name}]", False, {"exc": p.exc_name()}, SECTIONS_REPLAY)
                continue
            k = p.ex.rec.get("ctor", {})
            def from_(part, builder, section):
                return isinstance(part, VOpaque) and part.kind == "part" and part.info["by"] == builder and part.info["from"] is p.ex.sec[section]
            ok = (not p.ex.rec.get("ctor_args") and set(k) == {"geometry", "environment", "characteristics"} and from_(k["geometry"], geo_b, "geometry")
                  and from_(k["environment"], "to_environment", "environment") and from_(k["characteristics"], cha_b, "characteristics"))
            cls_ok = isinstance(p.value, VRef) and p.ex.cls_name(p.st.cell(p.value).cls) == cls_q.split("::")[-1]
            u.oblige(p, f"sections.each_part_from_its_own_section[{name}]", bool(ok and cls_ok), {"got": str({a: (v.info.get("by"), getattr(v.info.get("from"), "info", {}).get("name")) if isinstance(v, VOpaque) else str(v) for a, v in k.items()})}, SECTIONS_REPLAY)
        u.cover(f"sections.cover[{name}]", ps, lambda p: p.kind == "return")

    # running modes
    mode_cases = [("to_exposure", "pyxel/exposure/exposure.py::Exposure", {"outputs": "to_exposure_outputs"}, []),
                  ("to_observation", "pyxel/observation/observation.py::Observation", {"outputs": "to_observation_outputs"}, ["parameters"]),
                  ("to_calibration", "pyxel/calibration/calibration.py::Calibration", {"outputs": "to_calibration_outputs", "fitness_function": "to_fitness_function", "algorithm": "to_algorithm"},
                   ["parameters", "result_input_arguments"])]
    for name, cls_q, single, lists in mode_cases:
        fi = u.fn(f"{CFGQ}::{name}")
        cfg = mk_cfg()
        ci = u.cls(cls_q)
        initq = ci.methods["__init__"].qualname if "__init__" in getattr(ci, "methods", {}) else None

        def ctor2(ex, args, kwargs, fr):
            ex.rec["ctor"] = dict(kwargs)
            ex.rec["ctor_args"] = list(args[1:])
            return NONE
        if initq:
            cfg.contracts[initq] = Contract(initq, ctor2, "running-mode constructor")

        def setup2(ex, single=single, lists=lists):
            ex.rec = {}
            ex.sec = {k: VOpaque("section", z3.Int(f"section_{k}"), {"name": k}) for k in list(single) + ["readout", "extra_setting"]}
            ex.lst = {k: [VOpaque("section", z3.Int(f"section_{k}_{i}"), {"name": f"{k}[{i}]"}) for i in range(2)] for k in lists}
            items = [(VStr(k), v) for k, v in ex.sec.items()] + [(VStr(k), ex.st.alloc(HList(list(v)))) for k, v in ex.lst.items()]
            return [ex.st.alloc(HDict(items))], {}
        ps = u.paths(fi, setup2, cfg, label=name)
        for p in ps:
            if p.kind != "return":
                u.oblige(p, f"sections.no_raise[{name}]", False, {"exc": p.exc_name()}, SECTIONS_REPLAY)
                continue
            k = p.ex.rec.get("ctor", {})
            def from_(part, builder, sec):
                return isinstance(part, VOpaque) and part.kind == "part" and part.info["by"] == builder and part.info["from"] is sec
            ok = not p.ex.rec.get("ctor_args") and set(k) == set(single) | set(lists) | {"readout", "extra_setting"}
            ok = ok and from_(k.get("readout"), "to_readout", p.ex.sec["readout"]) and k.get("extra_setting") is p.ex.sec["extra_setting"]
            ok = ok and all(from_(k.get(s), b, p.ex.sec[s]) for s, b in single.items())
            for l in lists:
                got = p.ex.try_list(k.get(l)) if k.get(l) is not None else None
                ok = ok and got is not None and len(got) == 2 and all(from_(got[i], "to_parameters", p.ex.lst[l][i]) for i in range(2))
            u.oblige(p, f"sections.each_part_from_its_own_section[{name}]", bool(ok), {"keys": str(sorted(k))}, SECTIONS_REPLAY)
        u.cover(f"sections.cover[{name}]", ps, lambda p: p.kind == "return")


# readout times read from a file: every value of the table, in file order (shared with C02)
from . import C02 as _C02  # noqa: E402
unit("C12", "readout.file")(_C02.readout_ctor_file)
STANDIN = {r"readout\.file": _C02.FILE_REPLAY}


# ---- calibration algorithm settings: every value handed to Algorithm(...) is the value its property returns -------------------------------
ALGO_REPLAY = lambda w: {"code": """
import math
from pyxel.calibration import Algorithm
VIOLATED, DETAIL = False, 'every accepted algorithm setting reads back as given (zero, False and empty values included)'
given = dict(type='nlopt', generations=1, population_size=1, variant=1, variant_adptv=1, ftol=0.0, xtol=0.0, memory=False, cr=0.0, eta_c=0.0, m=0.0, param_m=0.0, param_s=0,
             crossover='single', mutation='uniform', selection='truncated', nlopt_solver='cobyla', maxtime=0, maxeval=0, xtol_rel=0.0, xtol_abs=0.0, ftol_rel=0.0, ftol_abs=0.0,
             stopval=0.0, replacement='worst', nlopt_selection='random')
for variant in (given, dict(given, stopval=-1.5, maxtime=7, memory=True, ftol=1e-3, cr=1.0, m=1.0, generations=100000, population_size=100000, variant=18, variant_adptv=2), dict(given, stopval=1e-3)):
    a = Algorithm(**variant)
    for k, v in variant.items():
        got = getattr(a, k)
        got = getattr(got, 'value', got) if k == 'type' else got
        if got != v or type(got) is not type(v):
            VIOLATED, DETAIL = True, f'Algorithm({k}={v!r}).{k} == {got!r}'; break
    if VIOLATED: break
if not VIOLATED and Algorithm().stopval != -math.inf:
    VIOLATED, DETAIL = True, f'no stopval given: {Algorithm().stopval!r} (documented default: -inf)'
""", "expect": "Algorithm(...) keeps every setting it accepts"}


@unit("C12", "ctor[Algorithm]")
def algorithm_ctor(u: Unit):
    """Algorithm.__init__ with EVERY parameter symbolic (integers, reals, booleans; texts of the documented literals; the optional stop
    value given or absent): whenever the constructor accepts, each property returns exactly the value given for it — in particular 0,
    0.0 and False — generations / population_size within 1..100000, variant 1..18, variant_adptv 1..2, cr and m in [0, 1]; an absent
    stop value is minus infinity."""
    AQ = "pyxel/calibration/algorithm.py"
    fi = u.fn(f"{AQ}::Algorithm.__init__")
    ci = u.cls(f"{AQ}::Algorithm")
    ints = ["generations", "population_size", "variant", "variant_adptv", "maxtime", "maxeval", "param_s"]
    reals = ["ftol", "xtol", "cr", "eta_c", "m", "param_m", "xtol_rel", "xtol_abs", "ftol_rel", "ftol_abs"]
    texts = {"crossover": "single", "mutation": "uniform", "selection": "truncated", "nlopt_solver": "cobyla", "replacement": "worst", "nlopt_selection": "random"}
    for stop in ("given", "absent"):
        cfg = Cfg("real")

        def setup(ex, stop=stop):
            kw = {k: VInt(z3.Int("given_" + k)) for k in ints}
            kw.update({k: VFloat(z3.Real("given_" + k)) for k in reals})
            kw.update({k: VStr(v) for k, v in texts.items()})
            kw["memory"] = VBool(z3.Bool("given_memory"))
            kw["type"] = VStr("nlopt")
            kw["local_optimizer"] = VOpaque("xr", None, {"label": "local_optimizer"})
            kw["stopval"] = VFloat(z3.Real("given_stopval")) if stop == "given" else NONE
            ex.hold = kw
            me = ex.st.alloc(HObj(ci, {}))
            ex.self_ref = me
            return [me], dict(kw)
        ps = u.paths(fi, setup, cfg, label=f"Algorithm.__init__[stopval {stop}]")
        for p in ps:
            if p.kind != "return":
                rng = lambda k, lo, hi: z3.Or(z3.Int("given_" + k) < lo, z3.Int("given_" + k) > hi)
                bad = z3.Or(rng("generations", 1, 100000), rng("population_size", 1, 100000), rng("variant", 1, 18), rng("variant_adptv", 1, 2),
                            z3.Real("given_cr") < 0, z3.Real("given_cr") > 1, z3.Real("given_m") < 0, z3.Real("given_m") > 1)
                u.oblige(p, f"ctor.Algorithm.refuses_only_out_of_range[{stop}]", z3.And(zb(p.exc_name() == "ValueError"), bad), {"exc": p.exc_name()}, ALGO_REPLAY)
                continue
            goals, wit = [], {}
            for k in ints + reals + ["memory"] + list(texts) + ["local_optimizer"] + (["stopval"] if stop == "given" else []):
                try:
                    got = p.ex.getattr(p.ex.self_ref, k, Frame(None, ci.module))
                except PyExc:
                    goals.append(z3.BoolVal(False))
                    continue
                want = p.ex.hold[k]
                if isinstance(want, VOpaque):
                    goals.append(zb(got is want))
                elif isinstance(want, VStr):
                    goals.append(zb(isinstance(got, VStr) and got.v == want.v))
                elif type(got) is not type(want):
                    goals.append(z3.BoolVal(False))
                    wit[k] = type(got).__name__
                else:
                    import math as _m
                    if isinstance(want, VBool):
                        goals.append(z_bool(got.v) == z_bool(want.v))
                    elif is_conc(got.v) and is_conc(want.v):
                        goals.append(zb(got.v == want.v))
                    elif is_conc(got.v) and isinstance(got.v, float) and not _m.isfinite(got.v):
                        goals.append(z3.BoolVal(False))          # an infinity / NaN stored for a finite given value
                        wit[k] = repr(got.v)
                    else:
                        goals.append(got.v == want.v)
            u.oblige(p, f"ctor.Algorithm.keeps_every_setting[{stop}]", z3.And(*goals), dict(wit, stopval=z3.Real("given_stopval")), ALGO_REPLAY)
            inr = lambda k, lo, hi: z3.And(z3.Int("given_" + k) >= lo, z3.Int("given_" + k) <= hi)
            u.oblige(p, f"ctor.Algorithm.accepted_only_in_range[{stop}]", z3.And(inr("generations", 1, 100000), inr("population_size", 1, 100000), inr("variant", 1, 18), inr("variant_adptv", 1, 2),
                                                                                   z3.Real("given_cr") >= 0, z3.Real("given_cr") <= 1, z3.Real("given_m") >= 0, z3.Real("given_m") <= 1), {}, ALGO_REPLAY)
            if stop == "absent":
                sv = p.st.cell(p.ex.self_ref).fields.get("_stopval")
                u.oblige(p, "ctor.Algorithm.absent_stopval_is_minus_infinity", bool(isinstance(sv, VFloat) and is_conc(sv.v) and sv.v == float("-inf")), {"stored": repr(sv)}, ALGO_REPLAY)
        u.cover(f"ctor.Algorithm.cover[{stop}]", ps, lambda p: p.kind == "return")


from . import calibreport as _CR12  # noqa: E402
unit("C12", "ctor[running modes]")(_CR12.mode_ctor_unit)   # Exposure / Observation return the settings they were built with


# ---- WavelengthHandling (the wavelength section of the environment): accepted <=> 0 < cut_on <= cut_off and resolution > 0 ----------------
WAVE_REPLAY = lambda w: {"code": """
from pyxel.detectors import WavelengthHandling
VIOLATED, DETAIL = False, 'WavelengthHandling keeps its three values and refuses non-positive cut_on / resolution and cut_on > cut_off'
for c_on, c_off, res, ok in ((500.0, 900.0, 10, True), (500.0, 500.0, 1, True), (0.0, 900.0, 10, False), (-1.0, 900.0, 10, False), (900.0, 500.0, 10, False), (500.0, 900.0, 0, False),
                              (500.0, 900.0, -5, False), (1e-9, 1e-9, 1, True)):
    try:
        h = WavelengthHandling(cut_on=c_on, cut_off=c_off, resolution=res)
        good = ok and (h.cut_on, h.cut_off, h.resolution) == (c_on, c_off, res) and h.to_dict() == {'cut_on': c_on, 'cut_off': c_off, 'resolution': res} and WavelengthHandling.from_dict(h.to_dict()) == h
    except ValueError:
        good = not ok
    if not good:
        VIOLATED, DETAIL = True, f'WavelengthHandling(cut_on={c_on}, cut_off={c_off}, resolution={res}): expected {"accepted and kept" if ok else "refused"}'; break
""", "expect": "accepted exactly when 0 < cut_on <= cut_off and resolution > 0; the three values are kept and survive to_dict / from_dict"}


@unit("C12", "ctor[WavelengthHandling]")
def wavelength_ctor(u: Unit):
    """WavelengthHandling.__post_init__ for arbitrary reals cut_on, cut_off and integer resolution: accepted exactly when
    0 < cut_on <= cut_off and resolution > 0, otherwise ValueError; to_dict / from_dict carry the three values at their own names."""
    q = "pyxel/detectors/environment.py::WavelengthHandling"
    fp, ft, ff = u.fn(f"{q}.__post_init__"), u.fn(f"{q}.to_dict"), u.fn(f"{q}.from_dict")
    ci = u.cls(q)
    on, off_, res = z3.Real("cut_on"), z3.Real("cut_off"), z3.Int("resolution")
    valid = z3.And(on > 0, on <= off_, res > 0)

    def setup(ex):
        me = ex.st.alloc(HObj(ci, {"cut_on": VFloat(on), "cut_off": VFloat(off_), "resolution": VInt(res)}))
        ex.me = me
        return [me], {}
    ps = u.paths(fp, setup, Cfg("real"), label="WavelengthHandling.__post_init__")
    for p in ps:
        if p.kind == "return":
            f = p.st.cell(p.ex.me).fields
            kept = z3.And(to_real(f["cut_on"]) == on, to_real(f["cut_off"]) == off_, z_int(int_of(f["resolution"])) == res)
            u.oblige(p, "ctor.WavelengthHandling.accepted_only_if_valid", z3.And(valid, kept), {"cut_on": on, "cut_off": off_, "resolution": res}, WAVE_REPLAY)
        else:
            u.oblige(p, "ctor.WavelengthHandling.refused_only_if_invalid", z3.And(zb(p.exc_name() == "ValueError"), z3.Not(valid)), {"cut_on": on, "cut_off": off_, "resolution": res}, WAVE_REPLAY)
    u.cover("ctor.WavelengthHandling.cover", ps, lambda p: p.kind == "return")
    u.cover("ctor.WavelengthHandling.cover_refusal", ps, lambda p: p.kind == "raise")
    # to_dict then from_dict: every value back under its own name
    for p in u.paths(ft, setup, Cfg("real"), label="WavelengthHandling.to_dict"):
        d = p.ex.try_dict(p.value) if p.kind == "return" else None
        ok = d is not None and [k.v for k, _ in d] == ["cut_on", "cut_off", "resolution"]
        goal = z3.And(to_real(d[0][1]) == on, to_real(d[1][1]) == off_, z_int(int_of(d[2][1])) == res) if ok else z3.BoolVal(False)
        u.oblige(p, "ctor.WavelengthHandling.to_dict_names_its_values", goal, {}, WAVE_REPLAY)

    def setup_f(ex):
        ex.st.assume(valid)
        d = ex.st.alloc(HDict([(VStr("resolution"), VInt(res)), (VStr("cut_off"), VFloat(off_)), (VStr("cut_on"), VFloat(on))]))
        return [VClass(ci), d], {}
    for p in u.paths(ff, setup_f, Cfg("real"), label="WavelengthHandling.from_dict"):
        if p.kind != "return" or not isinstance(p.value, VRef):
            u.oblige(p, "ctor.WavelengthHandling.from_dict_reads_its_names", False, {"exc": p.exc_name()}, WAVE_REPLAY)
            continue
        f = p.st.cell(p.value).fields
        u.oblige(p, "ctor.WavelengthHandling.from_dict_reads_its_names", z3.And(to_real(f["cut_on"]) == on, to_real(f["cut_off"]) == off_, z_int(int_of(f["resolution"])) == res), {}, WAVE_REPLAY)


def _readout_setters_atomic(u: Unit):
    """C02.readout_setters_atomic (imported late): the limits of the readout settings hold when they are changed through their attribute, and a
    refused change leaves the loaded value"""
    from . import C02 as _C02
    return _C02.readout_setters_atomic(u)


unit("C12", "readout.setters.atomic")(_readout_setters_atomic)
