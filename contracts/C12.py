"""C12 — a configuration means what it says, and nonsense is refused.

Contracts (written from the statement and the documented ranges, not from the bodies):
  class invariant  valid(obj): every validated field is None or a number inside its documented range
  ctor     : returns  =>  valid(self) and the stored value equals the given one
  setter   : returns  =>  valid(self) and stored == value ; raises => field unchanged
Inputs range over the complete tag split none/bool/int/float/str; floats are IEEE binary64 terms
(NaN, +-inf, -0.0 included) because the code only compares them.
"""
from __future__ import annotations

import itertools

from .common import *  # noqa: F401,F403

G = "pyxel/detectors/geometry.py"
C = "pyxel/detectors/characteristics.py"
E = "pyxel/detectors/environment.py"
A = "pyxel/detectors/apd/apd_characteristics.py"

# (class file, class, public name, private attr, lo, hi, lo_strict, import path, ctor kwargs needed besides the field)
FIELDS = [
    (G, "Geometry", "row", "_row", 0, None, True, "pyxel.detectors", {"col": 4}),
    (G, "Geometry", "col", "_col", 0, None, True, "pyxel.detectors", {"row": 3}),
    (G, "Geometry", "total_thickness", "_total_thickness", 0.0, 10000.0, False, "pyxel.detectors", {"row": 3, "col": 4}),
    (G, "Geometry", "pixel_vert_size", "_pixel_vert_size", 0.0, 1000.0, False, "pyxel.detectors", {"row": 3, "col": 4}),
    (G, "Geometry", "pixel_horz_size", "_pixel_horz_size", 0.0, 1000.0, False, "pyxel.detectors", {"row": 3, "col": 4}),
    (G, "Geometry", "pixel_scale", "_pixel_scale", 0.0, 1000.0, False, "pyxel.detectors", {"row": 3, "col": 4}),
    (C, "Characteristics", "quantum_efficiency", "_quantum_efficiency", 0.0, 1.0, False, "pyxel.detectors", {}),
    (C, "Characteristics", "charge_to_volt_conversion", "_charge_to_volt_conversion", 0.0, 100.0, False, "pyxel.detectors", {}),
    (C, "Characteristics", "pre_amplification", "_pre_amplification", 0.0, 10000.0, False, "pyxel.detectors", {}),
    (C, "Characteristics", "full_well_capacity", "_full_well_capacity", 0.0, 1.0e7, False, "pyxel.detectors", {}),
    (C, "Characteristics", "adc_bit_resolution", "_adc_bit_resolution", 4, 64, False, "pyxel.detectors", {}),
    (E, "Environment", "temperature", "_temperature", 0.0, 1000.0, True, "pyxel.detectors", {}),
    (E, "Environment", "wavelength", "_wavelength", 0.0, None, True, "pyxel.detectors", {}),
]

APD_SETTERS = [
    (A, "APDCharacteristics", "quantum_efficiency", "_quantum_efficiency", 0.0, 1.0, False),
    (A, "APDCharacteristics", "adc_bit_resolution", "_adc_bit_resolution", 4, 64, False),
    (A, "APDCharacteristics", "full_well_capacity", "_full_well_capacity", 0.0, 1.0e7, False),
]


def range_text(lo, hi, strict):
    return f"{lo} {'<' if strict else '<='} v" + (f" <= {hi}" if hi is not None else "")


def native_pred(lo, hi, strict):
    lo_c = f"v > {lo!r}" if strict else f"v >= {lo!r}"
    hi_c = f" and v <= {hi!r}" if hi is not None else ""
    return f"(v is None or (isinstance(v, (int, float)) and not isinstance(v, str) and ({lo_c}{hi_c})))"


EXTRA_CANDIDATES = {
    "str": ["-5", "0", "1e9", "nan", "-1.5", "100000"],
    "float": [float("nan"), -1.0, 1e300, float("inf"), float("-inf")],
    "int": [-1, 0, 10**6, 10**9],
    "bool": [False, True],
}


def cand_list(w):
    """Witness of the counter-model first, then a few same-typed candidates (contract-guided search:
    uninterpreted parse_float / abstract rounding can make the model's own value not reproduce)."""
    vals = [w.get("value")] + EXTRA_CANDIDATES.get(w.get("tag"), [])
    return "[" + ", ".join(pylit(v) for v in vals) + "]"


def ctor_replay(imp, cls, name, attr, lo, hi, strict, extra):
    def mk(w):
        kw = ", ".join(f"{k}={v!r}" for k, v in extra.items())
        return {"code": f"""
from {imp} import {cls}
VIOLATED, DETAIL = False, 'no candidate was accepted out of range'
for value in {cand_list(w)}:
    try:
        obj = {cls}({kw}{', ' if kw else ''}{name}=value)
    except Exception as e:
        DETAIL = 'constructor refused ' + repr(value) + ': ' + repr(e)
        continue
    v = obj.{attr}
    if not {native_pred(lo, hi, strict)}:
        VIOLATED = True
        DETAIL = {cls!r} + '(' + {name!r} + '=' + repr(value) + ') accepted; stored {attr}=' + repr(v) + ' ; documented range: ' + {range_text(lo, hi, strict)!r}
        break
""", "expect": f"{cls}.__init__ refuses {name} outside {range_text(lo, hi, strict)}"}
    return mk


def setter_replay(imp, cls, name, attr, lo, hi, strict, build):
    def mk(w):
        return {"code": f"""
from {imp} import {cls}
VIOLATED, DETAIL = False, 'no candidate was accepted out of range'
for value in {cand_list(w)}:
    obj = {build}
    before = obj.{attr}
    try:
        obj.{name} = value
    except Exception as e:
        if obj.{attr} is not before and obj.{attr} != before:
            VIOLATED, DETAIL = True, 'setter raised ' + repr(e) + ' but changed the field to ' + repr(obj.{attr})
            break
        DETAIL = 'setter refused ' + repr(value) + ': ' + repr(e)
        continue
    v = obj.{attr}
    if not {native_pred(lo, hi, strict)}:
        VIOLATED = True
        DETAIL = {cls!r} + '.' + {name!r} + ' = ' + repr(value) + ' accepted; stored {attr}=' + repr(v) + ' ; documented range: ' + {range_text(lo, hi, strict)!r}
        break
""", "expect": f"{cls}.{name} setter refuses values outside {range_text(lo, hi, strict)}"}
    return mk


def _field_units():
    for (path, cls, name, attr, lo, hi, strict, imp, extra) in FIELDS:
        def ctor_unit(u: Unit, path=path, cls=cls, name=name, attr=attr, lo=lo, hi=hi, strict=strict, imp=imp, extra=extra):
            fi = u.fn(f"{path}::{cls}.__init__")
            ci = u.cls(f"{path}::{cls}")
            cfg = Cfg("fp")
            normal = 0
            for tag in SCALAR_TAGS:
                val = sym_scalar("value", tag)

                def setup(ex, val=val):
                    obj = ex.st.alloc(HObj(ci, {}))
                    ex.self_ref = obj
                    kw = {k: VInt(v) for k, v in extra.items()}
                    kw[name] = val
                    return [obj], kw
                ps = u.paths(fi, setup, cfg, label=f"{cls}.__init__[{name}:{tag}]")
                for p in ps:
                    if p.kind != "return":
                        continue
                    normal += 1
                    stored = p.field(p.ex.self_ref, attr)
                    w = {"value": term_of(val), "tag": tag}
                    u.oblige(p, f"ctor.valid[{cls}.{name}:{tag}]", zb(in_range(stored, lo, hi, strict)), w,
                             ctor_replay(imp, cls, name, attr, lo, hi, strict, extra))
                    if tag in ("int", "float", "bool") and is_num(stored) and stored is not val:
                        u.oblige(p, f"ctor.stored_is_given[{cls}.{name}:{tag}]", zb(num_compare("eq", stored, val)), w)
            u.cover(f"ctor.cover[{cls}.{name}]", [1] * normal, lambda _: True)

        def setter_unit(u: Unit, path=path, cls=cls, name=name, attr=attr, lo=lo, hi=hi, strict=strict, imp=imp, extra=extra):
            fi = u.fn(f"{path}::{cls}.{name}.setter")
            ci = u.cls(f"{path}::{cls}")
            cfg = Cfg("fp")
            bk = dict(extra, row=3, col=4) if cls == "Geometry" else extra
            build = f"{cls}(" + ", ".join(f"{k}={v!r}" for k, v in bk.items()) + ")"
            normal = 0
            for tag in SCALAR_TAGS:
                val = sym_scalar("value", tag)
                old = VFloat(z3.FP("old_value", F64))

                def setup(ex, val=val, old=old):
                    obj = ex.st.alloc(HObj(ci, {attr: old}))
                    ex.self_ref = obj
                    return [obj, val], {}
                for p in u.paths(fi, setup, cfg, label=f"{cls}.{name}.setter[{tag}]"):
                    stored = p.field(p.ex.self_ref, attr)
                    w = {"value": term_of(val), "tag": tag}
                    if p.kind == "return":
                        normal += 1
                        u.oblige(p, f"setter.valid[{cls}.{name}:{tag}]", zb(in_range(stored, lo, hi, strict)), w,
                                 setter_replay(imp, cls, name, attr, lo, hi, strict, build))
                        if stored is not val:
                            u.oblige(p, f"setter.stored_is_given[{cls}.{name}:{tag}]", zb(is_num(stored) and is_num(val) and num_compare("eq", stored, val)), w)
                    else:
                        u.oblige(p, f"setter.atomic[{cls}.{name}:{tag}]", stored is old, w,
                                 setter_replay(imp, cls, name, attr, lo, hi, strict, build))
            u.cover(f"setter.cover[{cls}.{name}]", [1] * normal, lambda _: True)

        unit("C12", f"ctor[{cls}.{name}]")(ctor_unit)
        unit("C12", f"setter[{cls}.{name}]")(setter_unit)


_field_units()
