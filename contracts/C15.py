"""C15 — charge-handling models neither create nor lose charge unaccountably.

All obligations are pointwise at an arbitrary pixel g (arrays are element functions), in exact real arithmetic.
  collection.exact        simple_collection: pixel' == pixel + charge
  qe.*                    apply_qe: sampling off -> photons * qe ; sampling on -> 0 <= out <= trunc(photons);
                          simple_conversion refuses qe outside [0, 1]
  fwc.min_idempotent      apply_simple_full_well_capacity: out == min(in, fwc), f(f(x)) == f(x)
  ipc.weights             the nine kernel entries sum to one under the function's own parameter checks
  persist.*               clip_diff / clip_trapped_charge against their pointwise specs (nested loop invariants);
                          compute_simple_persistence / compute_persistence for a SYMBOLIC number of trap species:
                          pixel + sum_k trapped_k is constant over the step, trapped charge stays >= 0, pixel >= 0
"""
from __future__ import annotations

import ast

from pyvc import arrays
from .common import *  # noqa: F401,F403
from . import detmodel as D

CC = "pyxel/models/charge_collection/"
PE = "pyxel/models/charge_generation/photoelectrons.py"
PS = CC + "persistence.py"
TRUSTED = ["machine arithmetic treated as mathematical (real mode)", "A-NUMBA: numba.njit compiles the body with Python/numpy semantics (fastmath re-association ignored)",
           "Sum one-point-update lemma: changing one species' trapped charge changes the total by the difference",
           "np.random.binomial(n, p) returns values in [0, n]", "astropy convolve_fft is a linear convolution with constant fill (IPC: only the kernel weights are proved)",
           "x ** y = x * x ** (y - 1) and x ** y > 0 for x > 0; 0 < exp(x) <= 1 for x <= 0 (library facts, instantiated)",
           "CDM docstring parameter ranges: vg > 0, fwc > 0, 0 <= beta <= 1, tr > 0, nt >= 0, sigma >= 0, transfers >= 0"]
R, C_ = D.ROWS, D.COLS
G = D.GEN


def frame(ex, name, nonneg=False, shape=None):
    f = z3.Function(name, z3.IntSort(), z3.IntSort(), z3.RealSort())
    if nonneg:
        ex.st.assume(f(G[0], G[1]) >= 0)
    return ex.st.alloc(HArr(shape or (R, C_), VDtype("float64"), lambda ix: VFloat(f(z_int(ix[0]), z_int(ix[1]))))), f


def base(ex):
    ex.st.assume(z3.And(R > 0, C_ > 0, G[0] >= 0, G[0] < R, G[1] >= 0, G[1] < C_))
    ex.st.ghost["generic"] = [G]


def at(p: Path, ref, g=G):
    return to_real(p.st.cell(ref).elem(g))


def model_replay(code, expect):
    return lambda w: {"code": "import numpy as np, verif_probes as VP\n" + code, "expect": expect}


# ---- simple collection ---------------------------------------------------------------------------------
@unit("C15", "collection")
def collection(u: Unit):
    fi = u.fn(CC + "collection.py::simple_collection")
    cfg = D.install(Cfg("real"))
    rp = model_replay("""
from pyxel.models.charge_collection import simple_collection
det = VP.detector(); det.pixel.array = np.full((3, 4), 5.0); det.charge.add_charge_array(np.arange(12.0).reshape(3, 4))
simple_collection(det)
VIOLATED = not np.array_equal(det.pixel.array, 5.0 + np.arange(12.0).reshape(3, 4))
DETAIL = 'pixel after collection: ' + repr(det.pixel.array.tolist())
""", "pixel' == pixel + charge")

    def setup(ex):
        det = D.mk_detector(ex, u)
        st = ex.st
        st.cell(ex.det_parts["pixel"]).fields["_array"] = D.sym_frame(ex, "pix0")
        st.cell(ex.det_parts["charge"]).fields["_frame"] = D.df_obj(ex, z3.IntVal(0))
        ex.pix0 = D.frame_elem(st, D.bucket_array(st, ex.det_parts["pixel"]))
        ex.chg0 = D.frame_elem(st, st.cell(ex.det_parts["charge"]).fields["_array"])
        return [det], {}
    ps = u.paths(fi, setup, cfg, label="simple_collection")
    for p in ps:
        if p.kind != "return":
            u.oblige(p, "collection.no_raise", False, {}, rp)
            continue
        st = p.st
        u.oblige(p, "collection.exact", D.frame_elem(st, D.bucket_array(st, p.ex.det_parts["pixel"])) == p.ex.pix0 + p.ex.chg0, {}, rp)
        u.oblige(p, "collection.charge_unchanged", D.frame_elem(st, st.cell(p.ex.det_parts["charge"]).fields["_array"]) == p.ex.chg0, {}, rp)
    u.cover("collection.cover", ps, lambda p: p.kind == "return")


# ---- quantum efficiency ----------------------------------------------------------------------------------
@unit("C15", "qe")
def qe_unit(u: Unit):
    fi = u.fn(PE + "::apply_qe")
    qe = z3.Real("qe")
    rp = model_replay("""
from pyxel.models.charge_generation.photoelectrons import apply_qe
ph = np.array([[0.0, 1.0, 7.9, 1000.0]])
out0 = apply_qe(array=ph, qe=0.37, binomial_sampling=False)
out1 = apply_qe(array=ph, qe=0.37, binomial_sampling=True)
VIOLATED = not np.allclose(out0, ph * 0.37) or bool(np.any(out1 < 0)) or bool(np.any(out1 > np.trunc(ph)))
DETAIL = 'expectation: ' + repr(out0.tolist()) + ' sampled: ' + repr(out1.tolist())
if not VIOLATED:
    # fractional photon counts, efficiency one (every trial succeeds): the charge can never exceed the photons of its pixel
    frac = np.array([[0.6, 2.6, 0.4, 54321.75, 2.5, 3.5, 0.999999]])
    for q in (1.0, 0.95):
        for _ in range(20 if q < 1 else 1):
            out = apply_qe(array=frac, qe=q, binomial_sampling=True)
            if np.any(out > frac) or np.any(out < 0):
                VIOLATED, DETAIL = True, f'qe={q}: photons {frac.tolist()} -> charge {np.asarray(out).tolist()} (more electrons than photons in a pixel)'; break
        if VIOLATED: break
""", "0 <= charge <= photons; exactly qe * photons without sampling")
    for sampling in (False, True):
        holder = {}

        def setup(ex, sampling=sampling):
            base(ex)
            ex.st.assume(z3.And(qe >= 0, qe <= 1))
            a, f = frame(ex, "photons", nonneg=True)
            holder["f"] = f
            return [], {"array": a, "qe": VFloat(qe), "binomial_sampling": VBool(sampling)}
        ps = u.paths(fi, setup, Cfg("real"), label=f"apply_qe[sampling={sampling}]")
        for p in ps:
            if p.kind != "return":
                u.oblige(p, f"qe.no_raise[{sampling}]", False, {}, rp)
                continue
            out = at(p, p.value)
            ph = holder["f"](G[0], G[1])
            if sampling:
                u.oblige(p, "qe.bounds[sampled]", z3.And(out >= 0, out <= ph), {}, rp)
            else:
                u.oblige(p, "qe.bounds[expectation]", out == ph * qe, {}, rp)
        u.cover(f"qe.cover[{sampling}]", ps, lambda p: p.kind == "return")
    # simple_conversion refuses an efficiency outside [0, 1] (argument or characteristics)
    fc = u.fn(PE + "::simple_conversion")
    cfg = D.install(Cfg("real"))
    qv = z3.Real("qe_arg")

    def setup2(ex):
        det = D.mk_detector(ex, u)
        ex.st.cell(ex.det_parts["photon"]).fields["_array"] = D.sym_frame(ex, "ph0")
        ex.st.cell(ex.det_parts["charge"]).fields["_frame"] = D.df_obj(ex, z3.IntVal(0))
        return [det], {"quantum_efficiency": VFloat(qv), "seed": NONE, "binomial_sampling": VBool(z3.Bool("sampling"))}
    ps = u.paths(fc, setup2, cfg, label="simple_conversion")
    for p in ps:
        if p.kind == "return":
            u.oblige(p, "qe.range_enforced", z3.And(qv >= 0, qv <= 1), {"qe": qv},
                     model_replay("""
from pyxel.models.charge_generation import simple_conversion
VIOLATED, DETAIL = False, ''
for q in (-0.1, 1.5):
    det = VP.detector(); det.photon.array = np.ones((3, 4))
    try:
        simple_conversion(det, quantum_efficiency=q, binomial_sampling=False)
        VIOLATED, DETAIL = True, f'quantum_efficiency={q} accepted'
    except ValueError:
        pass
""", "qe outside [0, 1] refused"))
    u.cover("qe.cover[simple_conversion]", ps, lambda p: p.kind == "return")


# ---- full well ----------------------------------------------------------------------------------------------
@unit("C15", "fwc")
def fwc_unit(u: Unit):
    fi = u.fn(CC + "full_well.py::apply_simple_full_well_capacity")
    cap = z3.Real("fwc")
    holder = {}
    rp = model_replay("""
from pyxel.models.charge_collection.full_well import apply_simple_full_well_capacity as f
x = np.array([[0.0, 5.0, 10.0, 10.5, 1e9]])
y = f(x.copy(), 10.0)
VIOLATED = not np.array_equal(y, np.minimum(x, 10.0)) or not np.array_equal(f(y.copy(), 10.0), y)
DETAIL = 'fwc(10) on ' + repr(x.tolist()) + ' -> ' + repr(y.tolist())
""", "out == min(in, fwc), idempotent")

    def setup(ex):
        base(ex)
        a, f = frame(ex, "pix")
        holder["f"] = f
        return [], {"array": a, "fwc": VFloat(cap)}
    ps = u.paths(fi, setup, Cfg("real"), label="apply_simple_full_well_capacity")
    for p in ps:
        if p.kind != "return":
            u.oblige(p, "fwc.no_raise", False, {}, rp)
            continue
        x = holder["f"](G[0], G[1])
        out = at(p, p.value)
        mn = lambda a, b: z3.If(a <= b, a, b)
        u.oblige(p, "fwc.min", out == mn(x, cap), {"x": x, "fwc": cap}, rp)
        u.oblige(p, "fwc.idempotent", mn(out, cap) == out, {"x": x, "fwc": cap}, rp)
    u.cover("fwc.cover", ps, lambda p: p.kind == "return")


# ---- inter-pixel capacitance ----------------------------------------------------------------------------------
@unit("C15", "ipc")
def ipc_unit(u: Unit):
    fi = u.fn(CC + "inter_pixel_capacitance.py::ipc_kernel")
    c, d, a = z3.Reals("coupling diagonal anisotropic")
    rp = model_replay("""
from pyxel.models.charge_collection.inter_pixel_capacitance import ipc_kernel
k = ipc_kernel(coupling=0.1, diagonal_coupling=0.05, anisotropic_coupling=0.03)
VIOLATED = abs(k.sum() - 1.0) > 1e-12
DETAIL = 'kernel sum = ' + repr(float(k.sum()))
""", "kernel weights sum to one")
    ps = u.paths(fi, lambda ex: ([], {"coupling": VFloat(c), "diagonal_coupling": VFloat(d), "anisotropic_coupling": VFloat(a)}), Cfg("real"), label="ipc_kernel")
    for p in ps:
        if p.kind != "return":
            continue
        k = p.st.cell(p.value)
        total = sum(to_real(k.elem((z3.IntVal(i), z3.IntVal(j)))) for i in range(3) for j in range(3))
        u.oblige(p, "ipc.weights", z3.And(z3.simplify(total) == 1, len(k.shape) == 2 and k.shape[0] == 3 and k.shape[1] == 3), {"c": c, "d": d, "a": a}, rp)
        u.oblige(p, "ipc.centre_nonneg", to_real(k.elem((z3.IntVal(1), z3.IntVal(1)))) >= 0, {"c": c, "d": d}, rp)
    u.cover("ipc.cover", ps, lambda p: p.kind == "return")


# ---- persistence: elementwise helpers ----------------------------------------------------------------------------
def clip_diff_spec(d, t, e):
    return z3.If(d < 0, z3.If(d < -t, -t, d), z3.If(d > e, e, d))


def clipped_spec(t, pd, maximum):
    return z3.If(z3.And(pd < 0, t > maximum), maximum, t)


def elementwise_specs(qual, out_name, spec_at, orig_at):
    """Loop invariants of `for i in range(n): for j in range(m): out[i, j] = ...` : the pixels before (i, j) in
    row-major order hold the specification value, the others still hold the original value."""
    def cellof(ex, fr):
        return ex.st.cell(fr.locals[out_name])

    def hav(ex, fr, k):
        c = cellof(ex, fr)
        f = z3.Function(ex.st.fresh_name(out_name), z3.IntSort(), z3.IntSort(), z3.RealSort())
        c.elem = lambda ix, f=f: VFloat(f(z_int(ix[0]), z_int(ix[1])))

    def mods(ex, fr):
        return [fr.locals[out_name].addr]

    def inv_outer(ex, fr, k):
        return to_real(cellof(ex, fr).elem(G)) == z3.If(G[0] < k, spec_at(ex, fr), orig_at(ex, fr))

    def inv_inner(ex, fr, k):
        i = z_int(int_of(fr.locals["i"]))
        return to_real(cellof(ex, fr).elem(G)) == z3.If(z3.Or(G[0] < i, z3.And(G[0] == i, G[1] < k)), spec_at(ex, fr), orig_at(ex, fr))
    return {(qual, 0): LoopSpec("i in range(n)", inv_outer, havoc=hav, modifies=mods, name=f"{qual.split('::')[1]}.rows"),
            (qual, 1): LoopSpec("j in range(m)", inv_inner, havoc=hav, modifies=mods, name=f"{qual.split('::')[1]}.cols")}


PERSIST_REPLAY = model_replay("""
from pyxel.models.charge_collection.persistence import compute_simple_persistence, compute_persistence, clip_diff, clip_trapped_charge
rng = np.random.default_rng(3)
VIOLATED, DETAIL = False, ''
for species in (1, 2, 3):
    for cap in (None, 50.0):
        pixel = rng.uniform(0, 2000, (3, 4)); trapped = rng.uniform(0, 400, (species, 3, 4))
        p0, t0 = pixel.copy(), trapped.copy()
        out_p, out_t = compute_simple_persistence(pixel_array=pixel.copy(), all_trapped_charge=trapped.copy(), trap_densities=np.full(species, 0.3),
                                                  trap_time_constants=np.linspace(1.0, 5.0, species), delta_t=2.0,
                                                  trap_capacities=None if cap is None else np.full(species, cap))
        before, after = p0 + t0.sum(axis=0), out_p + out_t.sum(axis=0)
        if not np.allclose(before, after, rtol=1e-9) or out_t.min() < -1e-9:
            VIOLATED = True
            DETAIL = f'{species} species, capacity {cap}: pixel+trapped before {before.sum():.3f} after {after.sum():.3f}; min trapped {out_t.min():.3f}'
            break
    if VIOLATED: break
""", "pixel + trapped charge constant over a persistence step; trapped >= 0")


@unit("C15", "persist.helpers")
def persist_helpers(u: Unit):
    # clip_diff
    fi = u.fn(PS + "::clip_diff")
    cfg = Cfg("real")
    hd = {}
    # no loop contract given: the two nested range loops are independent-iteration loops, summarised by engine.map_loop
    u.internal_replay, u.internal_witness = PERSIST_REPLAY, {}

    def setup(ex):
        base(ex)
        d, hd["d"] = frame(ex, "diff")
        t, hd["t"] = frame(ex, "trapped")
        e, hd["e"] = frame(ex, "empty")
        return [], {"diff": d, "trapped_charge": t, "empty_traps": e}
    ps = u.paths(fi, setup, cfg, label="clip_diff")
    for p in ps:
        if p.kind != "return":
            u.oblige(p, "persist.clip_diff.no_raise", False, {}, PERSIST_REPLAY)
            continue
        u.oblige(p, "persist.clip_diff.spec", at(p, p.value) == clip_diff_spec(hd["d"](*G), hd["t"](*G), hd["e"](*G)), {}, PERSIST_REPLAY)
    u.cover("persist.clip_diff.cover", ps, lambda p: p.kind == "return")
    # clip_trapped_charge, with and without capacities
    fj = u.fn(PS + "::clip_trapped_charge")
    for with_cap in (False, True):
        cfg = Cfg("real")
        h2 = {}

        def maximum():
            av = h2["avail"](*G)
            if not with_cap:
                return av
            cp = h2["cap"](*G)
            return z3.If(cp < av, cp, av)      # python min(a, b): b if b < a else a

        def setup2(ex, with_cap=with_cap):
            base(ex)
            t, h2["t"] = frame(ex, "trapped")
            px, h2["pix"] = frame(ex, "pixel")
            av, h2["avail"] = frame(ex, "avail")
            pd, h2["pd"] = frame(ex, "pixel_diff")
            kw = {"trapped_charge": t, "pixel": px, "available_traps": av, "pixel_diff": pd}
            if with_cap:
                cp, h2["cap"] = frame(ex, "cap")
                kw["trap_capacities"] = cp
            else:
                kw["trap_capacities"] = NONE
            return [], kw
        ps = u.paths(fj, setup2, cfg, label=f"clip_trapped_charge[cap={with_cap}]")
        for p in ps:
            if p.kind != "return":
                u.oblige(p, f"persist.clip_trapped.no_raise[{with_cap}]", False, {}, PERSIST_REPLAY)
                continue
            cl, po = p.ex.iterate(p.value, None)
            cs = clipped_spec(h2["t"](*G), h2["pd"](*G), maximum())
            u.oblige(p, f"persist.clip_trapped.spec[cap={with_cap}]", z3.And(at(p, cl) == cs, at(p, po) == h2["pix"](*G) + h2["t"](*G) - cs), {}, PERSIST_REPLAY)
        u.cover(f"persist.clip_trapped.cover[{with_cap}]", ps, lambda p: p.kind == "return")


# ---- persistence: the species loops ---------------------------------------------------------------------------------
S = z3.Int("n_species")
S2 = z3.Int("g_species")          # generic species index


def helper_contracts(cfg, u):
    """Pointwise contracts of the two clipping helpers (proved in unit persist.helpers)."""
    def clip_diff_apply(ex, args, kwargs, fr):
        d, t, e = (ex.st.cell(kwargs[k]) for k in ("diff", "trapped_charge", "empty_traps"))
        de, te, ee = d.elem, t.elem, e.elem
        return arrays.new_array(ex, d.shape, d.dtype, lambda ix: VFloat(clip_diff_spec(to_real(de(ix)), to_real(te(ix)), to_real(ee(ix)))))

    def clip_trapped_apply(ex, args, kwargs, fr):
        t, px, av, pd = (ex.st.cell(kwargs[k]) for k in ("trapped_charge", "pixel", "available_traps", "pixel_diff"))
        te, pe, ae, de = t.elem, px.elem, av.elem, pd.elem
        cap = kwargs.get("trap_capacities", NONE)
        ce = ex.st.cell(cap).elem if not isinstance(cap, VNone) else None

        def mx(ix):
            a = to_real(ae(ix))
            if ce is None:
                return a
            c = to_real(ce(ix))
            return z3.If(c < a, c, a)
        cl = lambda ix: clipped_spec(to_real(te(ix)), to_real(de(ix)), mx(ix))
        clipped = arrays.new_array(ex, t.shape, t.dtype, lambda ix: VFloat(cl(ix)))
        out = arrays.new_array(ex, px.shape, px.dtype, lambda ix: VFloat(to_real(pe(ix)) + to_real(te(ix)) - cl(ix)))
        return VTuple([clipped, out])
    cfg.contracts[PS + "::clip_diff"] = Contract(PS + "::clip_diff", clip_diff_apply, "pointwise clip of diff between -trapped and empty traps")
    cfg.contracts[PS + "::clip_trapped_charge"] = Contract(PS + "::clip_trapped_charge", clip_trapped_apply, "pointwise clip of trapped charge; released charge returned to the pixel")


def species_loop(header, second, pixel_name="pixel_array"):
    """Invariant of both species loops: at the generic pixel g
         pixel[g] + TOT == pixel0[g] + TOT0     (TOT = sum over species of trapped[s, g], ghost, one-point updates)
         pixel[g] >= 0, trapped[s2, g] >= 0 for the generic species s2
       second loop additionally: after at least one iteration output_pixel[g] == pixel[g]."""
    def A(ex, fr):
        return ex.st.cell(fr.locals["all_trapped_charge"])

    def P(ex, fr):
        return ex.st.cell(fr.locals[pixel_name])

    def a_at(ex, fr, s):
        return to_real(A(ex, fr).elem((s, G[0], G[1])))

    def hav(ex, fr, k):
        st = ex.st
        fa = z3.Function(st.fresh_name("trapped3d"), z3.IntSort(), z3.IntSort(), z3.IntSort(), z3.RealSort())
        A(ex, fr).elem = lambda ix, fa=fa: VFloat(fa(z_int(ix[0]), z_int(ix[1]), z_int(ix[2])))
        fp = z3.Function(st.fresh_name("pixel"), z3.IntSort(), z3.IntSort(), z3.RealSort())
        P(ex, fr).elem = lambda ix, fp=fp: VFloat(fp(z_int(ix[0]), z_int(ix[1])))
        st.ghost["TOT"] = st.fresh_real("tot")
        st.ghost["A_HEAD"] = fa
        st.ghost["LOOP_K"] = k
        if second:
            fo = z3.Function(st.fresh_name("output_pixel"), z3.IntSort(), z3.IntSort(), z3.RealSort())
            fr.locals["output_pixel"] = st.alloc(HArr((R, C_), VDtype("float64"), lambda ix, fo=fo: VFloat(fo(z_int(ix[0]), z_int(ix[1])))))

    def mods(ex, fr):
        return [fr.locals["all_trapped_charge"].addr, fr.locals[pixel_name].addr]

    def after(ex, fr, k):
        st = ex.st
        fa = st.ghost["A_HEAD"]
        # row frame: species other than k keep their trapped charge at g
        q = z3.Int("q_species")
        st.oblige(("persist.second" if second else "persist.first") + ".row_frame",
                  z3.ForAll([q], z3.Implies(z3.And(q >= 0, q < S, q != k), a_at(ex, fr, q) == fa(q, G[0], G[1]))), {"replay": PERSIST_REPLAY}, assume_after=True)
        st.ghost["TOT"] = st.ghost["TOT"] - fa(k, G[0], G[1]) + a_at(ex, fr, k)

    def inv(ex, fr, k):
        st = ex.st
        p = to_real(P(ex, fr).elem(G))
        out = {"conservation": p + st.ghost["TOT"] == z3.Real("C0"),
               "pixel_nonneg": p >= 0,
               "trapped_nonneg": z3.ForAll([z3.Int("q_species")], z3.Implies(z3.And(z3.Int("q_species") >= 0, z3.Int("q_species") < S), a_at(ex, fr, z3.Int("q_species")) >= 0)),
               "shapes": z3.And(z_int(A(ex, fr).shape[0]) == S, z_int(A(ex, fr).shape[1]) == R, z_int(A(ex, fr).shape[2]) == C_,
                                z_int(P(ex, fr).shape[0]) == R, z_int(P(ex, fr).shape[1]) == C_)}
        if second and "output_pixel" in fr.locals:
            out["output_is_pixel"] = z3.Implies(k >= 1, to_real(ex.st.cell(fr.locals["output_pixel"]).elem(G)) == p)
        return out
    return LoopSpec(header, inv, havoc=hav, modifies=mods, after_body=after, name="persist.second" if second else "persist.first")


def persistence_unit(fname, simple):
    def un(u: Unit):
        fi = u.fn(f"{PS}::{fname}")
        for with_cap in (False, True):
            cfg = Cfg("real")
            helper_contracts(cfg, u)
            cfg.loops[(fi.qualname, 0)] = species_loop("(i, trapped_charge) in enumerate(all_trapped_charge)", False)
            cfg.loops[(fi.qualname, 1)] = species_loop("(i, trapped_charge) in enumerate(all_trapped_charge)", True)
            u.internal_replay, u.internal_witness = PERSIST_REPLAY, {}
            dens = z3.Function("density", z3.IntSort(), z3.RealSort())
            tau = z3.Function("tau", z3.IntSort(), z3.RealSort())
            capf = z3.Function("capacity", z3.IntSort(), z3.RealSort())
            dens2d = z3.Function("dens2d", z3.IntSort(), z3.IntSort(), z3.RealSort())
            cap2d = z3.Function("cap2d", z3.IntSort(), z3.IntSort(), z3.RealSort())
            dt = z3.Real("delta_t")
            fa0 = z3.Function("trapped0", z3.IntSort(), z3.IntSort(), z3.IntSort(), z3.RealSort())
            fp0 = z3.Function("pixel0", z3.IntSort(), z3.IntSort(), z3.RealSort())
            k_ = z3.Int("any_species")

            def setup(ex, with_cap=with_cap):
                base(ex)
                st = ex.st
                st.assume(z3.And(S >= 1, dt >= 0, fp0(*G) >= 0))
                # documented parameter ranges: densities (x proportions) in [0, 1], time constants > 0, capacities >= 0
                if simple:
                    st.assume(z3.ForAll([k_], z3.And(dens(k_) >= 0, dens(k_) <= 1, tau(k_) > 0, capf(k_) >= 0)))
                else:
                    st.assume(z3.ForAll([k_], z3.And(dens(k_) >= 0, dens2d(*G) >= 0, dens(k_) * dens2d(*G) <= 1, tau(k_) > 0, cap2d(*G) >= 0)))
                st.assume(z3.ForAll([k_], fa0(k_, G[0], G[1]) >= 0))
                vec = lambda f: st.alloc(HArr((S,), VDtype("float64"), lambda ix, f=f: VFloat(f(z_int(ix[0])))))
                A0 = st.alloc(HArr((S, R, C_), VDtype("float64"), lambda ix: VFloat(fa0(z_int(ix[0]), z_int(ix[1]), z_int(ix[2])))))
                P0 = st.alloc(HArr((R, C_), VDtype("float64"), lambda ix: VFloat(fp0(z_int(ix[0]), z_int(ix[1])))))
                st.ghost["TOT"] = z3.Real("TOT0")
                st.assume(z3.Real("C0") == fp0(*G) + z3.Real("TOT0"))
                kw = {"pixel_array": P0, "all_trapped_charge": A0, "trap_time_constants": vec(tau), "delta_t": VFloat(dt)}
                if simple:
                    kw["trap_densities"] = vec(dens)
                    kw["trap_capacities"] = vec(capf) if with_cap else NONE
                else:
                    kw["trap_proportions"] = vec(dens)
                    kw["trap_densities_2d"] = st.alloc(HArr((R, C_), VDtype("float64"), lambda ix: VFloat(dens2d(z_int(ix[0]), z_int(ix[1])))))
                    kw["trap_capacities_2d"] = st.alloc(HArr((R, C_), VDtype("float64"), lambda ix: VFloat(cap2d(z_int(ix[0]), z_int(ix[1]))))) if with_cap else NONE
                return [], kw
            ps = u.paths(fi, setup, cfg, max_paths=600, label=f"{fname}[cap={with_cap}]")
            for p in ps:
                if p.kind != "return":
                    u.oblige(p, f"persist.no_raise[{fname},cap={with_cap}]", False, {"exc": p.exc_name()}, PERSIST_REPLAY)
                    continue
                outp, outa = p.ex.iterate(p.value, None)
                u.oblige(p, f"persist.conservation[{fname},cap={with_cap}]", at(p, outp) + p.st.ghost["TOT"] == z3.Real("C0"), {}, PERSIST_REPLAY)
                u.oblige(p, f"persist.trapped_nonneg[{fname},cap={with_cap}]",
                         z3.Implies(z3.And(S2 >= 0, S2 < S), to_real(p.st.cell(outa).elem((S2, G[0], G[1]))) >= 0), {}, PERSIST_REPLAY)
                u.oblige(p, f"persist.pixel_nonneg[{fname},cap={with_cap}]", at(p, outp) >= 0, {}, PERSIST_REPLAY)
            u.cover(f"persist.cover[{fname},cap={with_cap}]", ps, lambda p: p.kind == "return")
    return un


unit("C15", "persist.simple")(persistence_unit("compute_simple_persistence", True))
unit("C15", "persist.full")(persistence_unit("compute_persistence", False))


# ---- charge transfer inefficiency (CDM): three nested loops, ghost total ----------------------------------------------
CDMQ = "pyxel/models/charge_transfer/cdm.py"
YD, XD, KD = z3.Int("ydim"), z3.Int("xdim"), z3.Int("kdim")
BETA, VG, TT, FWC, VTH = (z3.Real(n) for n in ("beta", "vg", "t_period", "fwc", "vth"))
TR, NT_, SG = (z3.Function(n, z3.IntSort(), z3.RealSort()) for n in ("tr", "nt", "sigma"))
PHI0 = z3.Real("PHI0")

CDM_REPLAY = model_replay("""
from pyxel.models.charge_transfer.cdm import run_cdm_parallel, run_cdm_serial
rng = np.random.default_rng(1)
VIOLATED, DETAIL = False, ''
# heavy trapping of a faint packet by several species (each species must capture from what the previous ones left)
from pyxel.models.charge_transfer import cdm as cdm_model
import verif_probes as VP
for direction in ('parallel', 'serial'):
    for n_species in (2, 3, 5):
        det = VP.detector(rows=24, cols=24)
        det.environment.temperature = 273.15
        frame = np.zeros((24, 24)); frame[10, :] = 10.0; frame[:, 10] = 10.0
        det.pixel.array = frame.copy()
        try:
            cdm_model(detector=det, direction=direction, beta=0.3, trap_release_times=[5e-3, 6e-3, 7e-3, 8e-3, 9e-3][:n_species], trap_densities=[1e12] * n_species,
                      sigma=[1e-15] * n_species, full_well_capacity=1e5, max_electron_volume=1e-10, transfer_period=1e-3, charge_injection=False)
        except Exception as e:
            DETAIL = 'cdm model raised ' + repr(e)[:200]
            continue
        out = np.array(det.pixel.array)
        if out.min() < 0 or out.sum() > frame.sum() * (1 + 1e-12) + 1e-9:
            VIOLATED, DETAIL = True, f'cdm {direction}, {n_species} species, faint lines: min {out.min()}, total in {frame.sum()}, total out {out.sum()}'
            break
    if VIOLATED: break
# a hot pixel on a faint background / a bright block followed by faint pixels, applied three times: traps filled by the bright pixel meet faint ones
for direction in ('parallel', 'serial'):
    if VIOLATED: break
    for n_species in (1, 2, 3):
        if VIOLATED: break
        for kind in ('hot on 1 e-', 'bright block then faint', 'hot on dark'):
            det = VP.detector(rows=12, cols=12)
            det.environment.temperature = 273.15
            frame = np.zeros((12, 12)) if kind == 'hot on dark' else np.ones((12, 12))
            if kind == 'bright block then faint': frame[2:5, 2:5] = 5e4; frame[5:, :] = 3.0
            else: frame[4, 4] = 1e4
            det.pixel.array = frame.copy(); total = frame.sum()
            for rep in range(3):
                cdm_model(detector=det, direction=direction, beta=0.3, trap_release_times=[5e-3, 6e-3, 7e-3][:n_species], trap_densities=[1e12] * n_species,
                          sigma=[1e-15] * n_species, full_well_capacity=1e5, max_electron_volume=1e-10, transfer_period=1e-3, charge_injection=False)
                out = np.array(det.pixel.array)
                if out.min() < 0 or out.sum() > total * (1 + 1e-12) + 1e-9:
                    VIOLATED, DETAIL = True, f'cdm {direction}, {n_species} species, {kind}, application {rep + 1}: min {out.min()}, charge in {total}, charge out {out.sum()}'
                    break
                total = out.sum()
            if VIOLATED: break
for fn in (run_cdm_parallel, run_cdm_serial):
    if VIOLATED: break
    for trial in range(20):
        a = rng.choice([0.0, 0.005, 5.0, 300.0, 5e4], size=(6, 5)) * rng.uniform(0.5, 1.5, (6, 5))
        k = int(rng.integers(1, 4))
        out = fn(array=a.copy(), beta=float(rng.uniform(0.05, 0.95)), vg=float(rng.uniform(1e-11, 1e-9)), t=float(rng.uniform(1e-4, 1e-2)), fwc=float(rng.uniform(1e4, 1e6)),
                 vth=1.2e7, tr=rng.uniform(1e-5, 1e-1, k), nt=rng.uniform(0.0, 50.0, k), sigma=rng.uniform(1e-16, 1e-14, k))
        if out.min() < 0 or out.sum() > a.sum() * (1 + 1e-12) + 1e-9:
            VIOLATED, DETAIL = True, f'{fn.__name__}: min {out.min()}, total in {a.sum()}, total out {out.sum()}'; break
    if VIOLATED: break
""", "transfer never yields negative pixels nor more total charge than it received")


def loop_nest(fnode):
    """The chain of nested for-loops of a kernel, outermost first (source order)."""
    out = []

    def walk(body):
        for st_ in body:
            if isinstance(st_, ast.For):
                out.append(st_)
                walk(st_.body)
                return True
            for fld in ("body", "orelse"):
                sub = getattr(st_, fld, None)
                if isinstance(sub, list) and walk(sub):
                    return True
        return False
    walk(fnode.body)
    return out


def cdm_specs(qual, arr_name, trap_name, fnode, row_var, col_var, trap_var):
    """Loop contracts of the CDM kernels. State: the frame `array` and the trap occupancy `no`; ghost PHI = sum(array) +
    sum(no). Invariant of all three loops: every pixel >= 0, every trap occupancy >= 0, PHI <= PHI0. The innermost
    iteration changes exactly one pixel and one trap slot, and not upward in total (local step)."""
    def A(ex, fr):
        return ex.st.cell(fr.locals[arr_name])

    def N(ex, fr):
        return ex.st.cell(fr.locals[trap_name])

    def inv(ex, fr, k):
        p0, p1, q0, q1 = z3.Ints("p_r p_c q_a q_b")
        a, n = A(ex, fr), N(ex, fr)
        return {"pixels_nonneg": z3.ForAll([p0, p1], z3.Implies(z3.And(p0 >= 0, p0 < YD, p1 >= 0, p1 < XD), to_real(a.elem((p0, p1))) >= 0)),
                "traps_nonneg": z3.ForAll([q0, q1], z3.Implies(z3.And(q0 >= 0, q0 < z_int(n.shape[0]), q1 >= 0, q1 < KD), to_real(n.elem((q0, q1))) >= 0)),
                "no_creation": ex.st.ghost["PHI"] <= PHI0,
                "shapes": z3.And(z_int(a.shape[0]) == YD, z_int(a.shape[1]) == XD, z_int(n.shape[1]) == KD)}

    def hav(ex, fr, k):
        st = ex.st
        fa = z3.Function(st.fresh_name("cdm_array"), z3.IntSort(), z3.IntSort(), z3.RealSort())
        fn = z3.Function(st.fresh_name("cdm_traps"), z3.IntSort(), z3.IntSort(), z3.RealSort())
        A(ex, fr).elem = lambda ix, fa=fa: VFloat(fa(z_int(ix[0]), z_int(ix[1])))
        N(ex, fr).elem = lambda ix, fn=fn: VFloat(fn(z_int(ix[0]), z_int(ix[1])))
        st.ghost["PHI"] = st.fresh_real("phi")
        st.ghost["CDM_HEAD"] = (fa, fn)

    def mods(ex, fr):
        return [fr.locals[arr_name].addr, fr.locals[trap_name].addr]

    def hav_inner(ex, fr, k):
        hav(ex, fr, k)
        st = ex.st
        fa, fn = st.ghost["CDM_HEAD"]
        inner_var = loop_nest(fnode)[-1].target.id
        val = lambda name: k if name == inner_var else z_int(int_of(fr.locals[name]))
        i_, j_, t_ = val(row_var), val(col_var), val(trap_var)
        a = fa(i_, j_)
        # library facts about x ** y on positive bases, instantiated at the pixel of this iteration
        st.assume(z3.Implies(a > 0, z3.And(upow(a, BETA) == a * upow(a, BETA - 1), upow(a, BETA - 1) > 0, upow(a, 1 - BETA) > 0)))
        st.ghost["CDM_CELL"] = (i_, j_, t_)

    def after_inner(ex, fr, k):
        st = ex.st
        fa, fn = st.ghost["CDM_HEAD"]
        i_, j_, t_ = st.ghost["CDM_CELL"]
        trap_ix = (j_, t_) if arr_name == "array" and trap_name == "no" else (i_, t_)
        a_new, n_new = to_real(A(ex, fr).elem((i_, j_))), to_real(N(ex, fr).elem(trap_ix))
        a_old, n_old = fa(i_, j_), fn(*trap_ix)
        p0, p1 = z3.Ints("p_r p_c")
        st.oblige("cdm.frame[only this pixel]", z3.ForAll([p0, p1], z3.Implies(z3.Or(p0 != i_, p1 != j_), to_real(A(ex, fr).elem((p0, p1))) == fa(p0, p1))), {"replay": CDM_REPLAY})
        st.oblige("cdm.frame[only this trap slot]", z3.ForAll([p0, p1], z3.Implies(z3.Or(p0 != trap_ix[0], p1 != trap_ix[1]), to_real(N(ex, fr).elem((p0, p1))) == fn(p0, p1))), {"replay": CDM_REPLAY})
        st.oblige("cdm.local_step[pixel + trap content does not grow]", a_new + n_new <= a_old + n_old, {"replay": CDM_REPLAY})
        st.oblige("cdm.local_step[pixel is zero or at least 0.01]", z3.Or(a_new == 0, a_new >= z3.RealVal("0.01")), {"replay": CDM_REPLAY})
        st.ghost["PHI"] = st.ghost["PHI"] - a_old - n_old + a_new + n_new
    # The same invariant serves every loop of the nest, whatever the nesting ORDER of rows / columns / trap species is in this
    # version of the kernel: the nest is discovered from the source, the innermost loop carries the local-step obligations.
    nest = loop_nest(fnode)
    if len(nest) != 3:
        raise Unsupported(f"CDM kernel: expected a nest of three for-loops, found {len(nest)}")
    specs = {}
    for ordinal, loop in enumerate(nest):
        innermost = ordinal == len(nest) - 1
        specs[(qual, ordinal)] = LoopSpec(None, inv, havoc=hav_inner if innermost else hav, modifies=mods, after_body=after_inner if innermost else None,
                                          name="cdm.inner" if innermost else f"cdm.loop{ordinal}")
    return specs


def cdm_unit(fname, trap_name, row_var, col_var, trap_var, extra_kw):
    def un(u: Unit):
        fi = u.fn(f"{CDMQ}::{fname}")
        cfg = Cfg("real")
        try:
            cfg.loops.update(cdm_specs(fi.qualname, "array", trap_name, fi.node, row_var, col_var, trap_var))
        except Unsupported as e:
            u.undecide(f"cdm.contract_applicable[{fname}]", fi.qualname, str(e))
            return
        u.internal_replay, u.internal_witness = CDM_REPLAY, {}
        x, y, q = z3.Real("x"), z3.Real("y"), z3.Int("q")
        fa0 = z3.Function("cdm_in", z3.IntSort(), z3.IntSort(), z3.RealSort())

        def setup(ex):
            st = ex.st
            p0, p1 = z3.Ints("p_r p_c")
            st.assume(z3.And(YD >= 1, XD >= 1, KD >= 1, BETA >= 0, BETA <= 1, VG > 0, TT >= 0, FWC > 0, VTH >= 0, z3.Int("n_transfers") >= 0))
            st.assume(z3.ForAll([q], z3.And(TR(q) > 0, NT_(q) >= 0, SG(q) >= 0)))
            st.assume(z3.ForAll([p0, p1], fa0(p0, p1) >= 0))
            st.assume(z3.ForAll([x], z3.Implies(x <= 0, z3.And(uexp(x) > 0, uexp(x) <= 1))))     # exp on non-positive arguments
            st.assume(upow(FWC, BETA) > 0)
            st.ghost["PHI"] = PHI0
            arr = st.alloc(HArr((YD, XD), VDtype("float64"), lambda ix: VFloat(fa0(z_int(ix[0]), z_int(ix[1])))))
            vec = lambda f: st.alloc(HArr((KD,), VDtype("float64"), lambda ix, f=f: VFloat(f(z_int(ix[0])))))
            kw = {"array": arr, "beta": VFloat(BETA), "vg": VFloat(VG), "t": VFloat(TT), "fwc": VFloat(FWC), "vth": VFloat(VTH), "tr": vec(TR), "nt": vec(NT_), "sigma": vec(SG)}
            kw.update(extra_kw(ex))
            return [], kw
        ps = u.paths(fi, setup, cfg, max_paths=800, label=fname)
        for p in ps:
            if p.kind != "return" or not p.ex.is_arr(p.value):
                u.oblige(p, f"cdm.no_raise[{fname}]", False, {"exc": p.exc_name()}, CDM_REPLAY)
                continue
            out = p.st.cell(p.value)
            p0, p1 = z3.Ints("p_r p_c")
            u.oblige(p, f"cdm.nonneg[{fname}]", z3.ForAll([p0, p1], z3.Implies(z3.And(p0 >= 0, p0 < YD, p1 >= 0, p1 < XD), to_real(out.elem((p0, p1))) >= 0)), {}, CDM_REPLAY)
            u.oblige(p, f"cdm.no_creation[{fname}]", p.st.ghost["PHI"] <= PHI0, {}, CDM_REPLAY)
        u.cover(f"cdm.cover[{fname}]", ps, lambda p: p.kind == "return")
    return un


unit("C15", "cdm.parallel")(cdm_unit("run_cdm_parallel", "no", "i", "j", "k",
                                      lambda ex: {"charge_injection": VBool(z3.Bool("charge_injection")), "chg_inj_parallel_transfers": VInt(z3.Int("n_transfers"))}))
unit("C15", "cdm.serial")(cdm_unit("run_cdm_serial", "sno", "i", "j", "k", lambda ex: {}))


from . import C15w  # noqa: E402,F401  (the model functions around the kernels)

# the conversion of array charge into clusters (what makes `simple_collection` add exactly the generated charge when array models and cluster
# models are mixed) and the binning back are C14's units; they count for C15 too
from . import C14 as _C14  # noqa: E402
unit("C15", "charge.array_to_df")(_C14.array_to_df)
unit("C15", "charge.mixed_routing")(_C14.mixed_routing)


def _charge_reset(u: Unit):
    """C14's unit `empty` (imported late): the charge container is back at zero at the start of every readout step -- array AND cluster
    table, whatever was read from it before -- so that what simple_collection adds to the pixels is exactly the charge generated in THIS step."""
    from . import C14 as _C14
    return _C14.empty(u)


unit("C15", "charge.reset")(_charge_reset)
