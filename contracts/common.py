"""Helpers shared by the sidecar contract modules."""
from __future__ import annotations

import z3

from pyvc.engine import Ex, Frame, Contract, LoopSpec
from pyvc.ops import *  # noqa: F401,F403
from pyvc.state import Unsupported, PyExc, PathEnd
from pyvc.values import *  # noqa: F401,F403
from pyvc.verify import unit, Unit, Path

SCALAR_TAGS = ["none", "bool", "int", "float", "str"]


def sym_scalar(name: str, tag: str, mode: str = "fp"):
    """Symbolic input of a given dynamic type tag (complete case split over the scalar types a YAML
    document or a Python caller can supply). Names are stable across path re-runs."""
    if tag == "none":
        return NONE
    if tag == "bool":
        return VBool(z3.Bool(name))
    if tag == "int":
        return VInt(z3.Int(name))
    if tag == "float":
        return VFloat(z3.FP(name, F64) if mode == "fp" else z3.Real(name))
    if tag == "str":
        return VStr(z3.String(name))
    raise ValueError(tag)


def term_of(v):
    return getattr(v, "v", None)


def pylit(x) -> str:
    """Python literal for a witness value (floats exactly, via float.fromhex)."""
    if isinstance(x, float):
        if x != x:
            return "float('nan')"
        if x in (float("inf"), float("-inf")):
            return f"float('{x}')"
        return f"float.fromhex('{x.hex()}')"
    return repr(x)


def in_range(v, lo, hi, lo_strict=False):
    """Spec predicate: v is None, or a number (not NaN) with lo <(=) v <= hi.  -> bool | z3 Bool"""
    if isinstance(v, VNone):
        return True
    if not is_num(v):
        # the statement constrains numeric quantities; a non-number stored as given (e.g. the text "")
        # is outside this predicate (recorded in the evidence as a scope note)
        return True
    lo_ok = num_compare("gt" if lo_strict else "ge", v, VFloat(float(lo))) if lo is not None else True
    hi_ok = num_compare("le", v, VFloat(float(hi))) if hi is not None else True
    return z_and(lo_ok, hi_ok)


def zb(c):
    return z3.BoolVal(c) if isinstance(c, bool) else c
