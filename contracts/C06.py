"""C06 — parameter runs are isolated from each other and from the caller's objects.

  separate(new, old) : no MUTABLE object reachable from `new` is reachable from `old` (heap reachability over the
                       concrete-structure object graph; immutable scalars/strings/tuples of scalars may be shared)
  unchanged(reach(old)) : every location reachable from the caller's processor has the same content after the call
  Processor.__deepcopy__ / ModelGroup.__deepcopy__ / create_new_processor / Processor.replace / update_processor /
  build_processors : result separate from the argument, argument unchanged, only the addressed settings differ
  run.frame        : the sequential run, the dask task function and the calibration fitness hand the COPY (never the
                     caller's processor) to exposure.run_pipeline, and every copy is taken from the caller's processor
The processor is built from the real classes (detector with array buckets, trapped-charge memory, pipeline with models
holding argument dictionaries).
"""
from __future__ import annotations

import ast

from .common import *  # noqa: F401,F403
from . import C08, boundary
from .trace import MF, MG, PL, PR
from pyvc import lib as L

MISC = "pyxel/observation/misc.py"
FD = "pyxel/calibration/fitting_datatree.py"
OD = "pyxel/observation/observation_dask.py"
OBS = "pyxel/observation/observation.py"
BOUNDED = {
    r'.*': 'processors with ten groups of one model (two models and a namesake in two of them), two requested settings; symbolic contents',
}      # unit-name / obligation-name patterns -> the family these obligations are proved for
TRUSTED = ["copy.deepcopy of objects without __deepcopy__ (Detector, DetectionPipeline, ModelFunction, Arguments, containers, arrays) yields a graph sharing no mutable "
           "object with the original", "'equals a standalone exposure' then follows from determinism given the seed (C04) — not proved here",
           "scenario: one populated group with two models; buckets and detector memory hold arrays"]


def mk_rich_processor(ex, u):
    """C08's scenario processor plus mutable detector state (bucket arrays, memory dict, persistence array)."""
    proc = C08.mk_processor(ex, u)
    st = ex.st
    det = st.cell(ex.scn["det"])
    f = z3.Function("pix", z3.IntSort(), z3.IntSort(), z3.RealSort())
    arr = lambda nm: st.alloc(HArr((z3.IntVal(10), z3.IntVal(12)), VDtype("float64"), lambda ix, nm=nm: VFloat(z3.Function(nm, z3.IntSort(), z3.IntSort(), z3.RealSort())(z_int(ix[0]), z_int(ix[1])))))
    pix = st.alloc(HObj(u.cls("pyxel/data_structure/pixel.py::Pixel"), {"_array": arr("pixel_content"), "_shape": VTuple([VInt(10), VInt(12)]), "_numbytes": VInt(0)}))
    pers = st.alloc(HObj("builtins.object", {"_trapped_charge_array": arr("trapped")})) if False else st.alloc(HDict([(VStr("trapped_charge"), arr("trapped"))]))
    det.fields.update({"_pixel": pix, "_memory": pers})
    # the detector already carries trapped charge from an earlier exposure (a real SimplePersistence object: two trap species)
    spc, stc = u.cls("pyxel/data_structure/persistence.py::SimplePersistence"), u.cls("pyxel/data_structure/persistence.py::SimpleTrap")
    a1 = lambda nm: st.alloc(HArr((z3.IntVal(2),), VDtype("float64"), lambda ix, nm=nm: VFloat(z3.Function(nm, z3.IntSort(), z3.RealSort())(z_int(ix[0])))))
    a3 = st.alloc(HArr((z3.IntVal(2), z3.IntVal(10), z3.IntVal(12)), VDtype("float64"),
                       lambda ix: VFloat(z3.Function("trapped_charge_3d", z3.IntSort(), z3.IntSort(), z3.IntSort(), z3.RealSort())(z_int(ix[0]), z_int(ix[1]), z_int(ix[2])))))
    traps = [st.alloc(HObj(stc, {"time_constant": VFloat(z3.Real(f"trap{k}_tau")), "density": VFloat(z3.Real(f"trap{k}_density")), "charge": st.alloc(HArr((z3.IntVal(10), z3.IntVal(12)), VDtype("float64"),
                       lambda ix, k=k: VFloat(z3.Function("trapped_charge_3d", z3.IntSort(), z3.IntSort(), z3.IntSort(), z3.RealSort())(z3.IntVal(k), z_int(ix[0]), z_int(ix[1])))))}))
             for k in range(2)]      # class invariant after the setter: trap k holds plane k of the 3-D array
    det.fields["_persistence"] = st.alloc(HObj(spc, {"_trap_list": st.alloc(HList(traps)), "_trapped_charge_array": a3, "_trap_time_constants": a1("trap_taus"), "_trap_densities": a1("trap_densities")}))
    # mutable argument VALUES (a list, a nested dictionary): a copy that shares them lets one run's model or a
    # nested parameter key write into another run's (or the caller's) configuration
    for i, m in enumerate(ex.scn["models"]):
        args_obj = st.cell(m).fields["_arguments"]
        d = st.cell(st.cell(args_obj).fields["_arguments"])
        k0, k1 = d.items[0][0], d.items[1][0]
        mutable = (st.alloc(HList([VInt(z3.Int(f"m{i}_l0")), VInt(z3.Int(f"m{i}_l1"))])) if i == 0 else
                   st.alloc(HDict([(VStr("offset"), VFloat(z3.Real(f"m{i}_offset")))])))
        d.items = [(k0, d.items[0][1]), (k1, mutable)]
    # the running-mode object hanging on the processor (with the user's Readout) is part of what must not be shared
    oci, rci = u.cls(f"{OBS}::Observation"), u.cls("pyxel/exposure/readout.py::Readout")
    times = st.alloc(HArr((z3.Int("n_readout_times"),), VDtype("float64"), lambda ix: VFloat(z3.Function("user_times", z3.IntSort(), z3.RealSort())(z_int(ix[0])))))
    ro = st.alloc(HObj(rci, {"_times": times, "_start_time": VFloat(0.0), "_non_destructive": VBool(False), "_time_domain_simulation": VBool(True)}))
    st.cell(proc).fields["observation"] = st.alloc(HObj(oci, {"readout": ro, "outputs": NONE, "_pipeline_seed": NONE, "with_dask": VBool(False)}))
    # every OTHER model group of the pipeline is populated too (one model each): a copy must carry all ten groups
    pipe = st.cell(ex.scn["pipe"])
    pci = pipe.cls
    mgc, mfc = u.cls(f"{MG}::ModelGroup"), u.cls(f"{MF}::ModelFunction")
    groups = [x.value for x in ast.walk(pci.classvars["MODEL_GROUPS"]) if isinstance(x, ast.Constant) and isinstance(x.value, str)]
    for g in groups:
        if isinstance(pipe.fields.get("_" + g), VNone) or pipe.fields.get("_" + g) is None:
            dd = st.alloc(HDict([(VStr("level"), VInt(z3.Int(f"{g}_level")))]))
            mf = ex.instantiate(mfc, [], {"func": VStr(f"pkg.mod.{g}_fn"), "name": VStr(f"{g}_model"), "arguments": dd, "enabled": VBool(z3.Bool(f"{g}_enabled"))}, Frame(None, mfc.module))
            pipe.fields["_" + g] = ex.instantiate(mgc, [], {"models": st.alloc(HList([mf])), "name": VStr(g)}, Frame(None, mgc.module))
    return proc


def _same_elements(st, ca, cb) -> bool:
    """element at a generic in-range index: syntactically equal, or equal in every model of the path condition (z3, 2 s)"""
    ix = tuple(z3.Int(f"iso{i}") for i in range(len(ca.shape)))
    ea, eb = ca.elem(ix), cb.elem(ix)
    if str(ea) == str(eb):
        return True
    if not (hasattr(ea, "v") and hasattr(eb, "v")) or type(ea) is not type(eb):
        return False
    from pyvc.ops import to_real
    try:
        ta, tb = (to_real(ea), to_real(eb)) if isinstance(ea, (VFloat, VInt)) else (z_bool(ea.v), z_bool(eb.v))
    except Exception:
        return False
    s = z3.Solver()
    s.set("timeout", 2000)
    s.add(*[c for c in st.pc if isinstance(c, z3.ExprRef)])
    s.push()
    s.add(z3.Or(*[z_int(d1) != z_int(d2) for d1, d2 in zip(ca.shape, cb.shape)]))
    if s.check() != z3.unsat:
        return False                      # the two shapes are not provably the same
    s.pop()
    for i, d1 in zip(ix, ca.shape):
        s.add(i >= 0, i < z_int(d1))
    s.add(ta != tb)
    return s.check() == z3.unsat


def iso(st, a, b, allow=lambda cls, key: False, seen=None, path="", diffs=None):
    """Structural equality of the object graphs rooted at a and b (same classes, same field / key sets, equal scalars,
    element-wise lists and dicts); differences are collected as paths. `allow(class name, field or key)` exempts settings
    that the operation is meant to change."""
    seen = {} if seen is None else seen
    diffs = [] if diffs is None else diffs
    if isinstance(a, VMaybe) or isinstance(b, VMaybe):
        if not (isinstance(a, VMaybe) and isinstance(b, VMaybe) and z3.eq(z_bool(a.present), z_bool(b.present))):
            diffs.append(path + ": optional presence differs")
            return diffs
        return iso(st, a.val, b.val, allow, seen, path, diffs)
    if isinstance(a, VRef) and isinstance(b, VRef):
        if a.addr in seen:
            if seen[a.addr] != b.addr:
                diffs.append(path + ": sharing structure differs")
            return diffs
        seen[a.addr] = b.addr
        ca, cb = st.heap[a.addr], st.heap[b.addr]
        if type(ca) is not type(cb):
            diffs.append(f"{path}: {type(ca).__name__} vs {type(cb).__name__}")
        elif isinstance(ca, HObj):
            na, nb = getattr(ca.cls, "name", ca.cls), getattr(cb.cls, "name", cb.cls)
            if na != nb:
                diffs.append(f"{path}: class {na} vs {nb}")
            for k in sorted(set(ca.fields) | set(cb.fields)):
                if allow(na, k):
                    continue
                if k not in ca.fields or k not in cb.fields:
                    diffs.append(f"{path}.{k}: present in one only")
                elif ca.fields[k] is not None and cb.fields[k] is not None:
                    iso(st, ca.fields[k], cb.fields[k], allow, seen, f"{path}.{k}", diffs)
        elif isinstance(ca, HList):
            if len(ca.items) != len(cb.items):
                diffs.append(f"{path}: list length {len(ca.items)} vs {len(cb.items)}")
            for i, (x, y) in enumerate(zip(ca.items, cb.items)):
                iso(st, x, y, allow, seen, f"{path}[{i}]", diffs)
        elif isinstance(ca, HDict):
            if len(ca.items) != len(cb.items):
                diffs.append(f"{path}: dict size {len(ca.items)} vs {len(cb.items)}")
            for (k1, v1), (k2, v2) in zip(ca.items, cb.items):
                iso(st, k1, k2, allow, seen, f"{path}<key>", diffs)
                if not allow("dict", str(getattr(k1, "v", k1))):
                    iso(st, v1, v2, allow, seen, f"{path}[{getattr(k1, 'v', k1)}]", diffs)
        elif isinstance(ca, HArr):
            if len(ca.shape) != len(cb.shape) or (ca._elem is not cb._elem and not _same_elements(st, ca, cb)):
                diffs.append(f"{path}: array content differs")
        return diffs
    if type(a) is not type(b):
        diffs.append(f"{path}: {type(a).__name__} vs {type(b).__name__}")
    elif isinstance(a, VTuple):
        if len(a.items) != len(b.items):
            diffs.append(f"{path}: tuple length")
        for i, (x, y) in enumerate(zip(a.items, b.items)):
            iso(st, x, y, allow, seen, f"{path}({i})", diffs)
    elif hasattr(a, "v"):
        same = (a.v is b.v) or (is_conc(a.v) and is_conc(b.v) and a.v == b.v) or (not is_conc(a.v) and not is_conc(b.v) and z3.eq(a.v, b.v))
        if not same:
            diffs.append(f"{path}: value {a.v} vs {b.v}")
    return diffs


def reach(st, roots, mutable_only=True):
    """Addresses of heap cells reachable from the given values."""
    seen, stack = set(), list(roots)
    while stack:
        v = stack.pop()
        if isinstance(v, VMaybe):
            stack.append(v.val)
            continue
        if isinstance(v, VTuple):
            stack.extend(v.items)
            continue
        if not isinstance(v, VRef) or v.addr in seen:
            continue
        seen.add(v.addr)
        c = st.heap[v.addr]
        if isinstance(c, HObj):
            stack.extend(x for x in c.fields.values() if x is not None)
        elif isinstance(c, HList):
            stack.extend(c.items)
        elif isinstance(c, HDict):
            for k, x in c.items:
                stack.extend([k, x])
    return seen


ISO_REPLAY = lambda w: {"code": """
import copy, numpy as np, verif_probes as VP
from pyxel.pipelines import DetectionPipeline, ModelFunction, Processor
from pyxel.observation.misc import create_new_processor
det = VP.detector(quantum_efficiency=0.5)
det.pixel.array = np.full((3, 4), 7.0); det._memory['trapped'] = np.ones(3)
from pyxel.data_structure import SimplePersistence
det.persistence = SimplePersistence(trap_time_constants=[1.0, 10.0], trap_densities=[0.1, 0.2], geometry=(3, 4))
det.persistence.trapped_charge_array = np.full((2, 3, 4), 4.0)        # trapped charge left by an earlier exposure
args = {'level': 1, 'table': [1, 2, 3]}
groups = ['scene_generation', 'phasing', 'charge_generation', 'charge_collection', 'charge_transfer', 'charge_measurement', 'signal_transfer', 'readout_electronics', 'data_processing']
pipe = DetectionPipeline(photon_collection=[ModelFunction(func='verif_probes.probe', name='m', arguments=args)],
                         **{g: [ModelFunction(func='verif_probes.probe', name=g + '_m', arguments={'level': i}, enabled=bool(i % 2))] for i, g in enumerate(groups)})
from pyxel.observation import Observation, ParameterValues
from pyxel.exposure import Readout
user_readout = Readout(times=[1.0])
obs = Observation(parameters=[ParameterValues(key='observation.readout.times', values=[[2.0], [3.0]])], readout=user_readout)
proc = Processor(detector=det, pipeline=pipe, observation_mode=obs)
def layout(p):
    return [(g, [(m.name, m.enabled, dict(m.arguments)) for m in getattr(p.pipeline, g).models] if getattr(p.pipeline, g) is not None else None) for g in ['photon_collection'] + groups]
VIOLATED, DETAIL = False, ''
for make in (lambda: create_new_processor(processor=proc, parameter_dict={'detector.characteristics.quantum_efficiency': 0.25}),
             lambda: proc.replace({'pipeline.photon_collection.m.arguments.level': 5}), lambda: copy.deepcopy(proc),
             lambda: proc.replace({'detector.characteristics.quantum_efficiency': 0.5}),          # values the processor already holds
             lambda: create_new_processor(processor=proc, parameter_dict={'detector.characteristics.quantum_efficiency': 0.5}),
             lambda: create_new_processor(processor=proc, parameter_dict={}), lambda: proc.replace({}),      # nothing to set: still a copy
             # the requested value IS an object of the caller's pipeline (sequential mode re-applies defaults read from the caller's processor)
             lambda: create_new_processor(processor=proc, parameter_dict={'pipeline.photon_collection.m.arguments.table': proc.pipeline.photon_collection.models[0].arguments['table']}),
             lambda: proc.replace({'pipeline.photon_collection.m.arguments.table': proc.pipeline.photon_collection.models[0].arguments['table']})):
    new = make()
    if new is proc or new.detector is proc.detector or new.pipeline is proc.pipeline:
        VIOLATED, DETAIL = True, 'the processor handed to a run IS the one of the caller (no copy made when the requested values equal the current ones)'
        break
    if new.observation is not None and (new.observation is proc.observation or new.observation.readout is user_readout):
        VIOLATED, DETAIL = True, 'the copy shares the running-mode object of the caller / the Readout of the user'
        break
    want = layout(proc)
    if make.__code__.co_consts and 'pipeline.photon_collection.m.arguments.level' in str(make.__code__.co_consts):
        want[0] = ('photon_collection', [('m', True, {'level': 5, 'table': [1, 2, 3]})])
    if layout(new) != want:
        missing = [g for (g, a), (_, b) in zip(want, layout(new)) if a != b]
        VIOLATED, DETAIL = True, 'the copy made for a run does not carry the same pipeline: groups that differ: ' + repr(missing)
        break
    new.detector.pixel.array[0, 0] = -1.0; new.detector._memory['trapped'][0] = -1.0
    if not np.array_equal(new.detector.persistence.trapped_charge_array, np.full((2, 3, 4), 4.0)):
        VIOLATED, DETAIL = True, 'the copy does not carry the trapped charge of the detector'
        break
    new.detector.persistence.trapped_charge_array[...] = -3.0
    for t in new.detector.persistence.trap_list: t.charge[...] = -3.0
    if (det.persistence.trapped_charge_array != 4.0).any() or any((t.charge != 4.0).any() for t in det.persistence.trap_list):
        VIOLATED, DETAIL = True, "writing trapped charge on the new processor's detector changed the trapped charge of the caller's detector (persistence memory shared)"
        break
    new.pipeline.photon_collection.models[0].arguments['table'].append(99); new.pipeline.photon_collection.models[0].enabled = False
    new.detector.characteristics.quantum_efficiency = 0.9
    before = copy.deepcopy(layout(proc))
    for g in ['photon_collection'] + groups:          # every model of the copy, enabled or not
        for m in getattr(new.pipeline, g).models:
            m.arguments['level'] = -5; m.enabled = not m.enabled
    if layout(proc) != before:
        VIOLATED, DETAIL = True, "changing models of the new processor changed the caller's pipeline: " + repr([a for a, b in zip(layout(proc), before) if a != b][:2])
        break
    if (det.pixel.array[0, 0] != 7.0 or det._memory['trapped'][0] != 1.0 or proc.pipeline.photon_collection.models[0].arguments['table'] != [1, 2, 3]
            or not proc.pipeline.photon_collection.models[0].enabled or det.characteristics.quantum_efficiency != 0.5):
        VIOLATED, DETAIL = True, "mutating the new processor changed the caller's: pixel[0,0]=%r memory=%r table=%r qe=%r" % (
            det.pixel.array[0, 0], det._memory['trapped'][0], proc.pipeline.photon_collection.models[0].arguments['table'], det.characteristics.quantum_efficiency)
        break
if not VIOLATED:
    # the requested values are SET on the copy whatever they are (0.0, 0, False included)
    for key, val, get in (('detector.characteristics.quantum_efficiency', 0.0, lambda p: p.detector.characteristics.quantum_efficiency),
                          ('pipeline.photon_collection.m.arguments.level', 0, lambda p: p.pipeline.photon_collection.m.arguments['level']),
                          ('pipeline.photon_collection.m.enabled', False, lambda p: p.pipeline.photon_collection.m.enabled)):
        for make in (lambda: create_new_processor(processor=proc, parameter_dict={key: val}), lambda: proc.replace({key: val})):
            got = get(make())
            if got != val or type(got) is not type(val):
                VIOLATED, DETAIL = True, f'requested {key} = {val!r}: the new processor holds {got!r}'; break
        if VIOLATED: break
""", "expect": "a processor made for a run shares no mutable state with the caller's processor and holds the requested values"}


RUNS_REPLAY = lambda w: {"code": """
import verif_probes as VP
from pyxel.pipelines import DetectionPipeline, ModelFunction, Processor
from pyxel.observation import Observation, ParameterValues
from pyxel.exposure import Readout
VIOLATED, DETAIL = False, 'every run starts from the detector memory of the caller and leaves it alone'
for dask in (False, True):
    VP.LOG.clear()
    det = VP.detector()
    pipe = DetectionPipeline(photon_collection=[ModelFunction(func='verif_probes.remember', name='r', arguments={'level': 0})])
    obs = Observation(parameters=[ParameterValues(key='pipeline.photon_collection.r.arguments.level', values=[5, 6, 7])], readout=Readout(times=[1.0]), with_dask=dask)
    res = obs.run_pipelines(Processor(detector=det, pipeline=pipe), with_inherited_coords=True)
    if dask and hasattr(res, 'compute'):
        import dask as _dask
        with _dask.config.set(scheduler='synchronous'):
            res = res.compute()
    seen = sorted((x['level'], x['seen_before']) for x in VP.LOG)
    # (the dask path may run one combination twice: a dry run that fixes the output layout)
    if any(s for _, s in seen) or sorted(set(l for l, _ in seen)) != [5, 6, 7] or det._memory.get('seen') or any(x['detector'] is det for x in VP.LOG):
        VIOLATED, DETAIL = True, f'with_dask={dask}: (level, memory found at the start of the run) = {seen}; memory of the caller afterwards: {det._memory.get("seen")}'
        break
""", "expect": "a run neither sees what another run left in the detector memory nor writes the caller's detector"}


def check_copy(u, p, name, new, holder, expect_changed=0):
    st = p.st
    old_reach = reach(st, [holder["proc"]])
    new_reach = reach(st, [new]) if isinstance(new, VRef) else set()
    shared = sorted(a for a in (old_reach & new_reach) if not isinstance(st.heap[a], HObj) or not isinstance(st.heap[a].cls, str))
    u.oblige(p, f"{name}.separate", not shared and isinstance(new, VRef) and new.addr != holder["proc"].addr, {"shared_cells": str(shared)[:120]}, ISO_REPLAY)
    ch = C08.changed(p.ex, holder["snap"], holder["upto"])
    u.oblige(p, f"{name}.caller_unchanged", not ch, {"changed": str(ch)[:200]}, ISO_REPLAY)
    # structure preserved: same classes at corresponding places
    ok = isinstance(new, VRef) and getattr(st.heap[new.addr].cls, "name", "") == "Processor"
    diffs = []
    if ok:
        # the copy is structurally EQUAL to the original (every group, model, argument, bucket), except for the settings the
        # operation was asked to change
        diffs = iso(st, holder["proc"], new, allow=holder.get("allow", lambda cls, key: False))
    u.oblige(p, f"{name}.same_structure", bool(ok and not diffs), {"differences": str(diffs[:4])[:300]}, ISO_REPLAY)


def mk_cfg(u):
    return C08.mk_cfg(u)


@unit("C06", "deepcopy")
def deepcopy_unit(u: Unit):
    cfg = mk_cfg(u)
    fi = u.fn(f"{PR}::Processor.__deepcopy__")
    u.fn(f"{MG}::ModelGroup.__deepcopy__")
    holder = {}

    def setup(ex):
        proc = mk_rich_processor(ex, u)
        holder.update(proc=proc, upto=ex.st.next_addr, snap=C08.snapshot(ex))
        return [proc, ex.st.alloc(HDict([]))], {}
    ps = u.paths(fi, setup, cfg, label="Processor.__deepcopy__")
    for p in ps:
        if p.kind != "return":
            u.oblige(p, "deepcopy.processor.no_raise", False, {"exc": p.exc_name()}, ISO_REPLAY)
            continue
        check_copy(u, p, "deepcopy.processor", p.value, holder)
    u.cover("deepcopy.cover", ps, lambda p: p.kind == "return")
    # ModelGroup.__deepcopy__: the copy has separate, element-wise equal models
    fg = u.fn(f"{MG}::ModelGroup.__deepcopy__")
    h2 = {}

    def setup_g(ex):
        mk_rich_processor(ex, u)
        grp = ex.getattr(ex.scn["pipe"], C08.GROUP, Frame(None, None))
        h2.update(grp=grp, upto=ex.st.next_addr, snap=C08.snapshot(ex))
        return [grp, ex.st.alloc(HDict([]))], {}
    for p in u.paths(fg, setup_g, cfg, label="ModelGroup.__deepcopy__"):
        if p.kind != "return":
            u.oblige(p, "deepcopy.group.no_raise", False, {}, ISO_REPLAY)
            continue
        st = p.st
        old_r, new_r = reach(st, [h2["grp"]]), reach(st, [p.value])
        u.oblige(p, "deepcopy.group.separate", not (old_r & new_r), {"shared": str(sorted(old_r & new_r))}, ISO_REPLAY)
        nm, om = p.ex.try_list(st.cell(p.value).fields["models"]), p.ex.try_list(st.cell(h2["grp"]).fields["models"])
        same = nm is not None and len(nm) == len(om) and all(
            st.cell(a).fields["_name"].v is st.cell(b).fields["_name"].v and st.cell(a).fields["enabled"].v is st.cell(b).fields["enabled"].v
            and st.cell(a).fields["_func_name"].v == st.cell(b).fields["_func_name"].v for a, b in zip(nm, om))
        u.oblige(p, "deepcopy.group.elementwise_equal", bool(same and st.cell(p.value).fields["_name"].v == st.cell(h2["grp"]).fields["_name"].v), {}, ISO_REPLAY)
        u.oblige(p, "deepcopy.group.caller_unchanged", not C08.changed(p.ex, h2["snap"], h2["upto"]), {}, ISO_REPLAY)


QNEW = z3.Real("requested_quantum_efficiency")


def new_processor_unit(label, qual, call, request=("detector", "pipeline")):
    def un(u: Unit):
        cfg = mk_cfg(u)
        fi = u.fn(qual)
        u.fn(f"{PR}::Processor.set")
        holder = {}

        def setup(ex):
            proc = mk_rich_processor(ex, u)
            key = L.make_key([VStr("detector"), VStr("characteristics"), VStr("quantum_efficiency")])
            key2 = L.make_key([VStr("pipeline"), VStr(C08.GROUP), ex.scn["names"][0], VStr("arguments"), ex.scn["argn"][0]])
            # the requested values are arbitrary: they MAY coincide with the values the processor already holds
            ex.st.assume(z3.And(QNEW >= 0, QNEW <= 1))
            items = ([(key, VFloat(QNEW))] if "detector" in request else []) + ([(key2, VInt(z3.Int("swept_value")))] if "pipeline" in request else [])
            if "callers list" in request:
                # sequential mode re-applies the DEFAULT of every other swept key, read from the caller's processor: the requested value
                # IS an object of the caller's pipeline (here: the list-valued second argument of the first model)
                m0 = ex.st.cell(ex.scn["models"][0])
                args_d = ex.st.cell(ex.st.cell(m0.fields["_arguments"]).fields["_arguments"])
                own_list = args_d.items[1][1]
                key3 = L.make_key([VStr("pipeline"), VStr(C08.GROUP), ex.scn["names"][0], VStr("arguments"), ex.scn["argn"][1]])
                items.append((key3, own_list))
            d = ex.st.alloc(HDict(items))
            holder.update(proc=proc, upto=ex.st.next_addr + 1, snap=None)
            holder["snap"] = C08.snapshot(ex)
            swept_arg = str(ex.scn["argn"][0].v)
            holder["allow"] = lambda cls, key, swept_arg=swept_arg: (cls == "Characteristics" and key == "_quantum_efficiency") or (cls == "dict" and key == swept_arg)
            return call(proc, d)
        ps = u.paths(fi, setup, cfg, label=label)
        for p in ps:
            if p.kind != "return":
                u.oblige(p, f"{label}.no_raise", False, {"exc": p.exc_name()}, ISO_REPLAY)
                continue
            check_copy(u, p, label, p.value, holder)
            # the swept settings are set on the copy
            st = p.st
            try:
                ncht = st.cell(st.cell(st.cell(p.value).fields["detector"]).fields["_characteristics"]).fields["_quantum_efficiency"]
                ocht = st.cell(p.ex.scn["cht"]).fields["_quantum_efficiency"]
                ok = isinstance(ncht, VFloat) and isinstance(ocht, VFloat) and ocht.v == 0.5 and ((not is_conc(ncht.v) and z3.eq(ncht.v, QNEW)) if "detector" in request else ncht.v == 0.5)
            except Exception:
                ok = False
            u.oblige(p, f"{label}.sets_on_the_copy_only", bool(ok), {}, ISO_REPLAY)
        u.cover(f"{label}.cover", ps, lambda p: p.kind == "return")
    return un


unit("C06", "new_processor")(new_processor_unit("new_processor", f"{MISC}::create_new_processor", lambda proc, d: ([], {"processor": proc, "parameter_dict": d})))
unit("C06", "replace")(new_processor_unit("replace", f"{PR}::Processor.replace", lambda proc, d: ([proc, d], {})))
# the same for requests that touch only the detector, only the pipeline, or nothing (a copy is a copy whatever is asked of it)
for _req in (("detector",), ("pipeline",), (), ("callers list",)):
    _t = "+".join(_req) or "nothing"
    unit("C06", f"replace[{_t}]")(new_processor_unit(f"replace[{_t}]", f"{PR}::Processor.replace", lambda proc, d: ([proc, d], {}), request=_req))
    unit("C06", f"new_processor[{_t}]")(new_processor_unit(f"new_processor[{_t}]", f"{MISC}::create_new_processor", lambda proc, d: ([], {"processor": proc, "parameter_dict": d}), request=_req))


@unit("C06", "calib.per_candidate")
def calib_update(u: Unit):
    """update_processor copies first, then sets on the copy (param_processor_list[j] stays untouched)."""
    cfg = mk_cfg(u)
    fi = u.fn(f"{FD}::ModelFittingDataTree.update_processor")
    mci = u.cls(f"{FD}::ModelFittingDataTree")
    pci = u.cls("pyxel/observation/parameter_values.py::ParameterValues")
    holder = {}

    def setup(ex):
        proc = mk_rich_processor(ex, u)
        st = ex.st
        key = L.make_key([VStr("detector"), VStr("characteristics"), VStr("quantum_efficiency")])
        var = st.alloc(HObj(pci, {"_key": key, "_values": VStr("_"), "_logarithmic": VBool(False), "_enabled": VBool(True)}))
        me = st.alloc(HObj(mci, {"_variables": st.alloc(HList([var]))}))
        par = st.alloc(HArr((1,), VDtype("float64"), lambda ix: VFloat(0.25)))
        holder.update(proc=proc, upto=st.next_addr, snap=C08.snapshot(ex), allow=lambda cls, key: cls == "Characteristics" and key == "_quantum_efficiency")
        return [me], {"parameter": par, "processor": proc}
    ps = u.paths(fi, setup, cfg, label="update_processor")
    for p in ps:
        if p.kind != "return":
            u.oblige(p, "calib.per_candidate.no_raise", False, {"exc": p.exc_name()}, ISO_REPLAY)
            continue
        check_copy(u, p, "calib.per_candidate", p.value, holder)
    u.cover("calib.cover", ps, lambda p: p.kind == "return")


@unit("C06", "run.frame")
def run_frame(u: Unit):
    """Which processor reaches exposure.run_pipeline (data-flow obligations, by symbolic execution where the body is
    Python-only and by def-use resolution for the dask / calibration call sites)."""
    # sequential observation: symbolic execution with contracts that record their arguments
    fi = u.fn(f"{OBS}::Observation._run_single_pipeline")
    oci = u.cls(f"{OBS}::Observation")
    pci = u.cls(f"{MISC}::ParameterEntry")
    cfg = Cfg("real")
    boundary.install(cfg)
    rec = {}
    caller = VOpaque("xr", z3.Int("caller_processor"), {"label": "caller_processor", "truthy": True})

    def new_proc(ex, args, kwargs, fr):
        rec["copied_from"] = kwargs.get("processor")
        rec["params"] = kwargs.get("parameter_dict")
        rec["copy"] = VOpaque("xr", ex.st.fresh_int("copy"), {"label": "copy", "truthy": True})
        return rec["copy"]

    def run_pipe(ex, args, kwargs, fr):
        rec["ran"] = kwargs.get("processor")
        return VOpaque("xr", ex.st.fresh_int("tree"), {"label": "tree"})
    cfg.contracts[f"{MISC}::create_new_processor"] = Contract(f"{MISC}::create_new_processor", new_proc, "C06.new_processor")
    cfg.contracts["pyxel/exposure/exposure.py::run_pipeline"] = Contract("pyxel/exposure/exposure.py::run_pipeline", run_pipe, "exposure")
    for q in ("_add_product_parameters", "_add_custom_parameters"):
        cfg.contracts[f"{OBS}::{q}"] = Contract(f"{OBS}::{q}", lambda ex, args, kwargs, fr: VOpaque("xr", ex.st.fresh_int("t"), {"label": "final"}), "labels")
    params = {}

    def setup(ex):
        rec.clear()
        obs = ex.st.alloc(HObj(oci, {"readout": VOpaque("xr", None, {"label": "readout"}), "outputs": NONE, "_pipeline_seed": NONE}))
        params["d"] = ex.st.alloc(HDict([(VStr("k"), VInt(z3.Int("v")))]))
        item = ex.st.alloc(HObj(pci, {"index": VTuple([VInt(0)]), "parameters": params["d"], "run_index": VInt(0)}))
        return [obs], {"param_item": item, "dimension_names": ex.st.alloc(HDict([])), "processor": caller, "types": ex.st.alloc(HDict([])), "with_inherited_coords": VBool(True)}
    ps = u.paths(fi, setup, cfg, label="_run_single_pipeline")
    for p in ps:
        if p.kind != "return":
            continue
        ok = rec.get("copied_from") is caller and rec.get("ran") is rec.get("copy") and rec.get("ran") is not caller
        u.oblige(p, "run.frame[sequential observation]", bool(ok), {}, RUNS_REPLAY)
    u.cover("run.frame.cover", ps, lambda p: p.kind == "return")
    # dask task function and calibration: def-use resolution of the `processor=` argument of run_pipeline
    from .C20 import normalise_expr
    for qual, want in ((f"{OD}::_run_pipelines_array_to_datatree", ["processor.replace(dict(zip(dimension_names,params_tuple,strict=False)))"]),
                       (f"{FD}::ModelFittingDataTree._apply_parameters", ["self.update_processor(parameter=parameter,processor=processor)"])):
        fn = u.fn(qual)
        calls = [n for n in ast.walk(fn.node) if isinstance(n, ast.Call) and ast.unparse(n.func) == "run_pipeline"]
        got = [normalise_expr(fn.node, c.keywords, "processor") for c in calls]
        u.static(f"run.frame[{fn.name}]", len(calls) == 1 and got[0] in want, fn.qualname, f"run_pipeline(processor=...) receives {got}")


# the remaining call sites by symbolic execution of the real functions (shared with C05 / C11):
#   run_pipelines hands the CALLER's processor to every single run (copies are never chained)          -> C05.run_one_per_entry
#   fitness simulates update_processor(...)'s copy of processor k, never the list element itself        -> C11.fitness_sum
#   build_processors makes one deep copy per input-argument value and sets on the copy                   -> C11.build_processors_unit
from . import C05 as _C05, C11 as _C11  # noqa: E402


def _readout_replace(u):
    from . import C02
    return C02.readout_replace(u)


_readout_replace.__doc__ = """The per-run readout of a sweep over the readout times (Readout.replace, shared with C02): the run's readout differs from the user's
ONLY in what the run's parameters change -- start time and mode are the user's own."""
unit("C06", "readout.replace")(_readout_replace)
unit("C06", "runs_independent")(_C05.run_one_per_entry)
unit("C06", "calib.fitness")(_C11.fitness_sum)
unit("C06", "calib.build_processors")(_C11.build_processors_unit)



def _one_task_per_run(u):
    """C07.fileindex (imported late): on the parallel path every run is ITS OWN task (parameters and file indices chunked one cell per task), so
    a run that fails -- or is never computed -- has no effect on the result of another run."""
    from . import C07 as _C07t
    return _C07t.fileindex(u)


unit("C06", "parallel.one_task_per_run")(_one_task_per_run)
