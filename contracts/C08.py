"""C08 — a dotted parameter key addresses exactly one existing setting.

A processor is built from the REAL classes (Processor, DetectionPipeline with one populated group of two models built by
the real ModelFunction / Arguments constructors, a CCD with real Geometry / Environment / Characteristics objects).
Keys are structured symbolic strings c1.c2...cn: every component is either an existing name or a symbolic string
constrained to differ from every existing name at its level (misspelt / unknown), model and argument names are
symbolic. Spec `resolves(key)`: all components but the last denote existing attributes / models, the last an existing
attribute or argument.
  has.iff                 has(key) <=> resolves(key)
  set.existing_only       set(key, v) on a key that does not resolve raises and creates / changes nothing
  set.roundtrip_frame     resolves => get(key) == value afterwards and no other setting of the processor changed
  args.unknown_refused    Arguments.__setitem__ / __setattr__ raise for undeclared names and change nothing
  validate.before_runs    Observation.validate_steps raises KeyError for keys that do not resolve and ValueError for an
                          argument of a disabled model
  conv                    eval_entry: non-strings unchanged; literal text -> the value it denotes; other text -> itself
  entrypoints             every caller of Processor.set passes through it (no bypass by setattr on the processor)
"""
from __future__ import annotations

import ast
import re

from .common import *  # noqa: F401,F403
from . import defuse as DU
from .trace import CANON, MF, MG, PL, PR
from pyvc import lib as L

EV = "pyxel/evaluator.py"
OBS = "pyxel/observation/observation.py"
BOUNDED = {
    r'^(has|get|set|validate|sweep|args)': 'a pipeline with two models of two arguments in one group plus a namesake model in another group; symbolic names and values',
    r'conv\.concrete_text': '17 concrete texts',
}      # unit-name / obligation-name patterns -> the family these obligations are proved for
TRUSTED = ["ast.literal_eval(s) = denotes(s) when s is a Python literal, raises otherwise; literal_eval('\"' + s + '\"') == s for text without quotes/backslashes",
           "operator.attrgetter(key) = chained getattr", "components of a key contain no dot; the scenario processor has one populated group with two models and two arguments each",
           "values assigned through keys are in the range of the addressed setter (range refusal is C12)"]
GROUP = "photon_collection"


# ---- reflective access with symbolic names -----------------------------------------------------------------
def attr_names(ex, obj):
    """Names that normal attribute lookup finds on a concrete object (instance fields + class namespace)."""
    cell = ex.st.cell(obj)
    names = list(cell.fields)
    if not isinstance(cell.cls, str):
        for c in ex.world.mro(cell.cls):
            for d in (c.getters, c.methods, c.classvars):
                for n in d:
                    if n not in names:
                        names.append(n)
    return names


def hasattr_sym(ex, obj, name, fr):
    if isinstance(obj, VNone):
        return VBool(False)
    if isinstance(obj, VRef) and isinstance(ex.st.cell(obj), HDict):
        # a plain dict: its attributes are the names of type dict (keys are NOT attributes)
        return VBool(z3.Or(*[z_str(name.v) == a for a in DICT_ATTRS]))
    if not (isinstance(obj, VRef) and isinstance(ex.st.cell(obj), HObj)):
        raise Unsupported("hasattr(<non-object>, <symbolic name>)")
    for a in attr_names(ex, obj):
        if ex.st.branch(z_str(name.v) == a):
            return L.HANDLERS["builtins.hasattr"](ex, [obj, VStr(a)], {}, fr)
    ga = ex.find_method(ex.st.cell(obj).cls, "__getattr__")
    if ga is None:
        return VBool(False)
    try:
        ex.call(VFunc(ga, obj), [name], {}, fr)
        return VBool(True)
    except PyExc as pe:
        if ex.st.branch(ex.exc_matches(pe.val, VLib("builtins.AttributeError"))):
            return VBool(False)
        raise


def getattr_sym(ex, obj, name, rest, fr):
    if isinstance(obj, VRef) and isinstance(ex.st.cell(obj), HObj):
        for a in attr_names(ex, obj):
            if ex.st.branch(z_str(name.v) == a):
                return ex.getattr(obj, a, fr)
        ga = ex.find_method(ex.st.cell(obj).cls, "__getattr__")
        if ga is not None:
            return ex.call(VFunc(ga, obj), [name], {}, fr)
    if rest:
        return rest[0]
    ex.throw("AttributeError", "no such attribute")


def setattr_sym(ex, obj, name, val, fr):
    if isinstance(obj, VNone):
        ex.throw("AttributeError", "'NoneType' object has no attribute")
    cell = ex.st.cell(obj)
    for a in attr_names(ex, obj):
        if ex.st.branch(z_str(name.v) == a):
            return ex.setattr(obj, a, val, fr)
    sa = ex.find_method(cell.cls, "__setattr__")
    if sa is not None:
        return ex.call(VFunc(sa, obj), [name, val], {}, fr)
    # plain Python object: a NEW attribute is created
    ex.st.ghost.setdefault("NEW_ATTRS", []).append((obj.addr, name))
    cell.fields[("dyn", str(name.v))] = val
    return NONE


def attrgetter_sym(ex, key, obj, fr):
    parts = getattr(key, "parts", None)
    if parts is None:
        raise Unsupported("attrgetter with an unstructured symbolic key")
    for p in parts:
        obj = ex.getattr(obj, p.v, fr) if is_conc(p.v) else getattr_sym(ex, obj, p, [], fr)
    return obj


denotes_int = z3.Function("denotes_int", z3.StringSort(), z3.IntSort())
parses = z3.Function("parses_as_int_literal", z3.StringSort(), z3.BoolSort())


def literal_eval(ex, f, args, kwargs, fr):
    """Boundary contract of ast.literal_eval on text: a literal denotes a value (here: an integer literal), anything
    else raises ValueError; a double-quoted text without quotes denotes the text itself."""
    s = args[0]
    if not isinstance(s, VStr):
        ex.throw("ValueError", "malformed node or string")
    if not is_conc(s.v):
        flat = []

        def walk(t):
            if z3.is_app(t) and t.decl().kind() == z3.Z3_OP_SEQ_CONCAT:
                for c in t.children():
                    walk(c)
            else:
                flat.append(t)
        walk(s.v)
        if len(flat) == 3 and all(z3.is_string_value(flat[i]) and flat[i].as_string() == '"' for i in (0, 2)):
            return VStr(flat[1])        # a double-quoted text (without quotes / backslashes) denotes the text itself
    if is_conc(s.v):
        import ast as _ast
        try:
            v = _ast.literal_eval(s.v)
        except Exception:
            ex.throw("ValueError", "malformed node or string")
        def val(x):
            if isinstance(x, bool):
                return VBool(x)
            if isinstance(x, int):
                return VInt(x)
            if isinstance(x, float):
                return VFloat(x)
            if isinstance(x, str):
                return VStr(x)
            if x is None:
                return NONE
            if isinstance(x, tuple):
                return VTuple([val(y) for y in x])
            if isinstance(x, list):
                return ex.st.alloc(HList([val(y) for y in x]))
            if isinstance(x, dict):
                return ex.st.alloc(HDict([(val(k), val(y)) for k, y in x.items()]))
            raise Unsupported(f"literal of type {type(x).__name__}")
        return val(v)
    if ex.st.branch(parses(s.v)):
        return VInt(denotes_int(s.v))
    ex.throw("ValueError", "malformed node or string")


def mk_cfg(u):
    cfg = Cfg("real")
    cfg.lib_overrides[("hasattr_sym",)] = hasattr_sym
    cfg.lib_overrides[("getattr_sym",)] = getattr_sym
    cfg.lib_overrides[("setattr_sym",)] = setattr_sym
    cfg.lib_overrides[("attrgetter_sym",)] = attrgetter_sym
    cfg.lib_overrides["ast.literal_eval"] = literal_eval
    return cfg


# ---- the scenario processor ------------------------------------------------------------------------------------
def mk_processor(ex, u, enabled=None, decoy=True, nested=False):
    w, st = u.world, ex.st
    fr = Frame(None, None)

    def inst(q, **kw):
        ci = w.cls(q)
        return ex.instantiate(ci, [], kw, Frame(None, ci.module))
    geo = inst("pyxel/detectors/geometry.py::Geometry", row=VInt(10), col=VInt(12), total_thickness=VFloat(10.0), pixel_vert_size=VFloat(5.0),
               pixel_horz_size=VFloat(6.0), pixel_scale=VFloat(1.5))
    env = inst("pyxel/detectors/environment.py::Environment", temperature=VFloat(100.0))
    cht = inst("pyxel/detectors/characteristics.py::Characteristics", quantum_efficiency=VFloat(0.5), charge_to_volt_conversion=VFloat(1.0),
               pre_amplification=VFloat(2.0), full_well_capacity=VFloat(1000.0), adc_bit_resolution=VInt(16))
    dci = w.cls("pyxel/detectors/ccd/ccd.py::CCD")
    det = st.alloc(HObj(dci, {"_geometry": geo, "_environment": env, "_characteristics": cht, "_photon": NONE, "_readout_properties": NONE}))
    mci = w.cls(f"{MF}::ModelFunction")
    models = []
    names = [VStr(z3.String("model_name_0")), VStr(z3.String("model_name_1"))]
    argn = [VStr(z3.String("arg_name_0")), VStr(z3.String("arg_name_1"))]
    st.assume(z3.And(names[0].v != names[1].v, argn[0].v != argn[1].v))
    for nme in names:      # stated corner case: a model literally named "arguments" / "enabled" defeats the key grammar
        st.assume(z3.And(nme.v != "arguments", nme.v != "enabled"))
    for s_ in names + argn:
        st.assume(z3.And(z3.Not(z3.Contains(s_.v, z3.StringVal("."))), z3.Length(s_.v) > 0))
    nest = None
    if nested:
        # an argument that is itself a dictionary (arguments: {settings: {level: .., offset: ..}}): its entries are settings addressed by
        # ...arguments.<nested arg>.<sub key>
        nest = {"arg": VStr(z3.String("nested_arg_name")), "sub": [VStr(z3.String("sub_key_0")), VStr(z3.String("sub_key_1"))]}
        st.assume(z3.And(nest["arg"].v != argn[0].v, nest["arg"].v != argn[1].v, nest["sub"][0].v != nest["sub"][1].v))
        for s_ in [nest["arg"]] + nest["sub"]:
            st.assume(z3.And(z3.Not(z3.Contains(s_.v, z3.StringVal("."))), z3.Length(s_.v) > 0))
        nest["dict"] = st.alloc(HDict([(nest["sub"][0], VInt(z3.Int("sub_v0"))), (nest["sub"][1], VInt(z3.Int("sub_v1")))]))
    for i in range(2):
        d = st.alloc(HDict([(argn[0], VInt(z3.Int(f"m{i}_a0"))), (argn[1], VInt(z3.Int(f"m{i}_a1")))] + ([(nest["arg"], nest["dict"])] if nested and i == 0 else [])))
        en = VBool(z3.Bool(f"enabled_{i}")) if enabled is None else VBool(enabled)
        models.append(ex.instantiate(mci, [], {"func": VStr(f"pkg.mod.f{i}"), "name": names[i], "arguments": d, "enabled": en}, Frame(None, mci.module)))
    pci = w.cls(f"{PL}::DetectionPipeline")
    groups = {GROUP: st.alloc(HList(models))}
    if decoy:
        # a model in an EARLIER group whose name may coincide with an addressed model's name and whose enabled flag
        # is independent: a key must be decided by the model it addresses, not by a namesake elsewhere
        dn = VStr(z3.String("decoy_model_name"))
        st.assume(z3.And(z3.Not(z3.Contains(dn.v, z3.StringVal("."))), z3.Length(dn.v) > 0, dn.v != "arguments", dn.v != "enabled"))
        dd = st.alloc(HDict([(argn[0], VInt(z3.Int("decoy_a0"))), (argn[1], VInt(z3.Int("decoy_a1")))]))
        groups["scene_generation"] = st.alloc(HList([ex.instantiate(mci, [], {"func": VStr("pkg.mod.decoy"), "name": dn, "arguments": dd,
                                                                              "enabled": VBool(z3.Bool("decoy_enabled"))}, Frame(None, mci.module))]))
    pipe = ex.instantiate(pci, [], groups, Frame(None, pci.module))
    prc = w.cls(f"{PR}::Processor")
    proc = st.alloc(HObj(prc, {"detector": det, "pipeline": pipe, "observation": NONE, "_result": NONE, "_numbytes": VInt(0), "_log": VOpaque("logger")}))
    ex.scn = {"proc": proc, "det": det, "geo": geo, "env": env, "cht": cht, "pipe": pipe, "models": models, "names": names, "argn": argn, "nest": nest}
    # the group's model names must not collide with real attributes of ModelGroup (else normal lookup wins)
    grp = ex.getattr(pipe, GROUP, fr)
    for nme in names + ([dn] if decoy else []):
        for a in attr_names(ex, grp):
            st.assume(nme.v != a)
    for an in argn + ([nest["arg"]] if nested else []):
        for a in attr_names(ex, st.cell(models[0]).fields["_arguments"]):
            st.assume(an.v != a)
    return proc


def fresh_unknown(ex, obj, label):
    """A component that is not an attribute of obj (nor a model / argument name known to it)."""
    s = VStr(z3.String(label))
    ex.st.assume(z3.And(z3.Not(z3.Contains(s.v, z3.StringVal("."))), z3.Length(s.v) > 0))
    if isinstance(obj, VRef):
        for a in attr_names(ex, obj):
            ex.st.assume(s.v != a)
        cell = ex.st.cell(obj)
        if getattr(cell.cls, "name", "") == "ModelGroup":
            for nme in ex.scn["names"]:
                ex.st.assume(s.v != nme.v)
        if getattr(cell.cls, "name", "") == "Arguments":
            for an in ex.scn["argn"] + ([ex.scn["nest"]["arg"]] if ex.scn.get("nest") else []):
                ex.st.assume(s.v != an.v)
    return s


SECTIONS = {"geometry": ["row", "col", "total_thickness", "pixel_vert_size", "pixel_horz_size", "pixel_scale"],
            "environment": ["temperature"],
            "characteristics": ["quantum_efficiency", "charge_to_volt_conversion", "pre_amplification", "full_well_capacity", "adc_bit_resolution"]}


DICT_ATTRS = [a for a in dir(dict)]      # (a sub key spelt like a method of dict resolves through hasattr: stated corner case of the key grammar)


def key_scenarios():
    """(label, builder(ex) -> (key VStr, resolves: bool, owner ref|None, last component))."""
    out = []
    for sect, fields in SECTIONS.items():
        for f in fields:
            out.append((f"detector.{sect}.{f}", lambda ex, sect=sect, f=f: (L.make_key([VStr("detector"), VStr(sect), VStr(f)]), True)))
        out.append((f"detector.{sect}.<unknown>", lambda ex, sect=sect: (L.make_key([VStr("detector"), VStr(sect), fresh_unknown(ex, ex.scn[{"geometry": "geo", "environment": "env", "characteristics": "cht"}[sect]], "misspelt")]), False)))
    out.append(("detector.<unknown>.row", lambda ex: (L.make_key([VStr("detector"), fresh_unknown(ex, ex.scn["det"], "misspelt"), VStr("row")]), False)))
    out.append(("<unknown>.geometry.row", lambda ex: (L.make_key([fresh_unknown(ex, ex.scn["proc"], "misspelt"), VStr("geometry"), VStr("row")]), False)))
    for mi in (0, 1):
        for ai in (0, 1):
            out.append((f"pipeline.{GROUP}.<model{mi}>.arguments.<arg{ai}>", lambda ex, mi=mi, ai=ai: (
                L.make_key([VStr("pipeline"), VStr(GROUP), ex.scn["names"][mi], VStr("arguments"), ex.scn["argn"][ai]]), True)))
        out.append((f"pipeline.{GROUP}.<model{mi}>.enabled", lambda ex, mi=mi: (L.make_key([VStr("pipeline"), VStr(GROUP), ex.scn["names"][mi], VStr("enabled")]), True)))
        out.append((f"pipeline.{GROUP}.<model{mi}>.arguments.<unknown>", lambda ex, mi=mi: (
            L.make_key([VStr("pipeline"), VStr(GROUP), ex.scn["names"][mi], VStr("arguments"),
                        fresh_unknown(ex, ex.st.cell(ex.scn["models"][mi]).fields["_arguments"], "undeclared")]), False)))
    out.append((f"pipeline.{GROUP}.<unknown model>.arguments.<arg0>", lambda ex: (
        L.make_key([VStr("pipeline"), VStr(GROUP), fresh_unknown(ex, ex.getattr(ex.scn["pipe"], GROUP, Frame(None, None)), "no_such_model"), VStr("arguments"), ex.scn["argn"][0]]), False)))
    # an UNKNOWN component inserted in the middle, followed by a name that exists on the last object that did resolve (the walk must not
    # fall back to that ancestor): detector.environment.<unknown>.temperature, ...<model0>.<unknown>.enabled, ...arguments.<unknown>.<arg0>
    out.append(("detector.environment.<unknown>.temperature", lambda ex: (L.make_key([VStr("detector"), VStr("environment"), fresh_unknown(ex, ex.scn["env"], "inserted"), VStr("temperature")]), False)))
    out.append(("detector.geometry.<unknown>.row", lambda ex: (L.make_key([VStr("detector"), VStr("geometry"), fresh_unknown(ex, ex.scn["geo"], "inserted"), VStr("row")]), False)))
    out.append((f"pipeline.{GROUP}.<model0>.<unknown>.enabled", lambda ex: (
        L.make_key([VStr("pipeline"), VStr(GROUP), ex.scn["names"][0], fresh_unknown(ex, ex.scn["models"][0], "inserted"), VStr("enabled")]), False)))
    out.append((f"pipeline.{GROUP}.<model0>.arguments.<unknown>.<arg0>", lambda ex: (
        L.make_key([VStr("pipeline"), VStr(GROUP), ex.scn["names"][0], VStr("arguments"), fresh_unknown(ex, ex.st.cell(ex.scn["models"][0]).fields["_arguments"], "inserted"), ex.scn["argn"][0]]), False)))
    # entries of an argument that is itself a dictionary: an existing sub key resolves, a misspelt one does not (and must not be CREATED)
    def nested_key(ex, last):
        return L.make_key([VStr("pipeline"), VStr(GROUP), ex.scn["names"][0], VStr("arguments"), ex.scn["nest"]["arg"], last])

    def unknown_sub(ex):
        s_ = VStr(z3.String("misspelt_sub_key"))
        ex.st.assume(z3.And(z3.Not(z3.Contains(s_.v, z3.StringVal("."))), z3.Length(s_.v) > 0, s_.v != ex.scn["nest"]["sub"][0].v, s_.v != ex.scn["nest"]["sub"][1].v))
        for a in DICT_ATTRS:
            ex.st.assume(s_.v != a)
        return s_
    out.append((f"pipeline.{GROUP}.<model0>.arguments.<nested arg>.<sub key>", lambda ex: (nested_key(ex, ex.scn["nest"]["sub"][0]), True)))
    out.append((f"pipeline.{GROUP}.<model0>.arguments.<nested arg>.<unknown>", lambda ex: (nested_key(ex, unknown_sub(ex)), False)))
    out.append(("pipeline.charge_transfer.<model0>.arguments.<arg0>", lambda ex: (
        L.make_key([VStr("pipeline"), VStr("charge_transfer"), ex.scn["names"][0], VStr("arguments"), ex.scn["argn"][0]]), False)))
    return out


def snapshot(ex):
    snap = {}
    for addr, cell in ex.st.heap.items():
        if isinstance(cell, HObj):
            for k, v in cell.fields.items():
                snap[(addr, k)] = v
        elif isinstance(cell, HDict):
            for k, v in cell.items:
                snap[(addr, "item", str(getattr(k, "v", k)))] = v
        elif isinstance(cell, HList):
            snap[(addr, "items")] = tuple(id(x) for x in cell.items)
    return snap


def changed(ex, snap, upto):
    """Locations of pre-existing heap cells (addr < upto) whose content differs from the snapshot."""
    now = snapshot(ex)
    out = []
    for loc, v in now.items():
        if loc[0] >= upto:
            continue
        if loc not in snap:
            out.append((loc, "created"))
        else:
            a, b = snap[loc], v
            same = a is b or (type(a) is type(b) and hasattr(a, "v") and (a.v is b.v or (is_conc(a.v) and is_conc(b.v) and a.v == b.v))) or (isinstance(a, tuple) and a == b) \
                or (isinstance(a, VRef) and isinstance(b, VRef) and a.addr == b.addr)
            if not same:
                out.append((loc, "changed"))
    for loc in snap:
        if loc[0] < upto and loc not in now and loc[0] in ex.st.heap:
            out.append((loc, "removed"))          # a field / dictionary entry that existed before is gone (del, pop, clear)
    return out


KEY_REPLAY = lambda w: {"code": """
import copy, verif_probes as VP
from pyxel.pipelines import DetectionPipeline, ModelFunction, Processor
det = VP.detector(quantum_efficiency=0.5, adc_bit_resolution=16)
pipe = DetectionPipeline(photon_collection=[ModelFunction(func='verif_probes.probe', name='illum', arguments={'level': 1, 'option': 'a'}),
                                            ModelFunction(func='verif_probes.probe', name='other', arguments={'level': 2, 'option': 'b'}, enabled=False)])
proc = Processor(detector=det, pipeline=pipe)
def settings(p):
    d = {}
    for sect in ('geometry', 'environment', 'characteristics'):
        d.update({f'{sect}.{k}': v for k, v in vars(getattr(p.detector, sect)).items()})
    for m in p.pipeline.photon_collection.models:
        d[m.name + '.enabled'] = m.enabled
        d.update({f'{m.name}.{k}': v for k, v in m.arguments.items()})
    return d
VIOLATED, DETAIL = False, ''
for key in ('detector.geometry.rowx', 'detector.geometri.row', 'pipeline.photon_collection.illum.arguments.levle', 'pipeline.photon_collection.illumx.arguments.level',
            'detector.characteristics.quantum_eficiency', 'detector.environment.bogus.temperature', 'detector.geometry.size.row',
            'pipeline.photon_collection.illum.arguments.extra.level', 'pipeline.photon_collection.illum.argument.enabled'):
    before = settings(proc)
    try:
        had = proc.has(key)
        if had:
            VIOLATED, DETAIL = True, f'has({key!r}) is True for a key that does not resolve'; break
        proc.set(key, 3)
        VIOLATED, DETAIL = True, f'set({key!r}) succeeded (has() said {had}); settings now differ by ' + repr({k: v for k, v in settings(proc).items() if before.get(k, None) != v})
        break
    except Exception as e:
        if settings(proc) != before:
            VIOLATED, DETAIL = True, f'set({key!r}) raised {e!r} but changed settings'; break
if not VIOLATED:
    # entries of an argument that is itself a dictionary: an existing entry can be set, a misspelt / truncated one is refused and never created
    pipe2 = DetectionPipeline(photon_collection=[ModelFunction(func='verif_probes.probe', name='flat', arguments={'settings': {'level': 100, 'offset': 0}, 'gain': 2})])
    proc2 = Processor(detector=VP.detector(), pipeline=pipe2)
    base = 'pipeline.photon_collection.flat.arguments.settings.'
    for bad in ('levle', 'lev', 'levels'):
        before = copy.deepcopy(dict(pipe2.photon_collection.models[0].arguments))
        try:
            proc2.set(base + bad, 250)
            VIOLATED, DETAIL = True, f'set({base + bad!r}, 250) accepted (has() says {proc2.has(base + bad)}); arguments now {dict(pipe2.photon_collection.models[0].arguments)}'; break
        except Exception:
            if dict(pipe2.photon_collection.models[0].arguments) != before:
                VIOLATED, DETAIL = True, f'set({base + bad!r}) raised but changed the arguments'; break
    if not VIOLATED:
        proc2.set(base + 'level', 250)
        if dict(pipe2.photon_collection.models[0].arguments) != {'settings': {'level': 250, 'offset': 0}, 'gain': 2}:
            VIOLATED, DETAIL = True, f'set({base}level, 250): arguments {dict(pipe2.photon_collection.models[0].arguments)}'
if not VIOLATED:
    for key, val in (('detector.geometry.row', 7), ('detector.characteristics.quantum_efficiency', 0.25), ('pipeline.photon_collection.illum.arguments.level', 9),
                     ('pipeline.photon_collection.other.enabled', True)):
        before = settings(proc)
        proc.set(key, val)
        after = settings(proc)
        diff = {k for k in after if before.get(k) != after[k]}
        if proc.get(key) != val or len(diff) != 1:
            VIOLATED, DETAIL = True, f'set({key!r}, {val!r}): get -> {proc.get(key)!r}; settings changed: {sorted(diff)}'; break
    # the same keys assigned again (what a sweep does run after run): every read returns the value assigned last
    for key, v1, v2 in (('detector.geometry.row', 5, 6), ('detector.characteristics.quantum_efficiency', 0.5, 0.75), ('pipeline.photon_collection.illum.arguments.level', 3, 4),
                        ('pipeline.photon_collection.other.enabled', False, True)):
        if VIOLATED: break
        proc.get(key); proc.set(key, v1); r1 = proc.get(key); proc.set(key, v2); r2 = proc.get(key)
        if r1 != v1 or r2 != v2:
            VIOLATED, DETAIL = True, f'{key!r}: set {v1!r} -> get {r1!r}; set {v2!r} -> get {r2!r}'
""", "expect": "unknown keys are refused without side effect; known keys change exactly one setting"}


@unit("C08", "has")
def has_unit(u: Unit):
    fi = u.fn(f"{PR}::Processor.has")
    u.fn(f"{PR}::_get_obj_att")
    cfg = mk_cfg(u)
    for label, build in key_scenarios():
        holder = {}

        def setup(ex, build=build):
            proc = mk_processor(ex, u, nested=True)
            key, res = build(ex)
            holder["res"] = res
            return [proc, key], {}
        ps = u.paths(fi, setup, cfg, label=f"has[{label}]")
        for p in ps:
            if p.kind != "return":
                # has() may only raise for a key that does not resolve (rejected is allowed), never for a valid one
                u.oblige(p, f"has.iff[{label}]", not holder["res"], {}, KEY_REPLAY)
                continue
            t = p.ex.truth(p.value)
            u.oblige(p, f"has.iff[{label}]", zb(t) if holder["res"] else zb(z_not(t)), {}, KEY_REPLAY)
        u.cover(f"has.cover[{label}]", ps, lambda p: True)


@unit("C08", "set")
def set_unit(u: Unit):
    fi = u.fn(f"{PR}::Processor.set")
    fg = u.fn(f"{PR}::Processor.get")
    u.fn(f"{MF}::Arguments.__setattr__")
    u.fn(f"{MF}::Arguments.__setitem__")
    cfg = mk_cfg(u)
    for label, build in key_scenarios():
        holder = {}
        # in-range values so that the addressed setter accepts (range refusal is C12's property)
        val = VFloat(0.25) if "quantum" in label else VInt(7) if ("row" in label or "col" in label or "adc" in label) else VFloat(3.0) if "detector." in label else \
            VBool(True) if label.endswith("enabled") else VInt(z3.Int("new_value"))

        earlier = VFloat(0.5) if "quantum" in label else VInt(5) if ("row" in label or "col" in label or "adc" in label) else VFloat(2.0) if "detector." in label else \
            VBool(False) if label.endswith("enabled") else VInt(z3.Int("earlier_value"))

        def setup(ex, build=build, val=val, earlier=earlier, label=label):
            proc = mk_processor(ex, u, nested=True)
            key, res = build(ex)
            holder.pop("history_failed", None)
            if res and "<nested arg>" not in label:
                # HISTORY: the setting was read, assigned another value and read again before the assignment under check (a sweep assigns
                # the same key run after run): nothing remembered from those calls may survive into the read after this one
                fr0 = Frame(None, fg.module)
                try:
                    ex.call_function(VFunc(fg), [proc, key], {}, fr0)
                    ex.call_function(VFunc(fi), [proc, key, earlier], {"convert_value": VBool(False)}, fr0)
                    ex.call_function(VFunc(fg), [proc, key], {}, fr0)
                except PyExc as pe:
                    holder["history_failed"] = ex.exc_class_name(pe.val)
            holder.update(res=res, key=key, upto=ex.st.next_addr, snap=snapshot(ex))
            return [proc, key, val], {"convert_value": VBool(False)}
        ps = u.paths(fi, setup, cfg, label=f"set[{label}]")
        for p in ps:
            ch = changed(p.ex, holder["snap"], holder["upto"])
            if not holder["res"]:
                ok = p.kind == "raise" and not ch
                u.oblige(p, f"set.existing_only[{label}]", bool(ok), {"changed": str(ch)[:200], "outcome": p.kind}, KEY_REPLAY)
                continue
            if p.kind != "return" or holder.get("history_failed"):
                u.oblige(p, f"set.accepts_existing[{label}]", False, {"exc": p.exc_name() or holder.get("history_failed")}, KEY_REPLAY)
                continue
            u.oblige(p, f"set.frame[{label}]", len(ch) == 1, {"changed": str(ch)[:300]}, KEY_REPLAY)
            if "<nested arg>" in label:
                # (Processor.get does not read entries of a dictionary-valued argument -- attrgetter -- and the statement lists fields, arguments
                # and enabled flags as readable keys: here the entry itself is inspected)
                items = dict((str(k.v), v) for k, v in p.st.cell(p.ex.scn["nest"]["dict"]).items)
                got = items.get(str(p.ex.scn["nest"]["sub"][0].v))
                u.oblige(p, f"set.roundtrip[{label}]", bool(got is val or (hasattr(got, "v") and got.v is val.v)), {}, KEY_REPLAY)
                continue
            try:
                got = p.ex.call_function(VFunc(fg), [p.ex.scn["proc"], holder["key"]], {}, Frame(None, fg.module))
                same = got is val or (type(got) is type(val) and hasattr(got, "v") and (got.v is val.v or (is_conc(got.v) and got.v == val.v)))
            except PyExc:
                same = False
            u.oblige(p, f"set.roundtrip[{label}]", bool(same), {}, KEY_REPLAY)
        u.cover(f"set.cover[{label}]", ps, lambda p: True)


@unit("C08", "args.unknown_refused")
def args_unknown(u: Unit):
    cfg = mk_cfg(u)
    ci = u.cls(f"{MF}::Arguments")
    for meth in ("__setitem__", "__setattr__"):
        fi = u.fn(f"{MF}::Arguments.{meth}")
        holder = {}

        def setup(ex):
            k0 = VStr(z3.String("declared"))
            d = ex.st.alloc(HDict([(k0, VInt(z3.Int("v0")))]))
            a = ex.instantiate(ci, [d], {}, Frame(None, ci.module))
            name = VStr(z3.String("name"))
            ex.st.assume(z3.And(name.v != k0.v, name.v != "_arguments"))
            holder.update(upto=ex.st.next_addr, snap=snapshot(ex))
            return [a, name, VInt(z3.Int("nv"))], {}
        for p in u.paths(fi, setup, cfg, label=f"Arguments.{meth}"):
            ch = changed(p.ex, holder["snap"], holder["upto"])
            u.oblige(p, f"args.unknown_refused[{meth}]", bool(p.kind == "raise" and not ch), {"changed": str(ch)}, KEY_REPLAY)


@unit("C08", "validate")
def validate(u: Unit):
    fi = u.fn(f"{OBS}::Observation.validate_steps")
    oci = u.cls(f"{OBS}::Observation")
    pvc = u.cls("pyxel/observation/parameter_values.py::ParameterValues")
    cfg = mk_cfg(u)
    rp = lambda w: {"code": """
import verif_probes as VP
from pyxel.pipelines import DetectionPipeline, ModelFunction, Processor
from pyxel.observation import Observation, ParameterValues
from pyxel.exposure import Readout
VP.LOG.clear()
det = VP.detector()
pipe = DetectionPipeline(photon_collection=[ModelFunction(func='verif_probes.probe', name='on', arguments={'level': 1}),
                                            ModelFunction(func='verif_probes.probe', name='off', arguments={'level': 1}, enabled=False)])
VIOLATED, DETAIL = False, ''
for key in ('pipeline.photon_collection.on.arguments.levle', 'pipeline.photon_collection.off.arguments.level', 'detector.geometry.rowx'):
    obs = Observation(parameters=[ParameterValues(key=key, values=[1, 2])], readout=Readout(times=[1.0]))
    try:
        obs.run_pipelines(Processor(detector=VP.detector(), pipeline=pipe), with_inherited_coords=True)
        VIOLATED, DETAIL = True, f'sweep over {key!r} ran ({len(VP.LOG)} model calls)'; break
    except (KeyError, ValueError, AttributeError) as e:
        if VP.LOG: VIOLATED, DETAIL = True, f'{key!r} rejected only after {len(VP.LOG)} model calls'; break
""", "expect": "undeclared arguments and arguments of disabled models are rejected before any pipeline runs"}
    rp2 = lambda w: {"code": """
import verif_probes as VP
from pyxel.pipelines import DetectionPipeline, ModelFunction, Processor
from pyxel.observation import Observation, ParameterValues
from pyxel.exposure import Readout
VIOLATED, DETAIL = False, 'no combination of namesake / flags misjudged'
for decoy_group in ('scene_generation', 'charge_generation'):
  for decoy_name in ('bg', 'other'):
    for en_addr in (True, False):
      for en_decoy in (True, False):
        VP.LOG.clear()
        groups = {'photon_collection': [ModelFunction(func='verif_probes.probe', name='bg', arguments={'level': 1}, enabled=en_addr)],
                  decoy_group: [ModelFunction(func='verif_probes.probe', name=decoy_name, arguments={'level': 1}, enabled=en_decoy)]}
        proc = Processor(detector=VP.detector(), pipeline=DetectionPipeline(**groups))
        obs = Observation(parameters=[ParameterValues(key='pipeline.photon_collection.bg.arguments.level', values=[1, 2])], readout=Readout(times=[1.0]))
        try:
            obs.validate_steps(proc); accepted = True
        except (KeyError, ValueError, AttributeError):
            accepted = False
        if accepted != en_addr and not VIOLATED:
            VIOLATED, DETAIL = True, f'addressed model photon_collection.bg enabled={en_addr}; namesake {decoy_group}.{decoy_name} enabled={en_decoy}: validate_steps ' + ('accepted' if accepted else 'rejected') + ' the sweep'
""", "expect": "a sweep of a model argument is accepted iff the ADDRESSED model is enabled"}
    for label, build in key_scenarios():
        if ".enabled" in label:
            continue
        for en in (True, False, None):
            holder = {}

            def setup(ex, build=build, en=en):
                proc = mk_processor(ex, u, enabled=en, decoy=en is None, nested=True)
                key, res = build(ex)
                holder["res"] = res
                step = ex.st.alloc(HObj(pvc, {"_key": key, "_values": ex.st.alloc(HList([VInt(1), VInt(2)])), "_enabled": VBool(True), "_type": VStr("int")}))
                mode = ex.st.alloc(HObj("builtins.object", {}))
                obs = ex.st.alloc(HObj(oci, {"parameter_mode": VOpaque("mode", None, {"steps": [step]})}))
                return [obs, proc], {}
            cfg.lib_overrides[("opaque_attr", "mode")] = lambda ex, obj, name, fr: ex.st.alloc(HList(obj.info["steps"])) if name == "enabled_steps" else ex.throw("AttributeError", name)
            cfg.lib_overrides["builtins.isinstance"] = lambda ex, f, args, kwargs, fr: VBool(False) if isinstance(args[0], VOpaque) and args[0].kind == "mode" else L.isinstance_(ex, args[0], args[1])
            ps = u.paths(fi, setup, cfg, label=f"validate_steps[{label},enabled={en}]")
            is_model_arg = label.startswith("pipeline.") and ".arguments." in label
            mm = re.search(r"<model(\d)>", label)
            for p in ps:
                if en is None and holder["res"] and is_model_arg:
                    # independent flags + a namesake in another group: decided by the ADDRESSED model's flag only
                    flag = z3.Bool(f"enabled_{mm.group(1)}")
                    w = {"addressed_enabled": flag, "decoy_enabled": z3.Bool("decoy_enabled"), "decoy_name": z3.String("decoy_model_name"),
                         "model_name": z3.String(f"model_name_{mm.group(1)}")}
                    if p.kind == "return":
                        u.oblige(p, f"validate.accepts_only_enabled[{label}]", flag, w, rp2)
                    else:
                        u.oblige(p, f"validate.rejects_only_disabled[{label}]", z3.And(z3.Not(flag), zb(p.exc_name() == "ValueError")), w, rp2)
                elif en is None and holder["res"]:
                    u.oblige(p, f"validate.accepts[{label},enabled=sym]", p.kind == "return", {"exc": p.exc_name()}, rp)
                elif holder["res"] and (en or not is_model_arg):
                    u.oblige(p, f"validate.accepts[{label},enabled={en}]", p.kind == "return", {"exc": p.exc_name()}, rp)
                else:
                    u.oblige(p, f"validate.before_runs[{label},enabled={en}]", p.kind == "raise" and p.exc_name() in ("KeyError", "ValueError", "AttributeError"), {"outcome": p.kind}, rp)
            u.cover(f"validate.cover[{label},{en}]", ps, lambda p: True)


@unit("C08", "conv")
def conv(u: Unit):
    fi = u.fn(f"{EV}::eval_entry")
    cfg = mk_cfg(u)
    rp = lambda w: {"code": """
from pyxel.evaluator import eval_entry
cases = [('12', 12), ('1.5', 1.5), ('[1, 2]', [1, 2]), ('abc', 'abc'), ("'quoted'", 'quoted'), (3, 3), (2.5, 2.5), ('True', True), ('False', False), ('1e3', 1000.0),
         ('parallel', 'parallel'), ('(1, 2)', (1, 2)), ('-3', -3)]
bad = [(a, eval_entry(a), b) for a, b in cases if eval_entry(a) != b or type(eval_entry(a)) is not type(b)]
VIOLATED, DETAIL = bool(bad), 'eval_entry mismatches: ' + repr(bad)
""", "expect": "textual values denote the number / list / string they literally are"}
    s = VStr(z3.String("text"))

    def setup_str(ex):
        ex.st.assume(z3.And(z3.Length(s.v) > 0, z3.Not(z3.Contains(s.v, z3.StringVal('"'))), z3.Not(z3.Contains(s.v, z3.StringVal("'"))), z3.Not(z3.Contains(s.v, z3.StringVal("\\\\")))))
        return [s], {}
    cfg2 = mk_cfg(u)

    # '"' + value + '"' : remember what the quoted text denotes
    def quote_concat(ex, f, args, kwargs, fr):
        raise Unsupported("unused")
    ps = u.paths(fi, setup_str, cfg, label="eval_entry[text]")
    for p in ps:
        if p.kind != "return":
            u.oblige(p, "conv.text.no_raise", False, {"exc": p.exc_name()}, rp)
            continue
        r = p.value
        if isinstance(r, VInt):
            u.oblige(p, "conv.literal_denotes", z3.And(parses(s.v), r.v == denotes_int(s.v)), {}, rp)
        else:
            u.oblige(p, "conv.plain_text_is_itself", z3.And(z3.Not(parses(s.v)), zb(isinstance(r, VStr)) , (z_str(r.v) == s.v) if isinstance(r, VStr) else z3.BoolVal(False)), {}, rp)
    u.cover("conv.cover[text]", ps, lambda p: p.kind == "return")
    # concrete texts: the result is what the text literally denotes (the keywords True / False / None included), else the text
    import ast as _ast

    def to_py(p, v):
        if isinstance(v, VNone):
            return None
        if isinstance(v, (VInt, VFloat, VBool, VStr)) and is_conc(v.v):
            return v.v
        if isinstance(v, VTuple):
            return tuple(to_py(p, x) for x in v.items)
        items = p.ex.try_list(v)
        if items is not None:
            return [to_py(p, x) for x in items]
        return ("<symbolic>", repr(v))
    for text in ("True", "False", "12", "-3", "1.5", "1e3", "[1, 2]", "(1, 2)", "abc", "parallel", "hello world", "x1", "_", "1_000", "0x10", "nan"):
        try:
            want = _ast.literal_eval(text)
        except (ValueError, SyntaxError):
            want = text
        for p in u.paths(fi, lambda ex, text=text: ([VStr(text)], {}), cfg, label=f"eval_entry[{text!r}]"):
            got = to_py(p, p.value) if p.kind == "return" else ("<raised>", p.exc_name())
            u.oblige(p, f"conv.concrete_text[{text}]", bool(p.kind == "return" and got == want and type(got) is type(want)), {"text": text, "got": repr(got), "want": repr(want)}, rp)
    for tag, v in (("int", VInt(z3.Int("n"))), ("float", VFloat(z3.Real("x"))), ("bool", VBool(z3.Bool("b")))):
        for p in u.paths(fi, lambda ex, v=v: ([v], {}), cfg, label=f"eval_entry[{tag}]"):
            u.oblige(p, f"conv.non_text_unchanged[{tag}]", p.kind == "return" and p.value is v, {}, rp)


@unit("C08", "entrypoints")
def entrypoints(u: Unit):
    """Callers reach settings only through Processor.set / Processor.replace (so `set.existing_only` covers sweeps,
    calibration and overrides); apply_overrides checks hasattr before its own setattr on the running mode."""
    sites = []
    for mi in u.world.all_modules():
        if mi.relpath.startswith("pyxel/models/") or "deprecated" in mi.relpath:
            continue
        for n in ast.walk(mi.tree):
            if isinstance(n, ast.Call) and isinstance(n.func, ast.Name) and n.func.id == "setattr":
                sites.append((mi.relpath, n.lineno, ast.unparse(n)[:80]))
    allowed = {"pyxel/pipelines/processor.py", "pyxel/run.py"}
    bad = [s for s in sites if s[0] not in allowed and "processor" in s[2].lower()]
    u.static("entrypoints.no_bypass", not bad, "", f"setattr(...) call sites touching a processor outside Processor.set: {bad}; all setattr sites: {[(a, b) for a, b, _ in sites]}")
    fo = u.fn("pyxel/run.py::apply_overrides")
    sets = [c for c in DU.calls(fo.node, "set") if ast.unparse(c.func) == "processor.set"]
    kws = [DU.kw_args(fo.node, c) for c in sets]
    pos = [DU.pos_args(fo.node, c) for c in sets]
    through_set = len(sets) >= 1 and all((k.get("key") or (p_[0] if p_ else None)) == "key" and (k.get("value") or (p_[1] if len(p_) > 1 else None)) == "value" for k, p_ in zip(kws, pos))
    # every setattr on the running mode sits under an `if hasattr(<same object>, <same name>)`
    guarded = True
    for node in ast.walk(fo.node):
        if isinstance(node, ast.If):
            t = node.test
            is_guard = isinstance(t, ast.Call) and ast.unparse(t.func) == "hasattr" and len(t.args) == 2
            for c in ast.walk(ast.Module(body=node.orelse, type_ignores=[])):
                if isinstance(c, ast.Call) and ast.unparse(c.func) == "setattr" and is_guard:
                    guarded = False          # setattr in the else-branch of the guard
    for c in ast.walk(fo.node):
        if isinstance(c, ast.Call) and ast.unparse(c.func) == "setattr":
            ok_here = False
            for node in ast.walk(fo.node):
                if isinstance(node, ast.If) and isinstance(node.test, ast.Call) and ast.unparse(node.test.func) == "hasattr" and len(node.test.args) == 2 and len(c.args) >= 2 \
                        and [ast.unparse(a) for a in node.test.args] == [ast.unparse(a) for a in c.args[:2]] and any(c is x for x in ast.walk(ast.Module(body=node.body, type_ignores=[]))):
                    ok_here = True
            guarded = guarded and ok_here
    u.static("entrypoints.overrides_use_set", through_set and guarded, fo.qualname,
             f"apply_overrides: pipeline/detector keys go through Processor.set(key, value) ({len(sets)} call(s)); running-mode keys are guarded by hasattr: {guarded}")


@unit("C08", "sweep")
def sweep(u: Unit):
    """create_new_processor / Processor.replace apply every parameter through the real Processor.set on the copy (symbolic
    execution shared with C06: `*.sets_on_the_copy_only`, `*.same_structure`)."""
    from . import C06
    C06.deepcopy_unit(u)


# ---- run-time overrides: every (key, value) reaches the setting it names -------------------------------------------------------------------
OVERRIDE_REPLAY = lambda w: {"code": """
import verif_probes as VP, pyxel
from pyxel.run import apply_overrides
from pyxel.exposure import Exposure, Readout
from pyxel.pipelines import DetectionPipeline, ModelFunction, Processor
VIOLATED, DETAIL = False, 'every override reaches the setting it names, whatever its value'
det = VP.detector(quantum_efficiency=0.5)
pipe = DetectionPipeline(photon_collection=[ModelFunction(func='verif_probes.probe', name='illum', arguments={'level': 5, 'flag': True}),
                                            ModelFunction(func='verif_probes.probe', name='other', arguments={'level': 2})])
proc = Processor(detector=det, pipeline=pipe); mode = Exposure(readout=Readout(times=[1.0, 2.0]))
over = {'pipeline.photon_collection.other.enabled': False, 'pipeline.photon_collection.illum.arguments.level': 0, 'pipeline.photon_collection.illum.arguments.flag': False,
        'detector.characteristics.quantum_efficiency': 0.0, 'exposure.readout.non_destructive': True}
apply_overrides(overrides=over, processor=proc, mode=mode)
got = {'enabled': pipe.photon_collection.other.enabled, 'level': pipe.photon_collection.illum.arguments['level'], 'flag': pipe.photon_collection.illum.arguments['flag'],
       'qe': det.characteristics.quantum_efficiency, 'nd': mode.readout.non_destructive}
if got != {'enabled': False, 'level': 0, 'flag': False, 'qe': 0.0, 'nd': True}:
    VIOLATED, DETAIL = True, f'after the overrides {over}: settings {got}'
try:
    apply_overrides(overrides={'exposure.readout.no_such_setting': 1}, processor=proc, mode=mode); VIOLATED, DETAIL = True, 'an override of a setting that does not exist was accepted'
except (AttributeError, KeyError):
    pass
""", "expect": "apply_overrides sets every named setting to the given value (False / 0 / 0.0 included); unknown settings are refused"}


@unit("C08", "overrides")
def overrides_unit(u: Unit):
    """pyxel.run.apply_overrides (the override_dct of run_mode and the command line): for EVERY value — falsy ones included — an override
    whose key starts with the running mode's name is assigned to that attribute of the mode (refused when it does not exist), every
    other override is handed to Processor.set(key, value) (units set.* / has.*), each exactly once, in order."""
    fi = u.fn("pyxel/run.py::apply_overrides")
    cfg = Cfg("real")
    PRQ = "pyxel/pipelines/processor.py"
    sets = []
    cfg.contracts[f"{PRQ}::Processor.set"] = Contract(f"{PRQ}::Processor.set", lambda ex, args, kwargs, fr: (ex.hold["sets"].append((kwargs.get("key", args[1] if len(args) > 1 else None),
                                                                                                                          kwargs.get("value", args[2] if len(args) > 2 else None))), NONE)[1], "set.*")

    def get_obj_att(ex, args, kwargs, fr):
        obj, key = kwargs.get("obj", args[0] if args else None), kwargs.get("key", args[1] if len(args) > 1 else None)
        ex.hold["walk"].append((obj, key))
        return VTuple([ex.hold["target"], VStr("setting")])
    cfg.contracts[f"{PRQ}::_get_obj_att"] = Contract(f"{PRQ}::_get_obj_att", get_obj_att, "has.* (key walk)")

    def setup(ex):
        h = ex.hold = {"sets": [], "walk": []}
        h["target"] = ex.st.alloc(HObj("modepart", {"setting": VInt(1)} if ex.st.branch(z3.Bool("setting_exists")) else {}))
        h["mode"] = VOpaque("xr", None, {"label": "mode", "truthy": True})
        h["proc"] = VSym(u.cls(f"{PRQ}::Processor"), z3.Int("processor"))
        # values of any kind, falsy ones included
        h["vals"] = [VBool(z3.Bool("flag_value")), VInt(z3.Int("int_value")), VFloat(z3.Real("real_value"))]
        over = ex.st.alloc(HDict([(VStr("pipeline.photon_collection.m.enabled"), h["vals"][0]), (VStr("exposure.readout.setting"), h["vals"][1]),
                                  (VStr("detector.characteristics.quantum_efficiency"), h["vals"][2])]))
        return [], {"overrides": over, "processor": h["proc"], "mode": h["mode"]}
    ps = u.paths(fi, setup, cfg, label="apply_overrides")
    for p in ps:
        h = p.ex.hold
        exists = z3.Bool("setting_exists")
        if p.kind != "return":
            u.oblige(p, "overrides.refuses_only_unknown_mode_settings", z3.And(z3.Not(exists), zb(p.exc_name() == "AttributeError")), {"exc": p.exc_name()}, OVERRIDE_REPLAY)
            continue
        ok_sets = len(h["sets"]) == 2 and [str(getattr(k, "v", k)) for k, _ in h["sets"]] == ["pipeline.photon_collection.m.enabled", "detector.characteristics.quantum_efficiency"] \
            and h["sets"][0][1] is h["vals"][0] and h["sets"][1][1] is h["vals"][2]
        u.oblige(p, "overrides.every_processor_setting_is_set_to_its_value", bool(ok_sets), {"sets": len(h["sets"]), "flag_value": z3.Bool("flag_value"), "real_value": z3.Real("real_value")}, OVERRIDE_REPLAY)
        tgt = p.st.cell(h["target"]).fields
        ok_mode = len(h["walk"]) == 1 and h["walk"][0][0] is h["mode"] and str(getattr(h["walk"][0][1], "v", "")) == "readout.setting" and tgt.get("setting") is h["vals"][1]
        u.oblige(p, "overrides.mode_setting_assigned", z3.And(exists, zb(bool(ok_mode))), {"int_value": z3.Int("int_value")}, OVERRIDE_REPLAY)
    u.cover("overrides.cover", ps, lambda p: p.kind == "return")
    u.cover("overrides.cover_refusal", ps, lambda p: p.kind == "raise")



def _dims_order(u: Unit):
    """C07.dims_order (imported late: C07 imports this module)"""
    from . import C07 as _C07d
    return _C07d.dims_order(u)


unit("C08", "dims.order")(_dims_order)      # a swept value reaches the setting of ITS key: names and value tuples are paired by position on the dask path


# ---- Processor.replace assigns like Processor.set: textual values inside sequences are converted on the dask path too ----------------------
REPLACE_CONV_REPLAY = lambda w: {"code": """
import verif_probes as VP
from pyxel.pipelines import DetectionPipeline, ModelFunction, Processor
from pyxel.observation.misc import create_new_processor
VIOLATED, DETAIL = False, 'replace() and create_new_processor() leave in the setting what set() leaves: the value the text denotes'
pipe = DetectionPipeline(photon_collection=[ModelFunction(func='verif_probes.probe', name='m', arguments={'level': 1, 'table': [1, 2, 3]})])
proc = Processor(detector=VP.detector(), pipeline=pipe)
key = 'pipeline.photon_collection.m.arguments.table'
for value, want in ((['0', '1', '9e-6'], [0, 1, 9e-06]), ((0, 1, '9e-6'), [0, 1, 9e-06]), (('1e3', '2e3'), [1000.0, 2000.0]), ('[1, 2]', [1, 2]), ('5', 5), (7.5, 7.5), ([1, 2], [1, 2])):
    ref = Processor(detector=VP.detector(), pipeline=DetectionPipeline(photon_collection=[ModelFunction(func='verif_probes.probe', name='m', arguments={'level': 1, 'table': [1, 2, 3]})]))
    ref.set(key, value)
    expect = ref.get(key)
    for how, make in (('replace', lambda: proc.replace({key: value})), ('create_new_processor', lambda: create_new_processor(processor=proc, parameter_dict={key: value}))):
        got = make().get(key)
        if got != expect or got != want or any(type(a) is not type(b) for a, b in zip(got if isinstance(got, list) else [got], expect if isinstance(expect, list) else [expect])):
            VIOLATED, DETAIL = True, f'{how}({{{key!r}: {value!r}}}) leaves {got!r}; set() leaves {expect!r}'; break
    if VIOLATED: break
""", "expect": "the same key and value give the same setting through set, replace and create_new_processor"}


@unit("C08", "replace.converts")
def replace_converts(u: Unit):
    """Processor.replace and create_new_processor: for every requested (key, value) — text, number, list or tuple — exactly one
    set(key, value) on the COPY with the conversion of textual values left on (set's default), so the three ways of assigning through
    a key agree (set itself: units set / conv)."""
    PRQ, MISCQ = "pyxel/pipelines/processor.py::Processor", "pyxel/observation/misc.py::create_new_processor"
    pci = u.cls(PRQ)
    for label, fq, call in (("replace", f"{PRQ}.replace", lambda me, d: ([me, d], {})), ("create_new_processor", MISCQ, lambda me, d: ([], {"processor": me, "parameter_dict": d}))):
        fi = u.fn(fq)
        cfg = Cfg("real")
        boundary.install(cfg) if "boundary" in globals() else None
        rec = u.track({})
        sq = f"{PRQ}.set"
        cfg.contracts[sq] = Contract(sq, lambda ex, args, kwargs, fr, rec=rec: (rec.setdefault("sets", []).append((args[0], list(args[1:]), dict(kwargs))), NONE)[1], "C08.set / conv")
        cfg.lib_overrides["copy.deepcopy"] = lambda ex, f, args, kwargs, fr, rec=rec: (rec.update(copied=args[0]), ex.st.alloc(HObj(pci, {"_copy_of": args[0]})))[1]

        def setup(ex, call=call, rec=rec):
            rec.clear()
            me = ex.st.alloc(HObj(pci, {}))
            vals = [VStr(z3.String("text_value")), VFloat(z3.Real("number_value")), ex.st.alloc(HList([VStr("0"), VStr("9e-6"), VInt(1)])), VTuple([VStr("1e3"), VInt(2)])]
            keys = [VStr(f"pipeline.g.m.arguments.a{i}") for i in range(len(vals))]
            ex.hold = {"me": me, "vals": vals, "keys": keys}
            return call(me, ex.st.alloc(HDict(list(zip(keys, vals)))))
        ps = u.paths(fi, setup, cfg, label=label)
        for p in ps:
            if p.kind != "return":
                u.oblige(p, f"replace.converts[{label}].returns", False, {"exc": p.exc_name()}, REPLACE_CONV_REPLAY)
                continue
            sets, h = rec.get("sets", []), p.ex.hold
            on_copy = isinstance(p.value, VRef) and all(isinstance(s_[0], VRef) and s_[0].addr == p.value.addr for s_ in sets) and p.value.addr != h["me"].addr
            ok = len(sets) == len(h["vals"])
            conv_on = True
            for (tgt, pos, kw), k, v in zip(sets, h["keys"], h["vals"]):
                got_k = kw.get("key", pos[0] if pos else None)
                got_v = kw.get("value", pos[1] if len(pos) > 1 else None)
                cv = kw.get("convert_value", pos[2] if len(pos) > 2 else None)
                ok = ok and got_k is k and got_v is v
                conv_on = conv_on and (cv is None or (isinstance(cv, VBool) and cv.v is True))
            u.oblige(p, f"replace.converts[{label}].one_set_per_request_on_the_copy", bool(ok and on_copy), {"sets": len(sets)}, REPLACE_CONV_REPLAY)
            u.oblige(p, f"replace.converts[{label}].conversion_left_on", bool(conv_on), {"convert_value": str([str(s_[2].get("convert_value")) for s_ in sets])}, REPLACE_CONV_REPLAY)
        u.cover(f"replace.converts.cover[{label}]", ps, lambda p: p.kind == "return")


def _validated_before_runs(u: Unit):
    """C05.run_one_per_entry (imported late): Observation.run_pipelines calls validate_steps on the caller's processor before the first run on
    the sequential AND on the parallel branch -- 'rejected before any pipeline runs' for unknown keys and for arguments of disabled models."""
    from . import C05 as _C05v
    return _C05v.run_one_per_entry(u)


unit("C08", "validate.before_runs")(_validated_before_runs)
