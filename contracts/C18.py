"""C18 — a detector saved to a file and loaded back is the same detector.

Encode/decode are inverse, FIELD BY FIELD (not via the classes' ==):
  props.roundtrip[cls]       cls.from_dict(obj.to_dict()) has equal fields, for Geometry, Characteristics, Environment
                             (temperature/wavelength absent, numeric or multi-wavelength) and WavelengthHandling
  data.roundtrip[T][bucket]  T.from_dict(T.to_dict(d)): each of pixel, signal, image, photon (2-D), charge array and, for
                             MKID, phase is empty iff the original is and otherwise holds an equal array — for every
                             subset of initialised containers (symbolic presence flags, pointwise array equality)
  load_model.effect          after load_detector(detector, file) every bucket of the RUNNING detector equals the loaded one
  save_model, dispatch       save_detector writes detector.save(file); save/load choose the backend by extension;
                             Detector.from_dict dispatches on "type"
The byte-level ASDF/HDF5 round trip is the library's (boundary); HDF5 is not installed here.
"""
from __future__ import annotations

import ast

from pyvc import arrays
from .common import *  # noqa: F401,F403
from . import boundary, detmodel as D

DET = "pyxel/detectors/"
BOUNDED = {
    r'^load_model\.history': 'the history load ; empty ; load',
    r'^asdf\.writer': 'processed-data mappings of two groups',
}      # unit-name / obligation-name patterns -> the family these obligations are proved for
TRUSTED = ["multi-wavelength photon cube: xarray.DataArray.from_dict(a.to_dict()) equals a (library contract); the cube is an abstract DataArray (C13) and any other DataArray method yields an array not known to equal it",
           "the ASDF library writes and reads back the tree it is given; xr.Dataset/DataTree/DataArray.to_dict/from_dict and DataFrame.to_dict/DataFrame(dict) are mutually inverse "
           "(scene, processed data and the charge cluster table are boundaries)", "HDF5 backend (h5py) is not installed: not covered",
           "APDCharacteristics is covered for freshly constructed objects only (known finding after setter use)"]
G = D.GEN


def fields_equal(p: Path, a, b, names):
    conds = []
    for n in names:
        x, y = p.st.cell(a).fields.get(n), p.st.cell(b).fields.get(n)
        conds.append(zb(p.ex.eq(x, y)) if x is not None and y is not None else z3.BoolVal(x is y))
    return z3.And(*conds) if conds else z3.BoolVal(True)


PROP_REPLAY = lambda w: {"code": """
from pyxel.detectors import Geometry, Characteristics, Environment, WavelengthHandling
objs = [Geometry(row=3, col=4, total_thickness=10.0, pixel_vert_size=2.0, pixel_horz_size=3.0, pixel_scale=1.5), Geometry(row=1, col=1),
        Geometry(row=2, col=2, total_thickness=0.0, pixel_vert_size=0.0, pixel_horz_size=0.0, pixel_scale=0.0),
        Characteristics(quantum_efficiency=0.0, charge_to_volt_conversion=0.0, pre_amplification=0.0, full_well_capacity=0, adc_bit_resolution=4, adc_voltage_range=(0.0, 0.0)),
        Characteristics(quantum_efficiency=0.5, charge_to_volt_conversion=1e-6, pre_amplification=2.0, full_well_capacity=1000, adc_bit_resolution=16, adc_voltage_range=(0.0, 5.0)),
        Characteristics(), Characteristics(adc_bit_resolution=12, adc_voltage_range=(5.0, 0.0)), Characteristics(adc_voltage_range=(3.3, -3.3)), Environment(temperature=100.0, wavelength=600.0), Environment(), Environment(wavelength=WavelengthHandling(cut_on=400.0, cut_off=800.0, resolution=10))]
bad = []
for o in objs:
    o2 = type(o).from_dict(o.to_dict())
    a, b = {k: v for k, v in vars(o).items() if k != '_numbytes'}, {k: v for k, v in vars(o2).items() if k != '_numbytes'}
    if {k: (vars(v) if hasattr(v, '__dict__') else v) for k, v in a.items()} != {k: (vars(v) if hasattr(v, '__dict__') else v) for k, v in b.items()}:
        bad.append((type(o).__name__, a, b))
e = Environment(temperature=150.0); e.wavelength = 600            # an int assigned through the setter stays an int
e2 = Environment.from_dict(e.to_dict())
if e2._wavelength is None or float(e2._wavelength) != 600.0 or e2.temperature != 150.0:
    bad.append(('Environment (int wavelength set through the setter)', vars(e), vars(e2)))
VIOLATED, DETAIL = bool(bad), 'round trip differs: ' + repr(bad)[:400]
""", "expect": "from_dict(to_dict(x)) has the same fields as x"}


@unit("C18", "props")
def props(u: Unit):
    cfg = Cfg("real")

    def run(label, cls_qual, mk_fields, names, subcases=(None,)):
        ci = u.cls(cls_qual)
        td = u.fn(f"{cls_qual}.to_dict")
        fd = u.fn(f"{cls_qual}.from_dict")
        for sub in subcases:
            holder = {}

            def setup(ex, sub=sub):
                obj = ex.st.alloc(HObj(ci, mk_fields(ex, sub)))
                holder["obj"] = obj
                ex.orig = obj
                return [obj], {}
            ps = u.paths(td, setup, cfg, label=f"{label}.to_dict[{sub}]", then=lambda ex, v: ex.call_function(VFunc(fd, VClass(ci)), [v], {}, Frame(None, fd.module)))
            for p in ps:
                if p.kind != "return":
                    u.oblige(p, f"props.roundtrip[{label}:{sub}].to_dict_no_raise", False, {"exc": p.exc_name()}, PROP_REPLAY)
                    continue
                if p.ex.then_exc is not None:
                    u.oblige(p, f"props.roundtrip[{label}:{sub}].from_dict_no_raise", False, {"exc": p.ex.exc_class_name(p.ex.then_exc.val)}, PROP_REPLAY)
                    continue
                back = p.ex.then_value
                ok_cls = isinstance(back, VRef) and p.st.cell(back).cls is ci
                u.oblige(p, f"props.roundtrip[{label}:{sub}]", z3.And(zb(ok_cls), fields_equal(p, p.ex.orig, back, names) if ok_cls else z3.BoolVal(False)), {}, PROP_REPLAY)
            u.cover(f"props.cover[{label}:{sub}]", ps, lambda p: p.kind == "return")

    def geo(ex, sub):
        st = ex.st
        r, c = z3.Int("row"), z3.Int("col")
        st.assume(z3.And(r > 0, c > 0))
        out = {"_row": VInt(r), "_col": VInt(c), "_numbytes": VInt(0)}
        for n, hi in (("_total_thickness", 10000), ("_pixel_vert_size", 1000), ("_pixel_horz_size", 1000), ("_pixel_scale", 1000)):
            if sub == "all":
                t = z3.Real(n)
                st.assume(z3.And(t >= 0, t <= hi))          # the class invariant: 0.0 is a valid, DEFINED value
                out[n] = VFloat(t)
            else:
                out[n] = NONE
        return out
    run("Geometry", f"{DET}geometry.py::Geometry", geo, ["_row", "_col", "_total_thickness", "_pixel_vert_size", "_pixel_horz_size", "_pixel_scale"], ("all", "minimal"))

    def cht(ex, sub):
        st = ex.st
        out = {"_numbytes": VInt(0)}
        rng = {"_quantum_efficiency": (0, 1), "_charge_to_volt_conversion": (0, 100), "_pre_amplification": (0, 10000), "_full_well_capacity": (0, 1e7)}
        for n, (lo, hi) in rng.items():
            if sub == "all":
                t = z3.Real(n)
                st.assume(z3.And(t >= lo, t <= hi))
                out[n] = VFloat(t)
            else:
                out[n] = NONE
        if sub == "all":
            b = z3.Int("_adc_bit_resolution")
            st.assume(z3.And(b >= 4, b <= 64))
            out["_adc_bit_resolution"] = VInt(b)
            out["_adc_voltage_range"] = VTuple([VFloat(z3.Real("vmin")), VFloat(z3.Real("vmax"))])
        else:
            out["_adc_bit_resolution"] = NONE
            out["_adc_voltage_range"] = NONE
        return out
    run("Characteristics", f"{DET}characteristics.py::Characteristics", cht,
        ["_quantum_efficiency", "_charge_to_volt_conversion", "_pre_amplification", "_full_well_capacity", "_adc_bit_resolution", "_adc_voltage_range"], ("all", "minimal"))

    wci = u.cls(f"{DET}environment.py::WavelengthHandling")

    def env(ex, sub):
        st = ex.st
        t = z3.Real("temperature")
        st.assume(z3.And(t > 0, t <= 1000))
        out = {"_temperature": VFloat(t) if sub != "empty" else NONE, "_numbytes": VInt(0)}
        if sub == "numeric":
            wv = z3.Real("wavelength")
            st.assume(wv > 0)
            out["_wavelength"] = VFloat(wv)
        elif sub == "integer":                       # the setter keeps an int as given (Processor.set / a sweep over the wavelength)
            wi = z3.Int("wavelength_int")
            st.assume(wi > 0)
            out["_wavelength"] = VInt(wi)
        elif sub == "multi":
            on, offv, res = z3.Real("cut_on"), z3.Real("cut_off"), z3.Int("resolution")
            st.assume(z3.And(on > 0, on <= offv, res > 0))
            out["_wavelength"] = st.alloc(HObj(wci, {"cut_on": VFloat(on), "cut_off": VFloat(offv), "resolution": VInt(res)}))
        else:
            out["_wavelength"] = NONE
        return out
    ci = u.cls(f"{DET}environment.py::Environment")
    td, fd = u.fn(f"{DET}environment.py::Environment.to_dict"), u.fn(f"{DET}environment.py::Environment.from_dict")
    u.fn(f"{DET}environment.py::WavelengthHandling.to_dict")
    u.fn(f"{DET}environment.py::WavelengthHandling.from_dict")
    for sub in ("numeric", "integer", "multi", "none", "empty"):
        def setup(ex, sub=sub):
            obj = ex.st.alloc(HObj(ci, env(ex, sub)))
            ex.orig = obj
            return [obj], {}
        ps = u.paths(td, setup, cfg, label=f"Environment.to_dict[{sub}]", then=lambda ex, v: ex.call_function(VFunc(fd, VClass(ci)), [v], {}, Frame(None, fd.module)))
        for p in ps:
            if p.kind != "return":
                u.oblige(p, f"props.roundtrip[Environment:{sub}].to_dict_no_raise", False, {}, PROP_REPLAY)
                continue
            if p.ex.then_exc is not None:
                u.oblige(p, f"props.roundtrip[Environment:{sub}].from_dict_no_raise", False, {"exc": p.ex.exc_class_name(p.ex.then_exc.val)}, PROP_REPLAY)
                continue
            back = p.ex.then_value
            o, b = p.st.cell(p.ex.orig).fields, p.st.cell(back).fields
            conds = [zb(p.ex.eq(o["_temperature"], b["_temperature"]))]
            if sub == "multi":
                ow, bw = o["_wavelength"], b["_wavelength"]
                okw = isinstance(bw, VRef) and p.st.cell(bw).cls is wci
                conds.append(zb(okw))
                if okw:
                    conds.append(fields_equal(p, ow, bw, ["cut_on", "cut_off", "resolution"]))
            else:
                conds.append(zb(p.ex.eq(o["_wavelength"], b["_wavelength"])))
            u.oblige(p, f"props.roundtrip[Environment:{sub}]", z3.And(*conds), {}, PROP_REPLAY)
        u.cover(f"props.cover[Environment:{sub}]", ps, lambda p: p.kind == "return")


# ---- data containers ------------------------------------------------------------------------------------------------
DATA_REPLAY = lambda w: {"code": """
import numpy as np, verif_probes as VP, itertools
from pyxel.detectors import CCD, MKID, MKIDGeometry, CMOS, CMOSGeometry, APD, APDGeometry, APDCharacteristics, Characteristics, Environment
VIOLATED, DETAIL = False, ''
def mk(kind):
    if kind == 'MKID':
        return MKID(geometry=MKIDGeometry(row=2, col=3, pixel_vert_size=1.0, pixel_horz_size=1.0), environment=Environment(), characteristics=Characteristics())
    if kind == 'CMOS':
        return CMOS(geometry=CMOSGeometry(row=2, col=3, pixel_vert_size=1.0, pixel_horz_size=1.0), environment=Environment(), characteristics=Characteristics())
    if kind == 'APD':
        return APD(geometry=APDGeometry(row=2, col=3, pixel_vert_size=1.0, pixel_horz_size=1.0), environment=Environment(), characteristics=APDCharacteristics(roic_gain=0.8, avalanche_gain=2.0, pixel_reset_voltage=12.0))
    return VP.detector(rows=2, cols=3)
for kind in ('CCD', 'MKID', 'CMOS', 'APD'):
    names = ['photon', 'pixel', 'signal', 'image'] + (['phase'] if kind == 'MKID' else [])
    for r in range(len(names) + 1):
        for subset in itertools.combinations(names, r):
            d = mk(kind)
            for i, n in enumerate(names):
                if n in subset:
                    getattr(d, n).array = (np.full((2, 3), i + 1, dtype=np.uint16) if n == 'image' else np.full((2, 3), i + 1.5))
                else:
                    getattr(d, n)._array = None
            d.charge.add_charge_array(np.full((2, 3), 9.0))
            if r % 2:        # every other detector also holds clusters (the charge array is then the re-binned table)
                d.charge.add_charge(particle_type='e', particles_per_cluster=np.array([5.0, 7.0]), init_energy=np.zeros(2), init_ver_position=np.array([0.5, 1.5]), init_hor_position=np.array([0.5, 2.5]),
                                    init_z_position=np.zeros(2), init_ver_velocity=np.zeros(2), init_hor_velocity=np.zeros(2), init_z_velocity=np.zeros(2))
            before = np.array(d.charge.array); rows = len(d.charge.frame)
            d2 = type(d).from_dict(d.to_dict())
            if not np.array_equal(np.array(d2.charge.array), before) or len(d2.charge.frame) != rows:
                VIOLATED, DETAIL = True, f'{kind}: charge read back sums to {float(np.sum(d2.charge.array))} in {len(d2.charge.frame)} clusters; written {float(before.sum())} in {rows} clusters'
            for n in names + ['charge']:
                a, b = getattr(d, n)._array, getattr(d2, n)._array
                if (a is None) != (b is None) or (a is not None and not np.array_equal(a, b)):
                    VIOLATED, DETAIL = True, f'{kind} with {subset} initialised: container {n} original {None if a is None else a.ravel()[:2]} reloaded {None if b is None else np.asarray(b).ravel()[:2]}'
# the cluster table, every column holding DIFFERENT values, through a real file (the ASDF writer sorts mapping keys) and through the dictionary
import tempfile, pathlib
tmp = pathlib.Path(tempfile.mkdtemp())
for kind in ('CCD', 'CMOS', 'MKID', 'APD'):
    if VIOLATED: break
    d = mk(kind)
    d.pixel.array = np.full((2, 3), 2.5)
    d.charge.add_charge(particle_type='e', particles_per_cluster=np.array([5.0, 7.0, 11.0]), init_energy=np.array([100.0, 200.0, 300.0]), init_ver_position=np.array([0.25, 1.5, 1.75]),
                        init_hor_position=np.array([0.5, 2.5, 1.25]), init_z_position=np.array([0.01, 0.02, 0.03]), init_ver_velocity=np.array([1.0, 2.0, 3.0]), init_hor_velocity=np.array([4.0, 5.0, 6.0]),
                        init_z_velocity=np.array([7.0, 8.0, 9.0]))
    want = d.charge.frame.copy(); arr = np.array(d.charge.array)
    for route in ('dict', 'asdf'):
        if route == 'dict':
            d2 = type(d).from_dict(d.to_dict())
        else:
            f = tmp / f'{kind}.asdf'; d.save(f); d2 = type(d).load(f)
        got = d2.charge.frame
        bad = [c for c in want.columns if c not in got.columns or not np.array_equal(np.asarray(got[c], dtype=float), np.asarray(want[c], dtype=float))]
        if bad or list(got.columns) != list(want.columns) or not np.array_equal(np.array(d2.charge.array), arr):
            VIOLATED, DETAIL = True, f'{kind} through {route}: cluster table columns {bad} differ after the round trip (e.g. number {np.asarray(got["number"]).tolist()} instead of {np.asarray(want["number"]).tolist()}); column order {list(got.columns)[:4]}...'; break
""", "expect": "every container is empty iff the original is and otherwise holds an equal array"}


def mk_full_detector(ex, u, kind):
    """Detector with real property objects and buckets whose presence is symbolic."""
    sub = kind.lower()
    det = D.mk_detector(ex, u, prior="arbitrary", cls_qual=f"{DET}{sub}/{sub}.py::{kind}")
    st = ex.st
    w = u.world
    geo = st.cell(ex.det_parts["geo"])
    gcls = w.cls(f"{DET}{sub}/{sub}_geometry.py::{kind}Geometry")
    geo.cls = gcls
    geo.fields.update({"_total_thickness": NONE, "_pixel_vert_size": NONE, "_pixel_horz_size": NONE, "_pixel_scale": NONE, "_numbytes": VInt(0)})
    env = st.alloc(HObj(w.cls(f"{DET}environment.py::Environment"), {"_temperature": NONE, "_wavelength": NONE, "_numbytes": VInt(0)}))
    if kind == "APD":
        cht = st.alloc(HObj(w.cls(f"{DET}apd/apd_characteristics.py::APDCharacteristics"), {"_roic_gain": VFloat(0.8)}))      # its own round trip: props.roundtrip[APDCharacteristics]
    else:
        cht = st.alloc(HObj(w.cls(f"{DET}characteristics.py::Characteristics"), {k: NONE for k in ("_quantum_efficiency", "_charge_to_volt_conversion", "_pre_amplification",
                                                                                                   "_full_well_capacity", "_adc_bit_resolution", "_adc_voltage_range")}))
    d = st.cell(det)
    d.fields.update({"_environment": env, "_characteristics": cht, "_scene": NONE,
                     "_data": VOpaque("xr", st.fresh_int("data"), {"label": "processed_data", "truthy": True})})
    # the cluster table: any number of rows (empty: the charge array is the stored one; non-empty: Charge.array re-bins the table)
    st.assume(z3.Int("charge_rows") >= 0)
    st.cell(ex.det_parts["charge"]).fields["_frame"] = D.df_obj(ex, z3.Int("charge_rows"))
    ph = D.frame_elem(st, D.bucket_array(st, ex.det_parts["photon"]))
    st.assume(ph >= 0)          # representation invariant of Photon (C13): stored photon counts are never negative
    if kind == "MKID":
        pci = w.cls("pyxel/data_structure/phase.py::Phase")
        phase = ex.instantiate(pci, [ex.det_parts["geo"]], {}, Frame(None, pci.module))
        st.cell(phase).fields["_array"] = D.maybe_frame(ex, "phase0")
        d.fields["_phase"] = phase
        ex.det_parts["phase"] = phase
    return det


def data_unit(kind, qual):
    def un(u: Unit):
        td, fd = u.fn(f"{qual}.to_dict"), u.fn(f"{qual}.from_dict")
        ci = u.cls(qual)
        cfg = D.install(Cfg("real"))
        cfg.contracts["pyxel/util/memory.py::get_size"] = Contract("pyxel/util/memory.py::get_size", lambda ex, args, kwargs, fr: VInt(0), "size bookkeeping")
        cfg.lib_overrides[("getitem", "df")] = lambda ex, obj, idx, fr: obj      # new_frame[previous_frame.columns]: same rows
        base_attr = cfg.lib_overrides[("opaque_attr", "df")]
        CHARGE_COLUMNS = ("charge", "number", "init_energy", "energy", "init_pos_ver", "init_pos_hor", "init_pos_z", "position_ver", "position_hor", "position_z", "velocity_ver", "velocity_hor", "velocity_z")
        # every DataFrame of these units is a cluster table: its columns are the Charge columns (Charge.__init__ builds EMPTY_FRAME with them, create_charges: C14)
        cfg.lib_overrides[("opaque_attr", "df")] = lambda ex, obj, name, fr: VTuple([VStr(c) for c in CHARGE_COLUMNS]) if name == "columns" else base_attr(ex, obj, name, fr)
        if kind == "APD":
            aq = f"{DET}apd/apd_characteristics.py::APDCharacteristics"
            aci = u.cls(aq)
            cfg.contracts[aq + ".to_dict"] = Contract(aq + ".to_dict", lambda ex, args, kwargs, fr: ex.st.alloc(HDict([(VStr("roic_gain"), VFloat(0.8))])), "C18.props.roundtrip[APDCharacteristics]")
            cfg.contracts[aq + ".from_dict"] = Contract(aq + ".from_dict", lambda ex, args, kwargs, fr: ex.st.alloc(HObj(aci, {"_roic_gain": VFloat(0.8)})), "C18.props.roundtrip[APDCharacteristics]")
        buckets = ["photon", "pixel", "signal", "image"] + (["phase"] if kind == "MKID" else [])
        BIN = z3.Function("binned_table", z3.IntSort(), z3.IntSort(), z3.IntSort(), z3.RealSort())      # C14: the array a cluster table bins to
        cq = "pyxel/data_structure/charge.py::Charge.convert_df_to_array"

        def rebin(ex, args, kwargs, fr):
            fr_ = ex.st.cell(args[0]).fields["_frame"]
            return ex.st.alloc(HArr((D.ROWS, D.COLS), VDtype("float64"), lambda ix, t=fr_.info.get("content", fr_.t): VFloat(BIN(t, z_int(ix[0]), z_int(ix[1])))))
        cfg.contracts[cq] = Contract(cq, rebin, "C14.bin.*: the array is a function of the cluster table")
        base_call = cfg.lib_overrides[("call", "xr")]
        # processed data / scene trees are boundaries: their dict form is modelled as empty (not part of these obligations)
        cfg.lib_overrides[("call", "xr")] = lambda ex, f, args, kwargs, fr: ex.st.alloc(HList([])) if str(f.info.get("label", "")).endswith(".items") else base_call(ex, f, args, kwargs, fr)

        def setup(ex):
            det = mk_full_detector(ex, u, kind)
            ex.orig_parts = dict(ex.det_parts)
            return [det], {}
        ps = u.paths(td, setup, cfg, max_paths=600, label=f"{kind}.to_dict", then=lambda ex, v: ex.call_function(VFunc(fd, VClass(ci)), [v], {}, Frame(None, fd.module)))
        n_ok = 0
        for p in ps:
            if p.kind != "return":
                u.oblige(p, f"data.roundtrip[{kind}].to_dict_no_raise", False, {"exc": p.exc_name()}, DATA_REPLAY)
                continue
            orig = p.ex.orig_parts
            if p.ex.then_exc is not None:
                u.oblige(p, f"data.roundtrip[{kind}].from_dict_no_raise", False, {"exc": p.ex.exc_class_name(p.ex.then_exc.val)}, DATA_REPLAY)
                continue
            back = p.ex.then_value
            n_ok += 1
            bf = p.st.cell(back).fields
            for b in buckets:
                o_arr = D.bucket_array(p.st, orig[b])
                n_ref = bf.get("_" + b)
                n_arr = D.bucket_array(p.st, n_ref) if isinstance(n_ref, VRef) else None
                o_empty, n_empty = D.is_empty_bucket(p.st, orig[b]), (D.is_empty_bucket(p.st, n_ref) if isinstance(n_ref, VRef) else True)
                oe, ne = D.frame_elem(p.st, o_arr), (D.frame_elem(p.st, n_arr) if n_arr is not None else None)
                same_val = z3.BoolVal(True) if (oe is None or ne is None) else (oe == ne)
                goal = z3.And(zb(o_empty) == zb(n_empty), z3.Implies(z3.Not(zb(o_empty)), same_val if ne is not None else z3.BoolVal(False)))
                u.oblige(p, f"data.roundtrip[{kind}][{b}]", goal, {}, DATA_REPLAY)
            # charge: what Charge.array reads (the stored array, or the re-binned table when there are clusters) is the same before and
            # after, and the table read back is the table written (same rows)
            of_, nc_ref = p.st.cell(orig["charge"]).fields, bf.get("_charge")
            nf_ = p.st.cell(nc_ref).fields if isinstance(nc_ref, VRef) else {}
            g = D.GEN

            def reads(fields):
                fr_, arr = fields.get("_frame"), D.frame_elem(p.st, fields.get("_array"))
                if not (isinstance(fr_, VOpaque) and fr_.kind == "df") or arr is None:
                    return None
                return z3.If(fr_.info["nrows"] == 0, arr, BIN(fr_.info["content"], g[0], g[1]))
            ro, rn = reads(of_), reads(nf_)
            u.oblige(p, f"data.roundtrip[{kind}][charge]", (ro == rn) if ro is not None and rn is not None else z3.BoolVal(False), {"clusters": z3.Int("charge_rows")}, DATA_REPLAY)
            fo, fn_ = of_.get("_frame"), nf_.get("_frame")
            same_table = isinstance(fo, VOpaque) and isinstance(fn_, VOpaque) and fn_.kind == "df"
            u.oblige(p, f"data.roundtrip[{kind}][cluster table]", z3.And(fn_.info["nrows"] == fo.info["nrows"], z3.Or(fo.info["nrows"] == 0, fn_.info["content"] == fo.info["content"])) if same_table else z3.BoolVal(False),
                     {"clusters": z3.Int("charge_rows")}, DATA_REPLAY)
        if n_ok >= 1:
            u.static(f"data.cover[{kind}]", True, td.qualname, f"{n_ok} complete round trips explored")
        else:        # nothing explored (the unit left the contracts' reach): undecided -- never a violation by itself
            u.undecide(f"data.cover[{kind}]", td.qualname, "vacuity: no complete round trip was explored")
    return un


unit("C18", "data.CCD")(data_unit("CCD", f"{DET}ccd/ccd.py::CCD"))
unit("C18", "data.MKID")(data_unit("MKID", f"{DET}mkid/mkid.py::MKID"))
unit("C18", "data.CMOS")(data_unit("CMOS", f"{DET}cmos/cmos.py::CMOS"))
unit("C18", "data.APD")(data_unit("APD", f"{DET}apd/apd.py::APD"))


# ---- load / save models -----------------------------------------------------------------------------------------------
LOAD_REPLAY = lambda w: {"code": """
import numpy as np, tempfile, os, verif_probes as VP
from pyxel.models import load_detector, save_detector
d = VP.detector(rows=2, cols=3); d.pixel.array = np.full((2, 3), 5.0); d.signal.array = np.full((2, 3), 0.5)
fn = os.path.join(tempfile.mkdtemp(), 'det.asdf')
save_detector(d, fn)
running = VP.detector(rows=2, cols=3); running.pixel.array = np.zeros((2, 3))
load_detector(running, fn)
VIOLATED = not np.array_equal(running.pixel.array, np.full((2, 3), 5.0)) or running.signal._array is None
DETAIL = 'running detector after load_detector: pixel=' + repr(running.pixel.array.ravel()[:2]) + ' signal initialised=' + repr(running.signal._array is not None)
""", "expect": "later models see the loaded state on the running detector"}


@unit("C18", "load_model")
def load_model(u: Unit):
    fi = u.fn("pyxel/models/util.py::load_detector")
    cfg = D.install(Cfg("real"))
    loaded = {}

    def load(ex, args, kwargs, fr):
        keep = ex.det_parts
        d2 = D.mk_detector(ex, u, prior="arbitrary")
        loaded["parts"] = dict(ex.det_parts)
        ex.det_parts = keep
        return d2
    cfg.contracts["pyxel/detectors/detector.py::Detector.load"] = Contract("pyxel/detectors/detector.py::Detector.load", load, "reads a detector of arbitrary content from the file (C18 round trip)")
    cfg.lib_overrides[("objdict",)] = True

    def setup(ex):
        det = D.mk_detector(ex, u, prior="arbitrary")
        ex.running = dict(ex.det_parts)
        return [det, VStr(z3.String("filename"))], {}
    ps = u.paths(fi, setup, cfg, label="load_detector")
    for p in ps:
        if p.kind != "return":
            continue
        run_det = p.st.cell(p.ex.running["det"]).fields
        lp = loaded["parts"]
        for b in ("photon", "pixel", "signal", "image", "charge"):
            cur = run_det.get("_" + b)
            cur_arr = p.st.cell(cur).fields.get("_array") if isinstance(cur, VRef) else None
            want = p.st.cell(lp[b]).fields.get("_array")
            u.oblige(p, f"load_model.effect[{b}]", bool(cur_arr is want), {}, LOAD_REPLAY)
    u.cover("load_model.cover", ps, lambda p: p.kind == "return")
    fs_ = u.fn("pyxel/models/util.py::save_detector")
    from . import defuse as DU
    sv = [c for c in DU.calls(fs_.node, "save") if DU.norm(fs_.node, c.func) == "detector.save"]
    arg = (DU.pos_args(fs_.node, sv[0]) or [DU.kw_args(fs_.node, sv[0]).get("filename")])[0] if len(sv) == 1 else None
    u.static("save_model", len(sv) == 1 and arg == "filename", fs_.qualname, f"save_detector writes detector.save(filename): argument {arg}")


@unit("C18", "dispatch")
def dispatch(u: Unit):
    fsave, fload, ffd = (u.fn(f"{DET}detector.py::Detector.{n}") for n in ("save", "load", "from_dict"))
    s_save, s_load, s_fd = (ast.unparse(f.node) for f in (fsave, fload, ffd))
    u.static("dispatch.save", ".asdf" in s_save and "to_asdf" in s_save and (".h5" in s_save or ".hdf5" in s_save) and "to_hdf5" in s_save and "raise ValueError" in s_save, fsave.qualname,
             "save: .asdf -> to_asdf, .h5/.hdf5 -> to_hdf5, other extensions refused")
    u.static("dispatch.load", "from_asdf" in s_load and "from_hdf5" in s_load and "raise ValueError" in s_load, fload.qualname, "load: by extension, other extensions refused")
    kinds = {"CCD": "CCD", "CMOS": "CMOS", "MKID": "MKID", "APD": "APD"}
    u.static("dispatch.from_dict", all(f"'{k}'" in s_fd or f'"{k}"' in s_fd for k in kinds) and "from_dict" in s_fd, ffd.qualname, "Detector.from_dict dispatches on the 'type' entry to the four detector classes")
    for kind, path in (("CCD", "ccd/ccd.py"), ("CMOS", "cmos/cmos.py"), ("MKID", "mkid/mkid.py"), ("APD", "apd/apd.py")):
        td = u.fn(f"{DET}{path}::{kind}.to_dict")
        fd = u.fn(f"{DET}{path}::{kind}.from_dict")
        keys_w = set(k.value for n in ast.walk(td.node) if isinstance(n, ast.Dict) for k in n.keys if isinstance(k, ast.Constant))
        src_r = ast.unparse(fd.node)
        need = {"photon", "pixel", "signal", "image", "charge", "scene", "data"} | ({"phase"} if kind == "MKID" else set())
        missing_w = sorted(need - keys_w)
        missing_r = sorted(k for k in need if f"'{k}'" not in src_r and f'"{k}"' not in src_r)
        u.static(f"dispatch.containers[{kind}]", not missing_w and not missing_r, td.qualname, f"{kind}: containers not written {missing_w}, not read back {missing_r}",
                 witness={"kind": kind, "not_read": missing_r}, replay=DATA_REPLAY)


APD_REPLAY = lambda w: {"code": """
from pyxel.detectors import APDCharacteristics
c = APDCharacteristics(roic_gain=0.8, avalanche_gain=10.0, pixel_reset_voltage=5.0)
c.avalanche_gain = 20.0
c2 = APDCharacteristics.from_dict(c.to_dict())
VIOLATED = abs(c2.avalanche_gain - c.avalanche_gain) > 1e-9 or abs(c2.common_voltage - c.common_voltage) > 1e-9
DETAIL = f'after avalanche_gain = 20: saved/loaded gain {c2.avalanche_gain} (was {c.avalanche_gain}), common voltage {c2.common_voltage} (was {c.common_voltage})'
""", "expect": "values changed through the APD setters survive a save/load"}


@unit("C18", "props.APD")
def props_apd(u: Unit):
    """APDCharacteristics.to_dict must save the CURRENT gain / voltages (two of the three determine the third)."""
    q = f"{DET}apd/apd_characteristics.py::APDCharacteristics"
    td = u.fn(f"{q}.to_dict")
    ci = u.cls(q)
    cur = {k: z3.Real("cur" + k) for k in ("_avalanche_gain", "_pixel_reset_voltage", "_common_voltage")}
    org = {k: z3.Real("orig" + k) for k in cur}

    def setup(ex):
        f = {k: VFloat(v) for k, v in cur.items()}
        f.update({"_original" + k: VFloat(v) for k, v in org.items()})
        f.update({"_quantum_efficiency": NONE, "_full_well_capacity": NONE, "_adc_voltage_range": NONE, "_adc_bit_resolution": NONE, "_roic_gain": VFloat(z3.Real("roic"))})
        return [ex.st.alloc(HObj(ci, f))], {}
    for p in u.paths(td, setup, Cfg("real"), label="APDCharacteristics.to_dict"):
        if p.kind != "return":
            continue
        d = {k.v: v for k, v in p.st.cell(p.value).items}
        conds = []
        for key, fld in (("avalanche_gain", "_avalanche_gain"), ("pixel_reset_voltage", "_pixel_reset_voltage"), ("common_voltage", "_common_voltage")):
            v = d.get(key)
            conds.append(z3.BoolVal(True) if isinstance(v, VNone) else (to_real(v) == cur[fld]) if v is not None else z3.BoolVal(False))
        u.oblige(p, "props.roundtrip[APDCharacteristics:after_setter]", z3.And(*conds), {}, APD_REPLAY)


# ---- load_detector in a history: load, later steps modify the running detector, load again ---------------------------------
HISTORY_REPLAY = lambda w: {"code": """
import numpy as np, tempfile, os, verif_probes as VP
from pyxel.models import load_detector, save_detector
d = VP.detector(rows=2, cols=3); d.pixel.array = np.full((2, 3), 5.0); d.charge.add_charge_array(np.full((2, 3), 3.0))
fn = os.path.join(tempfile.mkdtemp(), 'det.asdf')
save_detector(d, fn)
running = VP.detector(rows=2, cols=3)
load_detector(running, fn)
running.empty()                                   # what the next readout step does
running.pixel.array = np.full((2, 3), 9.0)        # ... and what a later model does
load_detector(running, fn)
ok = np.array_equal(running.pixel.array, np.full((2, 3), 5.0)) and np.array_equal(running.charge.array, np.full((2, 3), 3.0))
VIOLATED = not ok
DETAIL = 'second load of the unchanged file: pixel=' + repr(running.pixel.array.ravel()[:2]) + ' charge=' + repr(running.charge.array.ravel()[:2]) + ' (file holds 5.0 / 3.0)'
""", "expect": "every load of an unchanged file gives the file's state, whatever happened to the running detector in between"}


@unit("C18", "load_model.history")
def load_history(u: Unit):
    """load_detector ; detector.empty() ; load_detector  (same unchanged file): after the second load the running detector
    holds the FILE's pixel and charge content again. Detector.load is a contract (content = a function of the file);
    functools caches are library contracts (a hit returns the same object). BOUNDED in the history length."""
    from pyvc.front import FunctionInfo
    from . import fsmodel
    fl = u.fn("pyxel/models/util.py::load_detector")
    src = ("def _history(detector, filename):\n"
           "    load_detector(detector, filename)\n"
           "    detector.empty()\n"
           "    load_detector(detector, filename)\n")
    drv = FunctionInfo(fl.module, ast.parse(src).body[0], None)
    cfg = D.install(Cfg("real"))
    fsmodel.install(cfg)
    cfg.lib_overrides[("objdict",)] = True
    FILE = {b: z3.Function(f"file_{b}", z3.IntSort(), z3.IntSort(), z3.RealSort()) for b in ("pixel", "charge")}

    def load(ex, args, kwargs, fr):
        keep = ex.det_parts
        d2 = D.mk_detector(ex, u, prior="arbitrary")
        for b in ("pixel", "charge"):
            ex.st.cell(ex.det_parts[b]).fields["_array"] = ex.st.alloc(HArr((D.ROWS, D.COLS), VDtype("float64"), lambda ix, f=FILE[b]: VFloat(f(z_int(ix[0]), z_int(ix[1])))))
        ex.st.cell(ex.det_parts["charge"]).fields["_frame"] = D.df_obj(ex, z3.IntVal(0))
        ex.det_parts = keep
        return d2
    cfg.contracts["pyxel/detectors/detector.py::Detector.load"] = Contract("pyxel/detectors/detector.py::Detector.load", load, "a NEW detector holding the file's content (C18 round trip)")
    for q in ("pyxel/util/__init__.py::resolve_with_working_directory", "pyxel/util/fileutil.py::resolve_with_working_directory", "pyxel/options.py::resolve_with_working_directory"):
        cfg.contracts[q] = Contract(q, lambda ex, args, kwargs, fr: (args[0] if args else kwargs.get("filename")), "path resolution: identity here")

    def setup(ex):
        det = D.mk_detector(ex, u, prior="arbitrary")
        ex.running = dict(ex.det_parts)
        fn = VStr(z3.String("filename"))
        ex.st.assume(z3.Select(fsmodel.fs(ex), fn.v) != 0)      # the file exists
        return [det, fn], {}
    ps = u.paths(drv, setup, cfg, label="load ; empty ; load")
    n_ret = 0
    for p in ps:
        if p.kind != "return":
            continue
        n_ret += 1
        run_det = p.st.cell(p.ex.running["det"]).fields
        for b in ("pixel", "charge"):
            cur = run_det.get("_" + b)
            arr = p.st.cell(cur).fields.get("_array") if isinstance(cur, VRef) else None
            got = D.frame_elem(p.st, arr)
            present = True
            if isinstance(arr, VMaybe):
                present = arr.present
            u.oblige(p, f"load_model.history[{b}]", z3.And(zb(present), got == FILE[b](*D.GEN)) if got is not None else False, {}, HISTORY_REPLAY)
    u.cover("load_model.history.cover", [1] * n_ret, lambda _: True)


# ---- the ASDF writer hands the library EVERYTHING the detector's dictionary holds -----------------------------------------
ASDF_REPLAY = lambda w: {"code": """
import numpy as np, tempfile, os, xarray as xr, verif_probes as VP
from pyxel.detectors import Detector
VIOLATED, DETAIL = False, 'every group of the processed-data tree survived the ASDF round trip'
d = VP.detector(rows=2, cols=3); d.pixel.array = np.full((2, 3), 5.0)
tree = xr.DataTree()
tree['/statistics'] = xr.DataTree(xr.Dataset(coords={'y': [0, 1], 'x': [0, 1, 2]}))                    # a group holding coordinates only
tree['/statistics/pixel'] = xr.DataTree(xr.Dataset({'mean': ('y', [1.0, 2.0])}))
tree['/linear_regression/todo'] = xr.DataTree(xr.Dataset())                                            # an empty leaf group
d._data = tree
fn = os.path.join(tempfile.mkdtemp(), 'det.asdf')
d.save(fn)
d2 = Detector.load(fn)
want = sorted(n.path for n in tree.subtree)
got = sorted(n.path for n in d2.data.subtree)
if want != got or not d2.data.equals(tree):
    VIOLATED, DETAIL = True, f'processed-data groups written {want}, read back {got}; equal trees: {d2.data.equals(tree)}'
""", "expect": "every group of detector.data (with or without variables) is written and read back"}


@unit("C18", "asdf.writer")
def asdf_writer(u: Unit):
    """to_asdf(filename, dct): the dictionary handed to asdf.AsdfFile still holds every entry of the detector's dictionary; the
    cluster table is replaced by its list form and EVERY group of the processed-data mapping by its dict form (whatever the
    group contains: the truth value of a Dataset is unknown here); the file is written under the given name.
    Processed-data mappings of two groups (bounded), symbolic contents."""
    fi = u.fn("pyxel/backends/asdf.py::to_asdf")
    cfg = Cfg("real")
    boundary.install(cfg, prefixes=("xarray.", "dask.", "tqdm.", "pandas.", "asdf."))
    base_attr = cfg.lib_overrides[("opaque_attr", "xr")]

    def setup(ex):
        st = ex.st
        o = lambda l: VOpaque("xr", st.fresh_int("xr"), {"label": l})
        h = ex.hold = {"df": o("charge_frame"), "g1": o("group1"), "g2": o("group2"), "props": o("properties"), "pix": o("pixel_dict"), "fn": VStr(z3.String("filename"))}
        k1, k2 = VStr(z3.String("group_key1")), VStr(z3.String("group_key2"))
        st.assume(k1.v != k2.v)
        h["k1"], h["k2"] = k1, k2
        data = st.alloc(HDict([(VStr("charge"), st.alloc(HDict([(VStr("frame"), h["df"]), (VStr("array"), o("charge_array"))]))), (VStr("pixel"), h["pix"]),
                               (VStr("data"), st.alloc(HDict([(k1, h["g1"]), (k2, h["g2"])])))]))
        h["data"] = data
        dct = st.alloc(HDict([(VStr("version"), VInt(1)), (VStr("type"), VStr("CCD")), (VStr("properties"), h["props"]), (VStr("data"), data)]))
        h["dct"] = dct
        return [], {"filename": h["fn"], "dct": dct}
    ps = u.paths(fi, setup, cfg, label="to_asdf")
    n_ret = 0
    for p in ps:
        if p.kind != "return":
            u.oblige(p, "asdf.writer.no_raise", False, {"exc": p.exc_name()}, ASDF_REPLAY)
            continue
        n_ret += 1
        h, st = p.ex.hold, p.st
        files = [e for e in st.events if e[0] == "lib_call" and e[1].endswith("AsdfFile")]
        writes = [e for e in st.events if e[0] == "xr_call" and str(e[1]).endswith("write_to")]
        ok = len(files) == 1 and files[0][2] and files[0][2][0] is h["dct"] and len(writes) == 1 and writes[0][2] and writes[0][2][0] is h["fn"]
        u.oblige(p, "asdf.writer.whole_dictionary_under_the_given_name", bool(ok), {}, ASDF_REPLAY)
        top = {k.v: v for k, v in st.cell(h["dct"]).items}
        data = {k.v: v for k, v in st.cell(h["data"]).items} if top.get("data") is h["data"] else {}
        u.oblige(p, "asdf.writer.other_entries_untouched", bool(top.get("properties") is h["props"] and isinstance(top.get("version"), VInt) and top["version"].v == 1
                                                              and data.get("pixel") is h["pix"] and set(top) == {"version", "type", "properties", "data"}), {}, ASDF_REPLAY)
        groups = p.ex.try_dict(data.get("data")) if isinstance(data.get("data"), VRef) else None
        okg = groups is not None and len(groups) == 2
        if okg:
            for (k, v), key, src in zip(groups, (h["k1"], h["k2"]), (h["g1"], h["g2"])):
                okg = okg and z3.eq(z_str(k.v), z_str(key.v)) and isinstance(v, VOpaque) and v.info.get("fn") is not None and str(v.info["fn"].info.get("attr")) == "to_dict" and v.info["fn"].info.get("of") is src
        u.oblige(p, "asdf.writer.every_processed_data_group_written", bool(okg), {"groups": len(groups) if groups is not None else -1}, ASDF_REPLAY)
        ch = p.ex.try_dict(data.get("charge")) if isinstance(data.get("charge"), VRef) else None
        fr_ = dict((k.v, v) for k, v in ch).get("frame") if ch else None
        okf = isinstance(fr_, VOpaque) and fr_.info.get("fn") is not None and str(fr_.info["fn"].info.get("attr")) == "to_dict" and fr_.info["fn"].info.get("of") is h["df"]
        u.oblige(p, "asdf.writer.cluster_table_in_list_form", bool(okf), {}, ASDF_REPLAY)
    u.cover("asdf.writer.cover", [1] * n_ret, lambda _: True)


# ---- multi-wavelength photon cube: Photon.to_dict / Photon.from_dict ------------------------------------------------------------------
CUBE_REPLAY = lambda w: {"code": """
import numpy as np, xarray as xr, verif_probes as VP
from pyxel.data_structure import Photon
VIOLATED, DETAIL = False, 'the photon cube read back equals the one written (values and wavelength order)'
for wl in ([500.0, 600.0, 700.0], [900.0, 700.0, 500.0], [650.0, 420.0, 800.0]):
    det = VP.detector(rows=2, cols=3)
    cube = xr.DataArray(np.arange(18, dtype=float).reshape(3, 2, 3), dims=['wavelength', 'y', 'x'], coords={'wavelength': wl})
    det.photon.array_3d = cube
    back = Photon.from_dict(geometry=det.geometry, data=det.photon.to_dict())
    got = back.array_3d
    if list(got['wavelength'].values) != wl or not np.array_equal(got.values, cube.values) or not (back == det.photon):
        VIOLATED, DETAIL = True, f'wavelengths {wl} read back as {list(got["wavelength"].values)}; first plane {got.values[0].ravel()[:3].tolist()} (written {cube.values[0].ravel()[:3].tolist()})'; break
""", "expect": "Photon.from_dict(Photon.to_dict(p)) holds the same cube, in the same wavelength order"}


@unit("C18", "photon3d")
def photon3d_unit(u: Unit):
    """Photon.to_dict / from_dict for a multi-wavelength cube (an abstract xarray.DataArray, as in C13): the dictionary handed to
    DataArray.from_dict is, key for key and value for value, the one DataArray.to_dict produced (the '/' <-> '#' renaming of keys
    undone), and the container ends up holding that array itself (copies only) — library contract: from_dict(to_dict(a)) equals a;
    any OTHER DataArray method between reading and storing yields an array that is not known to equal it."""
    from . import C13
    PH = "pyxel/data_structure/photon.py"
    td, fd = u.fn(f"{PH}::Photon.to_dict"), u.fn(f"{PH}::Photon.from_dict")
    u.fn(f"{PH}::Photon.array_3d.setter") if False else None
    pci = u.cls(f"{PH}::Photon")
    cfg = C13.mk_cfg()
    base_attr = cfg.lib_overrides[("opaque_attr", "DataArray")]

    def attr(ex, obj, name, fr):
        if name == "to_dict":
            return VLib("xr.DataArray.to_dict", obj)
        try:
            return base_attr(ex, obj, name, fr)
        except Unsupported:
            return VLib("xr.DataArray.<other>", obj)      # sortby, transpose, isel, roll, ...: some other array
    cfg.lib_overrides[("opaque_attr", "DataArray")] = attr

    def to_dict(ex, f, args, kwargs, fr):
        src = f.self_val
        items = [(VStr("dims"), VOpaque("xr", ex.st.fresh_int("v"), {"label": "dims"})), (VStr("coords/wavelength"), VOpaque("xr", ex.st.fresh_int("v"), {"label": "coords"})),
                 (VStr("data"), VOpaque("xr", ex.st.fresh_int("v"), {"label": "data"})), (VStr("attrs"), VOpaque("xr", ex.st.fresh_int("v"), {"label": "attrs"}))]
        ex.hold["to_dict"] = (src, items)
        return ex.st.alloc(HDict(list(items)))

    def from_dict(ex, f, args, kwargs, fr):
        d = ex.try_dict(args[0]) if args else None
        src, items = ex.hold.get("to_dict", (None, []))
        same = d is not None and len(d) == len(items) and all(isinstance(k, VStr) and is_conc(k.v) and k.v == k0.v and v is v0 for (k, v), (k0, v0) in zip(d, items))
        ex.hold["from_dict_same"] = bool(same)
        info = dict(src.info) if same else dict(C13.mk_xr(ex, "loaded").info)
        info["content_of"] = src if same else None
        return VOpaque("DataArray", ex.st.fresh_int("xr"), info)

    def other(ex, f, args, kwargs, fr):
        info = dict(f.self_val.info)
        info["content_of"] = None
        info["nonneg"] = ex.st.fresh_bool("nonneg")
        return VOpaque("DataArray", ex.st.fresh_int("xr"), info)

    def copy(ex, f, args, kwargs, fr):
        info = dict(f.self_val.info)
        info.setdefault("content_of", f.self_val)
        if info.get("content_of") is None and "content_of" in f.self_val.info:
            info["content_of"] = None
        return VOpaque("DataArray", ex.st.fresh_int("xr"), info)
    cfg.lib_overrides["xr.DataArray.to_dict"] = to_dict
    cfg.lib_overrides["xarray.DataArray.from_dict"] = from_dict
    cfg.lib_overrides["xr.DataArray.<other>"] = other
    cfg.lib_overrides["xr.DataArray.copy"] = copy
    cfg.lib_overrides[("isinstance", "DataArray")] = lambda ex, v, libs, clss: VBool("xarray.DataArray" in libs)

    def setup(ex):
        ex.hold = {}
        geo = C13.mk_geo(ex, u)
        ex.geo = geo
        cube = C13.mk_xr(ex, "cube", valid=True, nonneg=z3.BoolVal(True))      # what a Photon container can hold (C13)
        ex.st.assume(cube.info["has_wl"])
        ex.cube = cube
        ph = ex.instantiate(pci, [], {"geo": geo}, Frame(None, pci.module))
        ex.st.cell(ph).fields["_array"] = cube
        return [ph], {}
    ps = u.paths(td, setup, cfg, label="Photon.to_dict[3-D]", then=lambda ex, v: ex.call_function(VFunc(fd, VClass(pci)), [], {"geometry": ex.geo, "data": v}, Frame(None, fd.module)))
    n_ok = 0
    for p in ps:
        if p.kind != "return":
            u.oblige(p, "photon3d.to_dict_no_raise", False, {"exc": p.exc_name()}, CUBE_REPLAY)
            continue
        if p.ex.then_exc is not None:
            u.oblige(p, "photon3d.from_dict_no_raise", False, {"exc": p.ex.exc_class_name(p.ex.then_exc.val)}, CUBE_REPLAY)
            continue
        back = p.ex.then_value
        n_ok += 1
        u.oblige(p, "photon3d.dictionary_read_is_the_dictionary_written", bool(p.ex.hold.get("from_dict_same")), {}, CUBE_REPLAY)
        got = p.st.cell(back).fields.get("_array") if isinstance(back, VRef) else None
        node, hops = got, 0
        while isinstance(node, VOpaque) and node is not p.ex.cube and node.info.get("content_of") is not None and hops < 6:
            node, hops = node.info["content_of"], hops + 1
        u.oblige(p, "photon3d.container_holds_the_cube_written", node is p.ex.cube, {"stored": str(got)}, CUBE_REPLAY)
    u.guard("photon3d.cover", n_ok >= 1, td.qualname, f"{n_ok} round trips explored")


# ---- the ASDF reader: Detector.from_asdf / backends.from_asdf --------------------------------------------------------------------------
@unit("C18", "asdf.reader")
def asdf_reader(u: Unit):
    """Detector.from_asdf -> backends.from_asdf (a generator-based context manager) -> cls.from_dict: the mapping handed to from_dict
    carries the file's OWN 'type', 'properties' and 'data' entries (same objects), version 1, and the cluster table rebuilt as
    pandas.DataFrame(<the file's data/charge/frame entry>); a file without version / type, or with another version, is refused and
    nothing is built. asdf.open(filename) is the boundary: a mapping with the entries the writer stored (unit asdf.writer)."""
    fi = u.fn(f"{DET}detector.py::Detector.from_asdf")
    u.fn("pyxel/backends/asdf.py::from_asdf")
    dci = u.cls(f"{DET}ccd/ccd.py::CCD")
    for case in ("ok", "no_version", "version_2", "no_type"):
        cfg = Cfg("real")
        boundary.install(cfg)

        def from_dict(ex, args, kwargs, fr):
            ex.hold["built_from"] = args[1] if len(args) > 1 else kwargs.get("dct")
            return VOpaque("xr", ex.st.fresh_int("det"), {"label": "detector"})
        for cq in (f"{DET}ccd/ccd.py::CCD.from_dict", f"{DET}detector.py::Detector.from_dict"):
            cfg.contracts[cq] = Contract(cq, from_dict, "data.* / props.* round trips")

        def asdf_open(ex, f, args, kwargs, fr):
            ex.hold["opened"] = args[0] if args else kwargs.get("fd")
            return VOpaque("asdf_file", None, {"tree": ex.hold["tree"]})
        cfg.lib_overrides["asdf.open"] = asdf_open

        def with_file(ex, cm, item, body, fr):
            if item.optional_vars is not None:
                ex.assign(item.optional_vars, cm.info["tree"], fr)
            ex.exec_block(body, fr)
        cfg.lib_overrides[("with", "asdf_file")] = with_file

        def data_frame(ex, f, args, kwargs, fr):
            return VOpaque("xr", ex.st.fresh_int("df"), {"label": "pandas.DataFrame()", "args": list(args)})
        cfg.lib_overrides["pandas.DataFrame"] = data_frame

        def setup(ex, case=case):
            st = ex.st
            h = ex.hold = {}
            mk = lambda name: VOpaque("xr", st.fresh_int(name), {"label": name})
            h["frame"] = mk("file.data.charge.frame")
            h["charge"] = st.alloc(HDict([(VStr("array"), mk("file.data.charge.array")), (VStr("frame"), h["frame"])]))
            h["data"] = st.alloc(HDict([(VStr("photon"), mk("file.data.photon")), (VStr("charge"), h["charge"]), (VStr("pixel"), mk("file.data.pixel"))]))
            h["properties"] = mk("file.properties")
            items = [(VStr("version"), VInt(2 if case == "version_2" else 1)), (VStr("type"), VStr("CCD")), (VStr("properties"), h["properties"]), (VStr("data"), h["data"])]
            if case == "no_version":
                items = items[1:]
            if case == "no_type":
                items = [it for it in items if it[0].v != "type"]
            h["tree"] = st.alloc(HDict(items))
            h["filename"] = VStr(z3.String("filename"))
            return [VClass(dci)], {"filename": h["filename"]}
        ps = u.paths(fi, setup, cfg, label=f"Detector.from_asdf[{case}]")
        for p in ps:
            h = p.ex.hold
            if case != "ok":
                want = {"no_version": "ValueError", "no_type": "ValueError", "version_2": "NotImplementedError"}[case]
                u.oblige(p, f"asdf.reader.refuses[{case}]", p.kind == "raise" and p.exc_name() == want and "built_from" not in h, {"exc": p.exc_name()}, DATA_REPLAY)
                continue
            if p.kind != "return":
                u.oblige(p, "asdf.reader.no_raise", False, {"exc": p.exc_name(), "msg": str(p.st.cell(p.value).fields.get("args"))[:200]}, DATA_REPLAY)
                continue
            d = p.ex.try_dict(h.get("built_from")) if h.get("built_from") is not None else None
            got = {k.v: v for k, v in d} if d is not None else {}
            # the data mapping may be the file's own or a copy of it: what counts is entry-wise identity
            file_data = {k.v: v for k, v in p.ex.try_dict(h["data"])}
            got_data = {k.v: v for k, v in (p.ex.try_dict(got.get("data")) or [])} if isinstance(got.get("data"), VRef) else {}
            same_entries = set(got_data) == set(file_data) and all(got_data[k] is file_data[k] or (k == "charge" and isinstance(got_data[k], VRef)) for k in file_data)
            ok = (h.get("opened") is h["filename"] and set(got) == {"version", "type", "properties", "data"} and isinstance(got["version"], VInt) and got["version"].v == 1
                  and isinstance(got["type"], VStr) and got["type"].v == "CCD" and got["properties"] is h["properties"] and same_entries)
            u.oblige(p, "asdf.reader.hands_over_the_files_own_entries", bool(ok), {"keys": str(sorted(got))}, DATA_REPLAY)
            ch = p.ex.try_dict(got_data.get("charge")) if isinstance(got_data.get("charge"), VRef) else None
            arr_now = dict((k.v, v) for k, v in ch).get("array") if ch is not None else None
            u.oblige(p, "asdf.reader.charge_array_is_the_files", arr_now is dict((k.v, v) for k, v in p.ex.try_dict(h["charge"])).get("array") if ch is not None else False, {}, DATA_REPLAY)
            fr_now = dict((k.v, v) for k, v in ch).get("frame") if ch is not None else None
            okf = isinstance(fr_now, VOpaque) and fr_now.info.get("label") == "pandas.DataFrame()" and len(fr_now.info.get("args", [])) == 1 and fr_now.info["args"][0] is h["frame"]
            u.oblige(p, "asdf.reader.cluster_table_rebuilt_from_the_files_table", bool(okf), {}, DATA_REPLAY)
        u.cover(f"asdf.reader.cover[{case}]", ps, lambda p, case=case: p.kind == ("return" if case == "ok" else "raise"))


# ---- construction of the four detector types: every container exists, is of its own class and is built on THE detector's geometry ---------
DETCTOR_REPLAY = lambda w: {"code": """
import numpy as np
from pyxel.detectors import CCD, CCDGeometry, CMOS, CMOSGeometry, MKID, MKIDGeometry, APD, APDGeometry, Characteristics, APDCharacteristics, Environment
from pyxel.data_structure import Photon, Charge, Pixel, Signal, Image, Phase, Scene
VIOLATED, DETAIL = False, 'a new detector holds its own geometry / environment / characteristics and one empty container of each kind on that geometry'
for cls, geo, ch in ((CCD, CCDGeometry(row=3, col=4), Characteristics()), (CMOS, CMOSGeometry(row=5, col=2), Characteristics()), (MKID, MKIDGeometry(row=2, col=6), Characteristics()),
                     (APD, APDGeometry(row=4, col=4), APDCharacteristics(roic_gain=0.8, avalanche_gain=2.0, pixel_reset_voltage=12.0))):
    env = Environment(temperature=123.0)
    d = cls(geometry=geo, environment=env, characteristics=ch)
    kinds = {'photon': Photon, 'charge': Charge, 'pixel': Pixel, 'signal': Signal, 'image': Image, 'scene': Scene}
    if cls is MKID: kinds['phase'] = Phase
    bad = [k for k, t in kinds.items() if type(getattr(d, k)) is not t]
    shapes = {k: tuple(getattr(d, k).shape) for k in ('pixel', 'signal', 'image') + (('phase',) if cls is MKID else ())}
    if d.geometry is not geo or d.environment is not env or d.characteristics is not ch or bad or any(s != (geo.row, geo.col) for s in shapes.values()) or d._readout_properties is not None \\
            or d.has_persistence() or d._memory != {} or not np.array_equal(d.charge.array, np.zeros((geo.row, geo.col))):
        VIOLATED, DETAIL = True, f'{cls.__name__}: wrong container kinds {bad}, shapes {shapes}, own parts kept: {d.geometry is geo, d.environment is env, d.characteristics is ch}'; break
""", "expect": "detector constructors keep their three parts and create every container of the type on the detector's own geometry"}


@unit("C18", "ctor.detectors")
def detector_ctors(u: Unit):
    """CCD / CMOS / MKID / APD.__init__ (with Detector.__init__ and _initialize inlined; the container constructors are contracts that
    record the class and the geometry they are given): the three parts are the given objects; scene, photon, charge, pixel, signal, image
    (MKID: and phase) are fresh containers of THEIR class built on the detector's own geometry object; no readout clock, no persistence,
    empty memory."""
    DSQ = "pyxel/data_structure/"
    kinds = {"_photon": ("photon.py", "Photon"), "_charge": ("charge.py", "Charge"), "_pixel": ("pixel.py", "Pixel"), "_signal": ("signal.py", "Signal"), "_image": ("image.py", "Image"),
             "_scene": ("scene.py", "Scene"), "_phase": ("phase.py", "Phase")}
    for det, path in (("CCD", "ccd/ccd.py"), ("CMOS", "cmos/cmos.py"), ("MKID", "mkid/mkid.py"), ("APD", "apd/apd.py")):
        fi = u.fn(f"{DET}{path}::{det}.__init__")
        u.fn(f"{DET}detector.py::Detector.__init__")
        u.fn(f"{DET}detector.py::Detector._initialize")
        ci = u.cls(f"{DET}{path}::{det}")
        cfg = Cfg("real")
        boundary.install(cfg)
        rec = u.track({})
        for fld, (mod, cname) in kinds.items():
            q = f"{DSQ}{mod}::{cname}.__init__"
            cfg.contracts[q] = Contract(q, lambda ex, args, kwargs, fr, cname=cname, rec=rec: (rec.setdefault("built", []).append((cname, args[0], dict(kwargs), list(args[1:]))), NONE)[1], f"{cname}(geo): an empty container on that geometry (C13)")
        for gq in ("pyxel/util/memory.py::get_size", "pyxel/util/__init__.py::get_size"):
            cfg.contracts[gq] = Contract(gq, lambda ex, args, kwargs, fr: VInt(ex.st.fresh_int("numbytes")), "size bookkeeping (pympler)")
        cfg.lib_overrides["repo:pyxel.util.get_size"] = lambda ex, f, args, kwargs, fr: VInt(ex.st.fresh_int("numbytes"))

        def setup(ex, rec=rec):
            rec.clear()
            h = ex.hold = {k: VOpaque("xr", None, {"label": k, "truthy": True}) for k in ("geometry", "environment", "characteristics")}
            me = ex.st.alloc(HObj(ci, {}))
            ex.me = me
            return [me], dict(h)
        ps = u.paths(fi, setup, cfg, label=f"{det}.__init__")
        want = ["_scene", "_photon", "_charge", "_pixel", "_signal", "_image"] + (["_phase"] if det == "MKID" else [])
        for p in ps:
            if p.kind != "return":
                u.oblige(p, f"ctor.detectors[{det}].returns", False, {"exc": p.exc_name()}, DETCTOR_REPLAY)
                continue
            f, h = p.st.cell(p.ex.me).fields, p.ex.hold
            parts = f.get("_geometry") is h["geometry"] and f.get("_environment") is h["environment"] and f.get("_characteristics") is h["characteristics"]
            built = {id_: (cname, kw, rest) for cname, id_, kw, rest in [(c, a.addr if isinstance(a, VRef) else None, k, r) for c, a, k, r in rec.get("built", [])]}
            ok, detail = True, {}
            for fld in want:
                v = f.get(fld)
                b = built.get(v.addr) if isinstance(v, VRef) else None
                cname = kinds[fld][1]
                good = b is not None and b[0] == cname and (cname == "Scene" or (b[1].get("geo") is h["geometry"] and not b[2]) or (b[2][:1] == [h["geometry"]] and not b[1]))
                good = good and isinstance(v, VRef) and getattr(p.st.cell(v).cls, "name", None) == cname
                ok = ok and good
                if not good:
                    detail[fld] = "missing or not a %s on the detector's geometry" % cname
            once = len(rec.get("built", [])) == len(want) and len({id(x) for x in [f.get(k) for k in want]}) == len(want)
            rest = isinstance(f.get("_readout_properties"), VNone) and isinstance(f.get("_persistence"), VNone) and p.ex.try_dict(f.get("_memory")) == [] and (det == "MKID" or "_phase" not in f or isinstance(f.get("_phase"), VNone))
            u.oblige(p, f"ctor.detectors[{det}].keeps_its_parts", bool(parts), {}, DETCTOR_REPLAY)
            u.oblige(p, f"ctor.detectors[{det}].one_container_of_each_kind_on_its_geometry", bool(ok and once), dict(detail, built=str([b[0] for b in rec.get("built", [])])), DETCTOR_REPLAY)
            u.oblige(p, f"ctor.detectors[{det}].no_clock_no_memory", bool(rest), {}, DETCTOR_REPLAY)
        u.cover(f"ctor.detectors.cover[{det}]", ps, lambda p: p.kind == "return")


# bounded native audits run in every tier: the ASDF round trip of the four detector types (file encoding is asdf / numpy: outside the contracts)
AUDITS = {"asdf.roundtrip": lambda w: dict(DATA_REPLAY({}), bound="the detector types and container subsets of the scenario", function="pyxel/detectors/detector.py"),
          "load_detector.history": lambda w: dict(HISTORY_REPLAY({}), bound="one save, two loads with a reset and a model in between", function="pyxel/models/load_detector.py")}
