"""Ghost TRACE of model invocations and the modular contracts of the pipeline call chain.

TRACE : Seq(Event), Event = (model reference, detector reference). It is appended only by the contract of
ModelFunction.__call__ (the single point where a user model function is invoked). Spec functions:
  filt(ms, en, k)  : the enabled models among the first k entries of the user's list ms, order kept
  evs(F, d, k)     : the events of the first k models of F on detector d
"""
from __future__ import annotations

import ast

from .common import *  # noqa: F401,F403

MG = "pyxel/pipelines/model_group.py"
MF = "pyxel/pipelines/model_function.py"
PL = "pyxel/pipelines/pipeline.py"
PR = "pyxel/pipelines/processor.py"

# The canonical physical order, copied from the STATEMENT of C01 (not from MODEL_GROUPS)
CANON = ["scene_generation", "photon_collection", "phasing", "charge_generation", "charge_collection", "charge_transfer",
         "charge_measurement", "signal_transfer", "readout_electronics", "data_processing"]

Event = z3.Datatype("Event")
Event.declare("ev", ("model", z3.IntSort()), ("det", z3.IntSort()))
Event = Event.create()
IntSeq = z3.SeqSort(z3.IntSort())
EvSeq = z3.SeqSort(Event)
EnArr = z3.ArraySort(z3.IntSort(), z3.BoolSort())

_ms, _en, _k, _d = z3.Const("ms", IntSeq), z3.Const("en", EnArr), z3.Int("k"), z3.Int("d")
filt = z3.RecFunction("filt", IntSeq, EnArr, z3.IntSort(), IntSeq)
z3.RecAddDefinition(filt, [_ms, _en, _k], z3.If(_k <= 0, z3.Empty(IntSeq),
                    z3.Concat(filt(_ms, _en, _k - 1), z3.If(z3.Select(_en, _ms[_k - 1]), z3.Unit(_ms[_k - 1]), z3.Empty(IntSeq)))))
_F = z3.Const("F", IntSeq)
evs = z3.RecFunction("evs", IntSeq, z3.IntSort(), z3.IntSort(), EvSeq)
z3.RecAddDefinition(evs, [_F, _d, _k], z3.If(_k <= 0, z3.Empty(EvSeq), z3.Concat(evs(_F, _d, _k - 1), z3.Unit(Event.ev(_F[_k - 1], _d)))))


def base_cfg(world) -> Cfg:
    cfg = Cfg("real")
    cfg.field_types[("ModelFunction", "enabled")] = "bool"
    cfg.field_types[("ModelFunction", "_name")] = "str"
    cfg.field_types[("ModelFunction", "_func_name")] = "str"
    # the resolved callable of a model is ANY callable object (function, functools.partial, instance with __call__, ...): the
    # function attributes (__name__, __module__, __qualname__, __deprecated__ ...) may be present or not
    cfg.field_types[("ModelFunction", "_func")] = ("opaque", "usercallable")
    cfg.lib_overrides[("opaque_attr", "usercallable")] = user_callable_attr
    cfg.lib_overrides[("sym_attr", "exc")] = exc_attr
    cfg.lib_overrides["symexc.add_note"] = exc_add_note
    cfg.lib_overrides[("deepcopy", "seq")] = lambda ex, v, dc, fr: v
    return cfg


def user_callable_attr(ex, obj, name, fr):
    if ex.st.branch(ex.st.fresh_bool(f"callable_has_{name.strip('_')}")):
        return VStr(ex.st.fresh_str(f"callable_{name.strip('_')}"))
    ex.throw("AttributeError", f"callable object has no attribute {name!r}")


def exc_attr(ex, obj, name, fr):
    if name == "add_note":
        return VLib("symexc.add_note", obj)
    if name == "__notes__":
        notes = ex.st.ghost.get("NOTES", {}).get(str(obj.t), [])
        return ex.st.alloc(HList(list(notes)))
    raise Unsupported(f"attribute {name} of a symbolic exception")


def exc_add_note(ex, f, args, kwargs, fr):
    notes = ex.st.ghost.setdefault("NOTES", {})
    notes.setdefault(str(f.self_val.t), []).append(args[0])
    return NONE


def init_trace(ex):
    ex.st.ghost["TRACE"] = z3.Const("TRACE0", EvSeq)
    ex.trace0 = ex.st.ghost["TRACE"]


def sym_models(ex, world, name):
    """The user's list of ModelFunction objects for one group: symbolic length, symbolic references."""
    ci = world.cls(f"{MF}::ModelFunction")
    term = z3.Const(name, IntSeq)
    return VSeq(z3.Length(term), lambda i, term=term: VSym(ci, term[i]), term, "list")


def enabled_array(ex):
    return ex.sym_field_array("ModelFunction", "enabled")


def mk_group(ex, world, gname, models: VSeq):
    """A ModelGroup built by its REAL constructor (executed symbolically)."""
    ci = world.cls(f"{MG}::ModelGroup")
    return ex.instantiate(ci, [], {"models": models, "name": gname if isinstance(gname, Val) else VStr(gname)}, Frame(None, ci.module))


# ---- contract: ModelFunction.__call__ --------------------------------------------------------------
def call_contract(world, may_raise=True):
    fi = world.function(f"{MF}::ModelFunction.__call__")

    def apply(ex, args, kwargs, fr):
        self_, det = args[0], (args[1] if len(args) > 1 else kwargs["detector"])
        ex.st.ghost["TRACE"] = z3.Concat(ex.st.ghost["TRACE"], z3.Unit(Event.ev(self_.t, det_term(det))))
        if may_raise and ex.st.choose([True, True]) == 1:
            e = VSym("exc", ex.st.fresh_int("model_exc"))
            ex.st.ghost["MODEL_EXC"] = e
            raise PyExc(e)
        return NONE
    return Contract(fi.qualname, apply, "appends exactly one event (self, detector) to TRACE; may raise any exception")


def det_term(det):
    if isinstance(det, (VSym, VOpaque)):
        return det.t
    if isinstance(det, VRef):
        return z3.IntVal(-det.addr)
    raise Unsupported(f"detector value {det!r}")


# ---- contract: ModelGroup.run ----------------------------------------------------------------------
def group_F(ex, grp_ref):
    cell = ex.st.cell(grp_ref)
    models = cell.fields["models"]
    if not (isinstance(models, VSeq) and models.term is not None):
        raise Unsupported("ModelGroup.models is not a symbolic model list")
    return filt(models.term, enabled_array(ex), z3.Length(models.term))


def run_contract(world, may_raise=True):
    fi = world.function(f"{MG}::ModelGroup.run")

    def apply(ex, args, kwargs, fr):
        self_ = args[0]
        det = kwargs.get("detector", args[1] if len(args) > 1 else None)
        F = group_F(ex, self_)
        d = det_term(det)
        if may_raise and ex.st.choose([True, True]) == 1:
            j = ex.st.fresh_int("fail_at")
            ex.st.assume(z3.And(j >= 1, j <= z3.Length(F)))
            ex.st.ghost["TRACE"] = z3.Concat(ex.st.ghost["TRACE"], evs(F, d, j))
            e = VSym("exc", ex.st.fresh_int("model_exc"))
            ex.st.ghost["MODEL_EXC"] = e
            raise PyExc(e)
        ex.st.ghost["TRACE"] = z3.Concat(ex.st.ghost["TRACE"], evs(F, d, z3.Length(F)))
        return NONE
    return Contract(fi.qualname, apply, "TRACE' = TRACE ++ events of the enabled models, in list order, on the given detector; a model's exception escapes unchanged")


def expected_pipeline_trace(ex, pipeline_ref, det):
    """expected(pipeline) from the statement: groups in CANON order, enabled models in list order."""
    t = z3.Empty(EvSeq)
    for g in CANON:
        t = z3.Concat(t, group_events(ex, pipeline_ref, g, det))
    return t


def mk_pipeline(ex, world):
    """DetectionPipeline whose ten group fields are OPTIONAL groups: Maybe(present_g, ModelGroup built by the real
    constructor on a symbolic model list). Presence is a free Bool per group (no 2^10 path split)."""
    ci = world.cls(f"{PL}::DetectionPipeline")
    fields = {}
    for g in CANON:
        fields["_" + g] = VMaybe(z3.Bool(f"present_{g}"), mk_group(ex, world, g, sym_models(ex, world, f"models_{g}")))
    return ex.st.alloc(HObj(ci, fields))


def group_events(ex, pipeline_ref, g, det):
    """Events contributed by group g of the pipeline: empty if absent, else the enabled models in order."""
    grp = ex.st.cell(pipeline_ref).fields.get("_" + g, NONE)
    if isinstance(grp, VNone):
        return z3.Empty(EvSeq)
    if isinstance(grp, VMaybe):
        F = group_F(ex, grp.val)
        return z3.If(grp.present, evs(F, det_term(det), z3.Length(F)), z3.Empty(EvSeq))
    F = group_F(ex, grp)
    return evs(F, det_term(det), z3.Length(F))


def expected_prefix(ex, pipeline_ref, det, i):
    """Events of the first i groups of the STATEMENT's order (i symbolic in 0..10)."""
    acc = z3.Empty(EvSeq)
    out = acc
    prefixes = [acc]
    for g in CANON:
        acc = z3.Concat(acc, group_events(ex, pipeline_ref, g, det))
        prefixes.append(acc)
    out = prefixes[-1]
    for j in range(len(CANON) - 1, -1, -1):
        out = z3.If(i == j, prefixes[j], out)
    return out


def getattr_symbolic_group(ex, obj, name, rest, fr):
    """getattr(pipeline, <symbolic group name>): case split over the ten group properties."""
    k = ex.st.choose([z_str(name.v) == g for g in CANON])
    return ex.getattr(obj, CANON[k], fr)
