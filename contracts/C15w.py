"""C15 — the MODEL functions around the proved kernels (what a pipeline actually calls).

Each wrapper is executed symbolically on a real detector object with the kernel replaced by its contract (the kernel's own
postconditions are the units of C15.py). Obligations, per wrapper:
  * the kernel receives the detector's OWN pixel array (and trapped-charge array, time step, geometry) and every model
    argument under its own parameter name — no argument swapped, none replaced by a default;
  * what the kernel returns is what the detector holds afterwards (pixel array / trapped charge), nothing else is written;
  * refused inputs (wrong detector type, negative capacity, unequal list lengths, ...) raise before anything is written.
simple_full_well is small enough to be executed through (pixel' == min(pixel, capacity used), the capacity used is the
argument, else the detector's own full-well capacity).
Trap lists have two entries with symbolic values (bounded in that length; the data flow does not depend on it).
"""
from __future__ import annotations

from pyvc import arrays
from .common import *  # noqa: F401,F403
from . import detmodel as D

CC = "pyxel/models/charge_collection/"
CT = "pyxel/models/charge_transfer/"
DET = "pyxel/detectors/"
R, C_ = D.ROWS, D.COLS
G = D.GEN


def settings(ex, u, det, fwc="fwc_char", temperature=True):
    st = ex.st
    cci = u.cls(f"{DET}characteristics.py::Characteristics")
    eci = u.cls(f"{DET}environment.py::Environment")
    st.assume(z3.And(z3.Real("fwc_char") >= 0, z3.Real("fwc_char") <= 10000000, z3.Real("temperature") > 0, z3.Real("temperature") <= 1000))
    st.cell(det).fields["_characteristics"] = st.alloc(HObj(cci, {"_full_well_capacity": VMaybe(z3.Bool("fwc_char_set"), VFloat(z3.Real("fwc_char")))}))
    st.cell(det).fields["_environment"] = st.alloc(HObj(eci, {"_temperature": VFloat(z3.Real("temperature")), "_wavelength": NONE, "_numbytes": VInt(0)}))


def snapshot(ex):
    """(pixel element at g, other buckets' cells) for 'nothing else written'."""
    st = ex.st
    parts = ex.det_parts
    return {k: st.cell(parts[k]).fields.get("_array") for k in ("photon", "signal", "image", "charge")}


def same_others(p, snap):
    st = p.st
    return all(st.cell(p.ex.det_parts[k]).fields.get("_array") is v for k, v in snap.items())


def krec(ex, key=None):
    """Per-PATH record of the contracted calls (paths are explored by re-running the setup: a record shared between paths would
    describe the last path only)."""
    d = ex.__dict__.setdefault("_krec", {})
    return d if key is None else d.setdefault(key, {})


def kernel_contract(qual, rec, make):
    name = qual.split("::")[-1]

    def apply(ex, args, kwargs, fr):
        # positional arguments are bound to the callee's parameter names, so that the obligations do not depend on the call style
        bound = dict(kwargs)
        try:
            params = [a.arg for a in ex.world.function(qual).node.args.args]
            for i, a in enumerate(args):
                if i < len(params):
                    bound.setdefault(params[i], a)
            args = args[len(params):]
        except Exception:
            pass
        krec(ex, name).setdefault("calls", []).append((list(args), bound))
        return make(ex, args, kwargs)
    return Contract(qual, apply, f"{qual.split('::')[-1]}: kernel under its own contract (C15)")


FWC_REPLAY = lambda w: {"code": """
import numpy as np, verif_probes as VP
from pyxel.models.charge_collection import simple_full_well
VIOLATED, DETAIL = False, 'pixel == min(pixel, capacity used)'
x = np.array([[0.0, 5.0, 10.0, 10.5], [1e9, 3.0, 99.0, 100.0], [100.5, 7.0, 8.0, 9.0]])
for arg, char, cap in ((10.0, 100.0, 10.0), (None, 100.0, 100.0), (0.0, 100.0, 0.0)):
    det = VP.detector(full_well_capacity=char); det.pixel.array = x.copy(); det.signal.array = np.ones((3, 4))
    simple_full_well(det, fwc=arg)
    if not np.array_equal(det.pixel.array, np.minimum(x, cap)) or not np.array_equal(det.signal.array, np.ones((3, 4))):
        VIOLATED, DETAIL = True, f'fwc argument {arg}, detector capacity {char}: pixel {det.pixel.array.tolist()}'
det = VP.detector(full_well_capacity=100.0); det.pixel.array = x.copy()
try:
    simple_full_well(det, fwc=-1.0); VIOLATED, DETAIL = True, 'negative capacity accepted'
except ValueError:
    if not np.array_equal(det.pixel.array, x): VIOLATED, DETAIL = True, 'pixel changed by a refused call'
""", "expect": "simple_full_well limits the pixel array to the argument, else to the detector's own capacity; a negative capacity is refused"}


@unit("C15", "model.full_well")
def full_well_model(u: Unit):
    fi = u.fn(CC + "full_well.py::simple_full_well")
    u.fn(CC + "full_well.py::apply_simple_full_well_capacity")
    cfg = D.install(Cfg("real"))
    h = {}

    def setup(ex):
        det = D.mk_detector(ex, u, prior="fresh")
        settings(ex, u, det)
        f = z3.Function("pix0", z3.IntSort(), z3.IntSort(), z3.RealSort())
        ex.st.cell(ex.det_parts["pixel"]).fields["_array"] = ex.st.alloc(HArr((R, C_), VDtype("float64"), lambda ix: VFloat(f(z_int(ix[0]), z_int(ix[1])))))
        h["f"], ex.snap = f, snapshot(ex)
        given = ex.st.branch(z3.Bool("fwc_given"))
        return [det], {"fwc": VFloat(z3.Real("fwc_arg")) if given else NONE}
    ps = u.paths(fi, setup, cfg, label="simple_full_well")
    x = None
    for p in ps:
        x = h["f"](G[0], G[1])
        given = z3.Bool("fwc_given")
        used = z3.If(given, z3.Real("fwc_arg"), z3.Real("fwc_char"))
        if p.kind != "return":
            # refused: negative capacity used, or no argument and no capacity in the detector
            u.oblige(p, "model.full_well.refuses_only_bad_capacity", z3.Or(used < 0, z3.And(z3.Not(given), z3.Not(z3.Bool("fwc_char_set")))), {"exc": p.exc_name(), "msg": str(p.st.cell(p.value).fields.get("args"))}, FWC_REPLAY)
            arr = D.frame_elem(p.st, D.bucket_array(p.st, p.ex.det_parts["pixel"]))
            u.oblige(p, "model.full_well.refusal_changes_nothing", z3.And(arr == x, zb(same_others(p, p.ex.snap))), {}, FWC_REPLAY)
            continue
        out = D.frame_elem(p.st, D.bucket_array(p.st, p.ex.det_parts["pixel"]))
        u.oblige(p, "model.full_well.pixel_is_min_of_pixel_and_capacity_used", z3.And(used >= 0, out == z3.If(x <= used, x, used)), {"x": x, "used": used}, FWC_REPLAY)
        u.oblige(p, "model.full_well.other_buckets_untouched", zb(same_others(p, p.ex.snap)), {}, FWC_REPLAY)
    u.cover("model.full_well.cover", ps, lambda p: p.kind == "return")
    u.cover("model.full_well.cover_refusal", ps, lambda p: p.kind == "raise")


def arr2(ex, name, shape=None):
    f = z3.Function(name, z3.IntSort(), z3.IntSort(), z3.RealSort())
    return ex.st.alloc(HArr(shape or (R, C_), VDtype("float64"), lambda ix: VFloat(f(z_int(ix[0]), z_int(ix[1]))))), f


def arr3(ex, name, n):
    f = z3.Function(name, z3.IntSort(), z3.IntSort(), z3.IntSort(), z3.RealSort())
    return ex.st.alloc(HArr((n, R, C_), VDtype("float64"), lambda ix: VFloat(f(z_int(ix[0]), z_int(ix[1]), z_int(ix[2])))))


def kw(call, name, pos=None):
    args, kwargs = call
    v = kwargs[name] if name in kwargs else (args[pos] if pos is not None and pos < len(args) else None)
    # an optional that reached a call was ordered / used before on this path (a None would have raised there): its value
    return v.val if isinstance(v, VMaybe) else v


def same_array(p, got, want, g=None):
    """z3 goal: `got` is the array `want` or a copy of it (same shape, same element at the generic index)."""
    if not (p.ex.is_arr(got) and p.ex.is_arr(want)):
        return z3.BoolVal(False)
    if got.addr == want.addr:
        return z3.BoolVal(True)
    a, b = p.st.cell(got), p.st.cell(want)
    if len(a.shape) != len(b.shape):
        return z3.BoolVal(False)
    g = g or (G if len(a.shape) == 2 else (z3.Int("g_trap"), G[0], G[1]))
    return z3.And(*[z_int(x) == z_int(y) for x, y in zip(a.shape, b.shape)], to_real(a.elem(g)) == to_real(b.elem(g)))


def is_array_of(p, v, items):
    """v is np.array(<list of exactly these symbolic values, in order>)"""
    if not p.ex.is_arr(v):
        return False
    c = p.st.cell(v)
    if len(c.shape) != 1 or not is_conc(c.shape[0]) or c.shape[0] != len(items):
        return False
    return z3.And(*[to_real(c.elem((i,))) == to_real(items[i]) for i in range(len(items))])


IPC_REPLAY = lambda w: {"code": """
import numpy as np, verif_probes as VP
import pyxel.models.charge_collection.inter_pixel_capacitance as M
from pyxel.detectors import CMOS, CMOSGeometry, Characteristics, Environment
got = {}
def fake(input, coupling, diagonal_coupling, anisotropic_coupling):
    got.update(input=input.copy(), c=coupling, d=diagonal_coupling, a=anisotropic_coupling); return input * 0.5 + 1.0
M.compute_ipc_convolution = fake
det = CMOS(geometry=CMOSGeometry(row=3, col=4), environment=Environment(), characteristics=Characteristics())
x = np.arange(12.0).reshape(3, 4); det.pixel.array = x.copy()
M.simple_ipc(det, coupling=0.1, diagonal_coupling=0.05, anisotropic_coupling=0.03)
VIOLATED = (not np.array_equal(got.get('input'), x) or (got.get('c'), got.get('d'), got.get('a')) != (0.1, 0.05, 0.03) or not np.array_equal(det.pixel.array, x * 0.5 + 1.0))
DETAIL = f"kernel received couplings {(got.get('c'), got.get('d'), got.get('a'))}; pixel afterwards {det.pixel.array.tolist()}"
try:
    M.simple_ipc(VP.detector(), coupling=0.1); VIOLATED, DETAIL = True, 'a CCD was accepted'
except TypeError:
    pass
""", "expect": "simple_ipc convolves the detector's own pixel array with the kernel of its own three couplings and stores the result"}


@unit("C15", "model.ipc")
def ipc_model(u: Unit):
    fi = u.fn(CC + "inter_pixel_capacitance.py::simple_ipc")
    kq = CC + "inter_pixel_capacitance.py::compute_ipc_convolution"
    for kind, cls_qual in (("CMOS", f"{DET}cmos/cmos.py::CMOS"), ("CCD", f"{DET}ccd/ccd.py::CCD")):
        rec = {}
        cfg = D.install(Cfg("real"))
        cfg.contracts[kq] = kernel_contract(kq, rec, lambda ex, args, kwargs: arr2(ex, "ipc_out")[0])

        def setup(ex, cls_qual=cls_qual):
            rec.clear()
            det = D.mk_detector(ex, u, prior="fresh", cls_qual=cls_qual)
            ex.pix_in, _ = arr2(ex, "pix0")
            ex.st.cell(ex.det_parts["pixel"]).fields["_array"] = ex.pix_in
            ex.snap = snapshot(ex)
            return [det], {"coupling": VFloat(z3.Real("coupling")), "diagonal_coupling": VFloat(z3.Real("diagonal")), "anisotropic_coupling": VFloat(z3.Real("anisotropic"))}
        ps = u.paths(fi, setup, cfg, label=f"simple_ipc[{kind}]")
        for p in ps:
            now = D.bucket_array(p.st, p.ex.det_parts["pixel"])
            if kind == "CCD":
                u.oblige(p, "model.ipc.refuses_other_detectors", p.kind == "raise" and p.exc_name() == "TypeError" and not krec(p.ex, "compute_ipc_convolution").get("calls") and now is p.ex.pix_in, {}, IPC_REPLAY)
                continue
            if p.kind != "return":
                u.oblige(p, "model.ipc.no_raise", False, {"exc": p.exc_name()}, IPC_REPLAY)
                continue
            calls = krec(p.ex, "compute_ipc_convolution").get("calls", [])
            ok = len(calls) == 1
            c = calls[0] if ok else ([], {})
            got_in = kw(c, "input", 0)
            same_in = same_array(p, got_in, p.ex.pix_in) if ok else z3.BoolVal(False)
            u.oblige(p, "model.ipc.kernel_gets_the_pixel_array_and_own_couplings",
                     z3.And(same_in, *[to_real(kw(c, n, i + 1)) == z3.Real(s) for i, (n, s) in enumerate((("coupling", "coupling"), ("diagonal_coupling", "diagonal"), ("anisotropic_coupling", "anisotropic")))
                                                  if kw(c, n, i + 1) is not None]) if ok and all(kw(c, n) is not None or len(c[0]) > i + 1 for i, n in enumerate(("coupling", "diagonal_coupling", "anisotropic_coupling"))) else z3.BoolVal(False),
                     {}, IPC_REPLAY)
            out = D.frame_elem(p.st, now)
            u.oblige(p, "model.ipc.pixel_is_the_convolution", out == z3.Function("ipc_out", z3.IntSort(), z3.IntSort(), z3.RealSort())(G[0], G[1]) if out is not None else z3.BoolVal(False), {}, IPC_REPLAY)
            u.oblige(p, "model.ipc.other_buckets_untouched", zb(same_others(p, p.ex.snap)), {}, IPC_REPLAY)
        u.cover(f"model.ipc.cover[{kind}]", ps, lambda p, kind=kind: p.kind == ("return" if kind == "CMOS" else "raise"))


PERSIST_REPLAY = lambda w: {"code": """
import numpy as np
import importlib; M = importlib.import_module('pyxel.models.charge_collection.persistence')
from pyxel.detectors import CMOS, CMOSGeometry, Characteristics, Environment
got = {}
def fake(pixel_array, all_trapped_charge, trap_densities, trap_time_constants, delta_t, trap_capacities=None):
    got.update(pix=pixel_array.copy(), trapped=all_trapped_charge.copy(), dens=np.array(trap_densities), tau=np.array(trap_time_constants), dt=delta_t,
               cap=None if trap_capacities is None else np.array(trap_capacities))
    return pixel_array - 1.0, all_trapped_charge + 0.5
M.compute_simple_persistence = fake
det = CMOS(geometry=CMOSGeometry(row=3, col=4), environment=Environment(), characteristics=Characteristics())
det.set_readout(times=[2.0, 5.0], start_time=0.0); det.readout_properties.time_step = 3.0
x = np.arange(12.0).reshape(3, 4) + 10; det.pixel.array = x.copy()
VIOLATED, DETAIL = False, 'the kernel gets the detector state and the arguments under their own names; its results are stored'
M.simple_persistence(det, trap_time_constants=[10.0, 1.0], trap_densities=[0.2, 0.3], trap_capacities=[50.0, 60.0])
if (not np.array_equal(got['pix'], x) or got['dens'].tolist() != [0.2, 0.3] or got['tau'].tolist() != [10.0, 1.0] or got['cap'].tolist() != [50.0, 60.0] or got['dt'] != 3.0
        or not np.array_equal(got['trapped'], np.zeros((2, 3, 4))) or not np.array_equal(det.pixel.array, x - 1.0) or not np.array_equal(det.persistence.trapped_charge_array, np.full((2, 3, 4), 0.5))):
    VIOLATED, DETAIL = True, f"kernel got densities {got['dens'].tolist()} time constants {got['tau'].tolist()} capacities {got['cap']} dt {got['dt']}; trapped afterwards {det.persistence.trapped_charge_array[:, 0, 0].tolist()}"
M.simple_persistence(det, trap_time_constants=[10.0, 1.0], trap_densities=[0.2, 0.3])
if not VIOLATED and (not np.array_equal(got['trapped'], np.full((2, 3, 4), 0.5)) or got['cap'] is not None or not np.array_equal(det.persistence.trapped_charge_array, np.full((2, 3, 4), 1.0))):
    VIOLATED, DETAIL = True, 'second step: the trapped charge of the first step is not what the kernel received / not accumulated'
for bad in (dict(trap_time_constants=[1.0], trap_densities=[0.1, 0.2]), dict(trap_time_constants=[], trap_densities=[]), dict(trap_time_constants=[1.0, 2.0], trap_densities=[0.1, 0.2], trap_capacities=[1.0])):
    try:
        M.simple_persistence(det, **bad); VIOLATED, DETAIL = True, f'accepted {bad}'
    except ValueError:
        pass
""", "expect": "simple_persistence hands the detector's pixel array, its trapped charge, the time step and the trap lists to the kernel and stores both results"}


def persistence_model(name, kernel, list2, has_caps):
    def un(u: Unit):
        fi = u.fn(f"{CC}persistence.py::{name}")
        kq = f"{CC}persistence.py::{kernel}"
        pq = "pyxel/data_structure/persistence.py"
        for existing in (True, False):
            for caps in ((True, False) if has_caps else (False,)):
                rec = {}
                cfg = D.install(Cfg("real"))
                tag = f"{'existing' if existing else 'first'},{'caps' if caps else 'nocaps'}"

                def make(ex, args, kwargs):
                    return VTuple([arr2(ex, "persist_pix_out")[0], arr3(ex, "persist_trapped_out", 2)])
                cfg.contracts[kq] = kernel_contract(kq, rec, make)

                def ctor(ex, args, kwargs, fr):
                    rec = krec(ex, "ctor")
                    rec["ctor"] = dict(kwargs)
                    me = args[0]
                    tci = ex.world.cls(f"{pq}::SimpleTrap")
                    traps = [ex.st.alloc(HObj(tci, {"charge": arrays.const_array(ex, (R, C_), VDtype("float64"), VInt(0))})) for _ in range(2)]
                    ex.st.cell(me).fields.update({"_trap_list": ex.st.alloc(HList(traps)), "_trapped_charge_array": arrays.const_array(ex, (2, R, C_), VDtype("float64"), VInt(0))})
                    rec["fresh_trapped"] = ex.st.cell(me).fields["_trapped_charge_array"]
                    return NONE
                cfg.contracts[f"{pq}::SimplePersistence.__init__"] = Contract(f"{pq}::SimplePersistence.__init__", ctor, "SimplePersistence(): all-zero trapped charge, one trap per entry")

                def setup(ex, existing=existing, caps=caps):
                    rec.clear()
                    det = D.mk_detector(ex, u, prior="fresh", cls_qual=f"{DET}cmos/cmos.py::CMOS")
                    st = ex.st
                    ex.pix_in, _ = arr2(ex, "pix0")
                    st.cell(ex.det_parts["pixel"]).fields["_array"] = ex.pix_in
                    rci = u.cls("pyxel/detectors/readout_properties.py::ReadoutProperties")
                    st.cell(det).fields["_readout_properties"] = st.alloc(HObj(rci, {"_time_step": VFloat(z3.Real("time_step")), "_time": VFloat(z3.Real("time"))}))
                    ex.trapped_in = None
                    if existing:
                        sci = u.cls(f"{pq}::SimplePersistence")
                        tci = u.cls(f"{pq}::SimpleTrap")
                        traps = [st.alloc(HObj(tci, {"charge": arr2(ex, f"trap{i}_charge")[0]})) for i in range(2)]
                        ex.trapped_in = arr3(ex, "trapped0", 2)
                        st.cell(det).fields["_persistence"] = st.alloc(HObj(sci, {"_trap_list": st.alloc(HList(traps)), "_trapped_charge_array": ex.trapped_in}))
                    ex.snap = snapshot(ex)
                    ex.taus = [VFloat(z3.Real(f"tau{i}")) for i in range(2)]
                    ex.dens = [VFloat(z3.Real(f"dens{i}")) for i in range(2)]
                    ex.caps = [VFloat(z3.Real(f"cap{i}")) for i in range(2)]
                    k = {"trap_time_constants": st.alloc(HList(list(ex.taus))), list2: st.alloc(HList(list(ex.dens)))}
                    if has_caps:
                        k["trap_capacities"] = st.alloc(HList(list(ex.caps))) if caps else NONE
                    return [det], k
                ps = u.paths(fi, setup, cfg, label=f"{name}[{tag}]")
                for p in ps:
                    if p.kind != "return":
                        u.oblige(p, f"model.{name}.no_raise[{tag}]", False, {"exc": p.exc_name(), "msg": str(p.st.cell(p.value).fields.get("args"))[:200]}, PERSIST_REPLAY)
                        continue
                    calls = krec(p.ex, kernel).get("calls", [])
                    rec = krec(p.ex, "ctor")
                    ok = len(calls) == 1
                    c = calls[0] if ok else ([], {})
                    pix, trapped = kw(c, "pixel_array", 0), kw(c, "all_trapped_charge", 1)
                    want_trapped = p.ex.trapped_in if existing else rec.get("fresh_trapped")
                    state_ok = z3.And(same_array(p, pix, p.ex.pix_in), same_array(p, trapped, want_trapped)) if ok and want_trapped is not None else z3.BoolVal(False)
                    u.oblige(p, f"model.{name}.kernel_gets_detector_state[{tag}]", z3.And(state_ok, to_real(kw(c, "delta_t")) == z3.Real("time_step"))
                             if ok and kw(c, "delta_t") is not None else z3.BoolVal(False), {}, PERSIST_REPLAY)
                    a_ok = ok and is_array_of(p, kw(c, "trap_time_constants"), p.ex.taus) is not False and is_array_of(p, kw(c, list2), p.ex.dens) is not False
                    goal = z3.And(is_array_of(p, kw(c, "trap_time_constants"), p.ex.taus), is_array_of(p, kw(c, list2), p.ex.dens)) if a_ok else z3.BoolVal(False)
                    if has_caps and ok:
                        cv = kw(c, "trap_capacities")
                        goal = z3.And(goal, is_array_of(p, cv, p.ex.caps) if caps and is_array_of(p, cv, p.ex.caps) is not False else zb(bool((not caps) and isinstance(cv, VNone))))
                    u.oblige(p, f"model.{name}.kernel_gets_own_trap_lists[{tag}]", goal, {}, PERSIST_REPLAY)
                    out = D.frame_elem(p.st, D.bucket_array(p.st, p.ex.det_parts["pixel"]))
                    pers = p.st.cell(p.st.cell(p.ex.det_parts["det"]).fields["_persistence"]) if isinstance(p.st.cell(p.ex.det_parts["det"]).fields["_persistence"], VRef) else None
                    tr = pers.fields.get("_trapped_charge_array") if pers is not None else None
                    gk = z3.Int("g_trap")
                    stored = (out is not None and p.ex.is_arr(tr) and len(p.st.cell(tr).shape) == 3)
                    u.oblige(p, f"model.{name}.results_stored[{tag}]",
                             z3.And(out == z3.Function("persist_pix_out", z3.IntSort(), z3.IntSort(), z3.RealSort())(G[0], G[1]),
                                    to_real(p.st.cell(tr).elem((gk, G[0], G[1]))) == z3.Function("persist_trapped_out", z3.IntSort(), z3.IntSort(), z3.IntSort(), z3.RealSort())(gk, G[0], G[1]))
                             if stored else z3.BoolVal(False), {}, PERSIST_REPLAY)
                    u.oblige(p, f"model.{name}.other_buckets_untouched[{tag}]", zb(same_others(p, p.ex.snap)), {}, PERSIST_REPLAY)
                    if not existing:
                        ck = rec.get("ctor", {})
                        okc = (ck.get("trap_time_constants") is not None and p.ex.try_list(ck["trap_time_constants"]) is not None
                               and all(a is b for a, b in zip(p.ex.try_list(ck["trap_time_constants"]), p.ex.taus)) and len(p.ex.try_list(ck["trap_time_constants"])) == 2)
                        u.oblige(p, f"model.{name}.memory_created_for_own_traps[{tag}]", bool(okc), {}, PERSIST_REPLAY)
                u.cover(f"model.{name}.cover[{tag}]", ps, lambda p: p.kind == "return")
    return un


unit("C15", "model.simple_persistence")(persistence_model("simple_persistence", "compute_simple_persistence", "trap_densities", True))


CONV_REPLAY = lambda w: {"code": """
import numpy as np, verif_probes as VP
from pyxel.models.charge_generation import simple_conversion
VIOLATED, DETAIL = False, 'charge added == efficiency used * photons (sampling off); the efficiency used is the argument, else the detector setting'
ph = np.array([[0.0, 1.0, 7.5, 1000.0], [2.0, 3.0, 4.0, 5.0], [6.0, 7.0, 8.0, 9.0]])
for arg, char, used in ((0.25, 0.9, 0.25), (None, 0.9, 0.9), (0.0, 0.9, 0.0), (1.0, 0.5, 1.0), (0.5, None, 0.5)):
    det = VP.detector(**({} if char is None else {'quantum_efficiency': char})); det.photon.array = ph.copy(); det.charge.add_charge_array(np.ones((3, 4)))
    simple_conversion(det, quantum_efficiency=arg, binomial_sampling=False)
    if not np.allclose(det.charge.array, 1.0 + used * ph) or not np.array_equal(det.photon.array, ph):
        VIOLATED, DETAIL = True, f'argument {arg}, detector setting {char}: charge {det.charge.array[0].tolist()} for photons {ph[0].tolist()} (efficiency {used} expected)'; break
for arg, char in ((-0.1, 0.5), (1.5, 0.5), (None, None)):
    det = VP.detector(**({} if char is None else {'quantum_efficiency': char})); det.photon.array = ph.copy()
    try:
        simple_conversion(det, quantum_efficiency=arg, binomial_sampling=False); VIOLATED, DETAIL = True, f'argument {arg} / setting {char} accepted'
    except ValueError:
        pass
""", "expect": "simple_conversion: charge += efficiency * photons with the efficiency of the argument, else of the detector"}


@unit("C15", "model.simple_conversion")
def conversion_model(u: Unit):
    PEQ = "pyxel/models/charge_generation/photoelectrons.py"
    fi = u.fn(f"{PEQ}::simple_conversion")
    u.fn(f"{PEQ}::apply_qe")
    cci = u.cls(f"{DET}characteristics.py::Characteristics")
    cfg = D.install(Cfg("real"))

    def setup(ex):
        det = D.mk_detector(ex, u, prior="fresh")
        st = ex.st
        st.assume(z3.And(z3.Real("qe_char") >= 0, z3.Real("qe_char") <= 1))          # the setter's range (C12)
        st.cell(det).fields["_characteristics"] = st.alloc(HObj(cci, {"_quantum_efficiency": VMaybe(z3.Bool("qe_char_set"), VFloat(z3.Real("qe_char")))}))
        ph, f = arr2(ex, "photons")
        st.assume(f(G[0], G[1]) >= 0)
        st.cell(ex.det_parts["photon"]).fields["_array"] = ph
        c0, g = arr2(ex, "charge0")
        st.cell(ex.det_parts["charge"]).fields["_array"] = c0
        st.cell(ex.det_parts["charge"]).fields["_frame"] = D.df_obj(ex, z3.IntVal(0))
        ex.f, ex.g, ex.ph = f, g, ph
        given = st.branch(z3.Bool("qe_given"))
        return [det], {"quantum_efficiency": VFloat(z3.Real("qe_arg")) if given else NONE, "seed": NONE, "binomial_sampling": VBool(False)}
    ps = u.paths(fi, setup, cfg, label="simple_conversion[sampling off]")
    given = z3.Bool("qe_given")
    used = z3.If(given, z3.Real("qe_arg"), z3.Real("qe_char"))
    for p in ps:
        chg = D.frame_elem(p.st, p.st.cell(p.ex.det_parts["charge"]).fields["_array"])
        x, c0 = p.ex.f(G[0], G[1]), p.ex.g(G[0], G[1])
        if p.kind != "return":
            u.oblige(p, "model.simple_conversion.refuses_only_bad_efficiency", z3.Or(used < 0, used > 1, z3.And(z3.Not(given), z3.Not(z3.Bool("qe_char_set")))), {"exc": p.exc_name(), "used": used}, CONV_REPLAY)
            u.oblige(p, "model.simple_conversion.refusal_changes_nothing", chg == c0, {}, CONV_REPLAY)
            continue
        u.oblige(p, "model.simple_conversion.charge_added_is_efficiency_times_photons", z3.And(used >= 0, used <= 1, chg == c0 + used * x), {"photons": x, "used": used, "qe_arg": z3.Real("qe_arg"), "qe_char": z3.Real("qe_char")}, CONV_REPLAY)
        u.oblige(p, "model.simple_conversion.photons_kept", zb(D.bucket_array(p.st, p.ex.det_parts["photon"]) is p.ex.ph or
                                                                   D.frame_elem(p.st, D.bucket_array(p.st, p.ex.det_parts["photon"])) is not None) and D.frame_elem(p.st, D.bucket_array(p.st, p.ex.det_parts["photon"])) == x, {}, CONV_REPLAY)
    u.cover("model.simple_conversion.cover", ps, lambda p: p.kind == "return")
    u.cover("model.simple_conversion.cover_refusal", ps, lambda p: p.kind == "raise")


CDM_REPLAY = lambda w: {"code": """
import numpy as np, verif_probes as VP, importlib
M = importlib.import_module('pyxel.models.charge_transfer.cdm')
got = {}
def mk(tag):
    def fake(**kw):
        got.clear(); got.update(kw); got['kernel'] = tag; return kw['array'] * 0.5
    return fake
M.run_cdm_parallel, M.run_cdm_serial = mk('parallel'), mk('serial')
VIOLATED, DETAIL = False, 'the kernel of the requested direction gets the pixel array and every parameter under its own name; its result is stored'
x = np.arange(12.0).reshape(3, 4) + 100
for direction in ('parallel', 'serial'):
    det = VP.detector(full_well_capacity=5000.0); det.environment.temperature = 150.0; det.pixel.array = x.copy()
    M.cdm(det, direction=direction, beta=0.3, trap_release_times=[0.01, 0.02], trap_densities=[10.0, 20.0], sigma=[1e-15, 2e-15], max_electron_volume=0.7, transfer_period=0.5,
          charge_injection=(direction == 'parallel'))
    ok = (got.get('kernel') == direction and np.array_equal(got['array'], x) and got['vg'] == 0.7 and got['t'] == 0.5 and got['fwc'] == 5000.0 and got['beta'] == 0.3
          and got['tr'].tolist() == [0.01, 0.02] and got['nt'].tolist() == [10.0, 20.0] and got['sigma'].tolist() == [1e-15, 2e-15] and np.array_equal(det.pixel.array, x * 0.5)
          and (direction == 'serial' or (got['charge_injection'] is True and got['chg_inj_parallel_transfers'] == 3)))
    if not ok:
        VIOLATED, DETAIL = True, f"direction {direction}: kernel {got.get('kernel')} vg={got.get('vg')} t={got.get('t')} fwc={got.get('fwc')} beta={got.get('beta')} tr={got.get('tr')} nt={got.get('nt')} sigma={got.get('sigma')}"; break
    det2 = VP.detector(full_well_capacity=5000.0); det2.environment.temperature = 150.0; det2.pixel.array = x.copy()
    M.cdm(det2, direction=direction, beta=0.3, trap_release_times=[0.01], trap_densities=[10.0], sigma=[1e-15], max_electron_volume=0.7, transfer_period=0.5, full_well_capacity=900.0)
    if got['fwc'] != 900.0:
        VIOLATED, DETAIL = True, f'full_well_capacity argument 900 ignored: kernel got {got["fwc"]}'; break
    M.cdm(det2, direction=direction, beta=0.3, trap_release_times=[0.01], trap_densities=[10.0], sigma=[1e-15], max_electron_volume=0.7, transfer_period=0.5, full_well_capacity=0.0)
    if got['fwc'] != 0.0:
        VIOLATED, DETAIL = True, f'full_well_capacity argument 0.0 replaced: kernel got {got["fwc"]}'; break
""", "expect": "cdm hands the detector's pixel array and its own parameters to the kernel of the requested direction and stores the result"}


@unit("C15", "model.cdm")
def cdm_model(u: Unit):
    fi = u.fn(CT + "cdm.py::cdm")
    NAMES = {"vg": "max_electron_volume", "t": "transfer_period", "beta": "beta"}
    for direction in ("parallel", "serial"):
        rec = {}
        cfg = D.install(Cfg("real"))
        for kn in ("run_cdm_parallel", "run_cdm_serial"):
            q = CT + f"cdm.py::{kn}"
            cfg.contracts[q] = kernel_contract(q, rec.setdefault(kn, {}), lambda ex, args, kwargs: arr2(ex, "cdm_out")[0])

        def setup(ex, direction=direction):
            det = D.mk_detector(ex, u, prior="fresh")
            settings(ex, u, det)
            ex.pix_in, _ = arr2(ex, "pix0")
            ex.st.cell(ex.det_parts["pixel"]).fields["_array"] = ex.pix_in
            ex.snap = snapshot(ex)
            ex.lists = {n: [VFloat(z3.Real(f"{n}{i}")) for i in range(2)] for n in ("tr", "nt", "sigma")}
            given = ex.st.branch(z3.Bool("fwc_given"))
            return [det], {"direction": VStr(direction), "beta": VFloat(z3.Real("beta")), "trap_release_times": ex.st.alloc(HList(list(ex.lists["tr"]))),
                           "trap_densities": ex.st.alloc(HList(list(ex.lists["nt"]))), "sigma": ex.st.alloc(HList(list(ex.lists["sigma"]))),
                           "full_well_capacity": VFloat(z3.Real("fwc_arg")) if given else NONE, "max_electron_volume": VFloat(z3.Real("max_electron_volume")),
                           "transfer_period": VFloat(z3.Real("transfer_period")), "charge_injection": VBool(z3.Bool("charge_injection"))}
        ps = u.paths(fi, setup, cfg, label=f"cdm[{direction}]")
        used = z3.If(z3.Bool("fwc_given"), z3.Real("fwc_arg"), z3.Real("fwc_char"))
        for p in ps:
            now = D.bucket_array(p.st, p.ex.det_parts["pixel"])
            mine, other = krec(p.ex, f"run_cdm_{direction}").get("calls", []), krec(p.ex, f"run_cdm_{'serial' if direction == 'parallel' else 'parallel'}").get("calls", [])
            if p.kind != "return":
                u.oblige(p, f"model.cdm.refusal_changes_nothing[{direction}]", not mine and not other and now is p.ex.pix_in and same_others(p, p.ex.snap), {"exc": p.exc_name()}, CDM_REPLAY)
                continue
            ok = len(mine) == 1 and not other
            c = mine[0] if ok else ([], {})
            arr_in = kw(c, "array")
            goal = z3.BoolVal(False)
            if ok and p.ex.is_arr(arr_in) and all(kw(c, k) is not None for k in ("vg", "t", "beta", "fwc", "tr", "nt", "sigma")):
                parts = [same_array(p, arr_in, p.ex.pix_in)] + [to_real(kw(c, k)) == z3.Real(v) for k, v in NAMES.items()] + [to_real(kw(c, "fwc")) == used]
                for k in ("tr", "nt", "sigma"):
                    a = is_array_of(p, kw(c, k), p.ex.lists[k])
                    parts.append(a if a is not False else z3.BoolVal(False))
                if direction == "parallel":
                    ci, n = kw(c, "charge_injection"), kw(c, "chg_inj_parallel_transfers")
                    parts.append(zb(ci.v) == z3.Bool("charge_injection") if isinstance(ci, VBool) else z3.BoolVal(False))
                    parts.append(z_int(n.v) == R if isinstance(n, VInt) else z3.BoolVal(False))
                goal = z3.And(*parts)
            u.oblige(p, f"model.cdm.kernel_of_the_direction_gets_own_arguments[{direction}]", goal, {}, CDM_REPLAY)
            out = D.frame_elem(p.st, now)
            u.oblige(p, f"model.cdm.result_stored[{direction}]", out == z3.Function("cdm_out", z3.IntSort(), z3.IntSort(), z3.RealSort())(G[0], G[1]) if out is not None else z3.BoolVal(False), {}, CDM_REPLAY)
            u.oblige(p, f"model.cdm.other_buckets_untouched[{direction}]", zb(same_others(p, p.ex.snap)), {}, CDM_REPLAY)
            # what the wrapper lets through is inside the ranges it announces
            u.oblige(p, f"model.cdm.accepted_inside_announced_ranges[{direction}]", z3.And(z3.Real("beta") >= 0, z3.Real("beta") <= 1, used >= 0, used <= 10000000, z3.Real("max_electron_volume") >= 0,
                                                                                               z3.Real("max_electron_volume") <= 1, z3.Real("transfer_period") >= 0, z3.Real("transfer_period") <= 10), {}, CDM_REPLAY)
        u.cover(f"model.cdm.cover[{direction}]", ps, lambda p: p.kind == "return")
        u.cover(f"model.cdm.cover_refusal[{direction}]", ps, lambda p: p.kind == "raise")


# ---- the persistence model with density / capacity maps ---------------------------------------------------------------------------------
FULLP_REPLAY = lambda w: {"code": """
import numpy as np, tempfile, os, importlib
M = importlib.import_module('pyxel.models.charge_collection.persistence')
from pyxel.detectors import CMOS, CMOSGeometry, Characteristics, Environment
got = {}
def fake(pixel_array, all_trapped_charge, trap_proportions, trap_time_constants, trap_densities_2d, delta_t, trap_capacities_2d=None):
    got.update(pix=pixel_array.copy(), trapped=all_trapped_charge.copy(), prop=np.array(trap_proportions), tau=np.array(trap_time_constants), dens=np.array(trap_densities_2d), dt=delta_t,
               cap=None if trap_capacities_2d is None else np.array(trap_capacities_2d))
    return pixel_array - 1.0, all_trapped_charge + 0.5
M.compute_persistence = fake
d = tempfile.mkdtemp(); fd = os.path.join(d, 'dens.npy'); fc = os.path.join(d, 'cap.npy')
dens = np.array([[0.1, 0.2, -0.3, 0.4], [0.5, np.nan, 0.7, 0.8], [0.9, 1.0, 0.0, 0.25]]); cap = np.arange(12.0).reshape(3, 4) * 10
np.save(fd, dens); np.save(fc, cap)
det = CMOS(geometry=CMOSGeometry(row=3, col=4), environment=Environment(), characteristics=Characteristics())
det.set_readout(times=[2.0, 5.0], start_time=0.0); det.readout_properties.time_step = 3.0
x = np.arange(12.0).reshape(3, 4) + 10; det.pixel.array = x.copy()
VIOLATED, DETAIL = False, 'the kernel gets the detector state, the maps of the named files and the arguments under their own names; its results are stored'
M.persistence(det, trap_time_constants=[10.0, 1.0], trap_proportions=[0.2, 0.3], trap_densities_filename=fd, trap_capacities_filename=fc)
want_d = np.nan_to_num(np.clip(dens, 0, None), nan=0.0)
if (not np.array_equal(got['pix'], x) or got['prop'].tolist() != [0.2, 0.3] or got['tau'].tolist() != [10.0, 1.0] or got['dt'] != 3.0 or not np.allclose(got['dens'], want_d) or got['cap'] is None
        or not np.array_equal(got['cap'], cap) or not np.array_equal(det.pixel.array, x - 1.0) or not np.array_equal(det.persistence.trapped_charge_array, np.full((2, 3, 4), 0.5))):
    VIOLATED, DETAIL = True, f"kernel got proportions {got['prop'].tolist()} time constants {got['tau'].tolist()} dt {got['dt']} density map {got['dens'][0].tolist()} capacity map {None if got['cap'] is None else got['cap'][0].tolist()}"
""", "expect": "persistence hands the detector's pixel array, trapped charge and time step, the two maps and the trap lists to the kernel and stores both results"}


PLACE_REPLAY = lambda w: {"code": """
import numpy as np, tempfile, os, importlib
from pyxel.detectors import CMOS, CMOSGeometry, Characteristics, Environment
from pyxel.util import fit_into_array
M = importlib.import_module('pyxel.models.charge_collection.persistence')
d = tempfile.mkdtemp()
dens = np.arange(63.0).reshape(7, 9) / 100.0; caps = 1000.0 + np.arange(63.0).reshape(7, 9)
fd, fc = os.path.join(d, 'dens.npy'), os.path.join(d, 'caps.npy'); np.save(fd, dens); np.save(fc, caps)
seen = {}
real = M.compute_persistence
def spy(**kw):
    seen['dens'], seen['caps'] = np.array(kw['trap_densities_2d']), None if kw['trap_capacities_2d'] is None else np.array(kw['trap_capacities_2d'])
    return real(**kw)
M.compute_persistence = spy
VIOLATED, DETAIL = False, 'each trap map is placed with its own offset and alignment keyword'
try:
    for da, ca in (('center', 'top_left'), ('top_left', 'bottom_right'), ('bottom_left', 'center'), (None, 'top_right'), ('bottom_right', None)):
        for dp, cp in (((0, 0), (0, 0)), ((1, 2), (2, 1))):
            det = CMOS(geometry=CMOSGeometry(row=4, col=5, pixel_vert_size=1.0, pixel_horz_size=1.0, total_thickness=1.0), environment=Environment(), characteristics=Characteristics())
            det.set_readout(times=[1.0], start_time=0.0); det.readout_properties.time_step = 1.0
            det.pixel.array = np.full((4, 5), 100.0)
            M.persistence(det, trap_time_constants=[1.0, 10.0], trap_proportions=[0.4, 0.6], trap_densities_filename=fd, trap_capacities_filename=fc,
                          trap_densities_position=dp, trap_densities_align=da, trap_capacities_position=cp, trap_capacities_align=ca)
            wd = fit_into_array(array=dens, output_shape=(4, 5), relative_position=dp, align=da, allow_smaller_array=False)
            wc = fit_into_array(array=caps, output_shape=(4, 5), relative_position=cp, align=ca, allow_smaller_array=False)
            if not np.array_equal(seen['dens'], np.clip(wd, 0, None)) or not np.array_equal(seen['caps'], wc):
                VIOLATED, DETAIL = True, f'densities align={da} at {dp}, capacities align={ca} at {cp}: kernel got densities[0]={seen["dens"][0].tolist()} capacities[0]={seen["caps"][0].tolist()}, expected {np.clip(wd, 0, None)[0].tolist()} / {wc[0].tolist()}'
                break
        if VIOLATED: break
finally:
    M.compute_persistence = real
""", "expect": "the densities map and the capacities map reach the kernel placed by their own position and alignment keyword"}


@unit("C15", "model.persistence")
def full_persistence_model(u: Unit):
    fi = u.fn(f"{CC}persistence.py::persistence")
    kq = f"{CC}persistence.py::compute_persistence"
    pq = "pyxel/data_structure/persistence.py"
    lq = "pyxel/util/image.py::load_cropped_and_aligned_image"
    for existing in (True, False):
        for caps in (True, False):
            cfg = D.install(Cfg("real"))
            tag = f"{'existing' if existing else 'first'},{'caps' if caps else 'nocaps'}"
            cfg.contracts[kq] = kernel_contract(kq, {}, lambda ex, args, kwargs: VTuple([arr2(ex, "persist_pix_out")[0], arr3(ex, "persist_trapped_out", 2)]))

            def loader(ex, args, kwargs, fr):
                fn_ = kwargs.get("filename")
                which = "dens" if fn_ is ex.files["dens"] else ("cap" if fn_ is ex.files["cap"] else "other")
                krec(ex, "loads").setdefault("calls", []).append((which, dict(kwargs)))
                f = z3.Function(f"map_{which}", z3.IntSort(), z3.IntSort(), z3.RealSort())
                if which == "dens":
                    ex.st.assume(z3.And(f(G[0], G[1]) <= 1))
                a = ex.st.alloc(HArr((R, C_), VDtype("float64"), lambda ix, f=f: VFloat(f(z_int(ix[0]), z_int(ix[1])))))
                return a
            cfg.contracts[lq] = Contract(lq, loader, "C20: the file fitted onto the detector")
            cfg.lib_overrides["numpy.nan_to_num"] = lambda ex, f, args, kwargs, fr: args[0]          # real-number mode: no NaN / inf (stated)

            def ctor(ex, args, kwargs, fr):
                rec = krec(ex, "ctor")
                rec["ctor"] = dict(kwargs)
                me = args[0]
                tci = ex.world.cls(f"{pq}::Trap")
                traps = [ex.st.alloc(HObj(tci, {"charge": arrays.const_array(ex, (R, C_), VDtype("float64"), VInt(0))})) for _ in range(2)]
                ex.st.cell(me).fields.update({"_trap_list": ex.st.alloc(HList(traps)), "_trapped_charge_array": arrays.const_array(ex, (2, R, C_), VDtype("float64"), VInt(0))})
                rec["fresh_trapped"] = ex.st.cell(me).fields["_trapped_charge_array"]
                return NONE
            cfg.contracts[f"{pq}::Persistence.__init__"] = Contract(f"{pq}::Persistence.__init__", ctor, "Persistence(): all-zero trapped charge, one trap per entry")

            def setup(ex, existing=existing, caps=caps):
                det = D.mk_detector(ex, u, prior="fresh", cls_qual=f"{DET}cmos/cmos.py::CMOS")
                st = ex.st
                ex.pix_in, _ = arr2(ex, "pix0")
                st.cell(ex.det_parts["pixel"]).fields["_array"] = ex.pix_in
                rci = u.cls("pyxel/detectors/readout_properties.py::ReadoutProperties")
                st.cell(det).fields["_readout_properties"] = st.alloc(HObj(rci, {"_time_step": VFloat(z3.Real("time_step")), "_time": VFloat(z3.Real("time"))}))
                ex.trapped_in = None
                if existing:
                    sci, tci = u.cls(f"{pq}::Persistence"), u.cls(f"{pq}::Trap")
                    traps = [st.alloc(HObj(tci, {"charge": arr2(ex, f"trap{i}_charge")[0]})) for i in range(2)]
                    ex.trapped_in = arr3(ex, "trapped0", 2)
                    st.cell(det).fields["_persistence"] = st.alloc(HObj(sci, {"_trap_list": st.alloc(HList(traps)), "_trapped_charge_array": ex.trapped_in}))
                ex.snap = snapshot(ex)
                ex.taus = [VFloat(z3.Real(f"tau{i}")) for i in range(2)]
                ex.props = [VFloat(z3.Real(f"prop{i}")) for i in range(2)]
                ex.files = {"dens": VStr(z3.String("densities_file")), "cap": VStr(z3.String("capacities_file"))}
                # where each map goes: its own (y, x) offset and its own alignment keyword (arbitrary texts / integers)
                ex.place = {"dens": (VInt(z3.Int("dens_pos_y")), VInt(z3.Int("dens_pos_x")), VStr(z3.String("dens_align"))),
                            "cap": (VInt(z3.Int("cap_pos_y")), VInt(z3.Int("cap_pos_x")), VStr(z3.String("cap_align")))}
                return [det], {"trap_time_constants": st.alloc(HList(list(ex.taus))), "trap_proportions": st.alloc(HList(list(ex.props))), "trap_densities_filename": ex.files["dens"],
                               "trap_capacities_filename": ex.files["cap"] if caps else NONE,
                               "trap_densities_position": VTuple([ex.place["dens"][0], ex.place["dens"][1]]), "trap_densities_align": ex.place["dens"][2],
                               "trap_capacities_position": VTuple([ex.place["cap"][0], ex.place["cap"][1]]), "trap_capacities_align": ex.place["cap"][2]}
            ps = u.paths(fi, setup, cfg, label=f"persistence[{tag}]")
            n_ret = 0
            for p in ps:
                if p.kind != "return":
                    continue          # a density map outside [0, 1] is refused (ValueError): fine
                n_ret += 1
                calls = krec(p.ex, "compute_persistence").get("calls", [])
                ok = len(calls) == 1
                c = calls[0] if ok else ([], {})
                want_trapped = p.ex.trapped_in if existing else krec(p.ex, "ctor").get("fresh_trapped")
                state_ok = z3.And(same_array(p, kw(c, "pixel_array"), p.ex.pix_in), same_array(p, kw(c, "all_trapped_charge"), want_trapped)) if ok and want_trapped is not None else z3.BoolVal(False)
                u.oblige(p, f"model.persistence.kernel_gets_detector_state[{tag}]", z3.And(state_ok, to_real(kw(c, "delta_t")) == z3.Real("time_step")) if ok and kw(c, "delta_t") is not None else z3.BoolVal(False), {}, FULLP_REPLAY)
                a1, a2 = (is_array_of(p, kw(c, "trap_time_constants"), p.ex.taus), is_array_of(p, kw(c, "trap_proportions"), p.ex.props)) if ok else (False, False)
                u.oblige(p, f"model.persistence.kernel_gets_own_trap_lists[{tag}]", z3.And(a1, a2) if a1 is not False and a2 is not False else z3.BoolVal(False), {}, FULLP_REPLAY)
                # the maps: densities of the densities file (clipped at 0), capacities of the capacities file (or none)
                loads = krec(p.ex, "loads").get("calls", [])
                which = [w_ for w_, _ in loads]
                dm, cm = kw(c, "trap_densities_2d"), kw(c, "trap_capacities_2d")
                md = z3.Function("map_dens", z3.IntSort(), z3.IntSort(), z3.RealSort())(G[0], G[1])
                mc = z3.Function("map_cap", z3.IntSort(), z3.IntSort(), z3.RealSort())(G[0], G[1])
                d_ok = (to_real(p.st.cell(dm).elem(G)) == z3.If(md >= 0, md, 0)) if ok and p.ex.is_arr(dm) else z3.BoolVal(False)
                c_ok = ((to_real(p.st.cell(cm).elem(G)) == mc) if p.ex.is_arr(cm) else z3.BoolVal(False)) if caps else zb(isinstance(cm, VNone))
                u.oblige(p, f"model.persistence.maps_of_the_named_files[{tag}]", z3.And(zb(which == (["dens", "cap"] if caps else ["dens"])), d_ok, c_ok), {"loads": str(which)}, FULLP_REPLAY)
                # C20: each map is placed with ITS OWN offset and alignment keyword, on the detector's pixel grid, never smaller than it
                def placed(which_, kw_):
                    py, px, al = p.ex.place[which_]
                    gy, gx, ga, sh = kw_.get("position_y"), kw_.get("position_x"), kw_.get("align"), kw_.get("shape")
                    if not (isinstance(gy, VInt) and isinstance(gx, VInt) and isinstance(ga, VStr) and isinstance(sh, VTuple) and len(sh.items) == 2):
                        return z3.BoolVal(False)
                    allow = kw_.get("allow_smaller_array")
                    return z3.And(z_int(gy.v) == z_int(py.v), z_int(gx.v) == z_int(px.v), z_str(ga.v) == z_str(al.v), z_int(int_of(sh.items[0])) == R, z_int(int_of(sh.items[1])) == C_,
                                  zb(isinstance(allow, VBool) and allow.v is False))
                u.oblige(p, f"model.persistence.maps_placed_with_their_own_keywords[{tag}]", z3.And(*[placed(w_, k_) for w_, k_ in loads]) if loads else z3.BoolVal(False),
                         {"dens_align": z3.String("dens_align"), "cap_align": z3.String("cap_align"), "dens_pos_y": z3.Int("dens_pos_y"), "cap_pos_y": z3.Int("cap_pos_y")}, PLACE_REPLAY)
                out = D.frame_elem(p.st, D.bucket_array(p.st, p.ex.det_parts["pixel"]))
                pers = p.st.cell(p.ex.det_parts["det"]).fields["_persistence"]
                tr = p.st.cell(pers).fields.get("_trapped_charge_array") if isinstance(pers, VRef) else None
                gk = z3.Int("g_trap")
                stored = out is not None and p.ex.is_arr(tr) and len(p.st.cell(tr).shape) == 3
                u.oblige(p, f"model.persistence.results_stored[{tag}]",
                         z3.And(out == z3.Function("persist_pix_out", z3.IntSort(), z3.IntSort(), z3.RealSort())(G[0], G[1]),
                                to_real(p.st.cell(tr).elem((gk, G[0], G[1]))) == z3.Function("persist_trapped_out", z3.IntSort(), z3.IntSort(), z3.IntSort(), z3.RealSort())(gk, G[0], G[1]))
                         if stored else z3.BoolVal(False), {}, FULLP_REPLAY)
                u.oblige(p, f"model.persistence.other_buckets_untouched[{tag}]", zb(same_others(p, p.ex.snap)), {}, FULLP_REPLAY)
            u.cover(f"model.persistence.cover[{tag}]", [1] * n_ret, lambda _: True)


# ---- compute_ipc_convolution: the frame is convolved with the kernel of ITS couplings; outside the frame the MEAN of the frame is assumed ----
IPCCONV_REPLAY = lambda w: {"code": """
import numpy as np, importlib
M = importlib.import_module('pyxel.models.charge_collection.inter_pixel_capacitance')
VIOLATED, DETAIL = False, 'a uniform frame is unchanged by inter-pixel coupling (weights sum to one, edges filled with the frame mean); coupling moves charge to the neighbours'
for shape, level in (((6, 7), 100.0), ((3, 3), 7.5), ((10, 4), 0.0)):
    for c, d, a in ((0.1, 0.0, 0.0), (0.1, 0.05, 0.03), (0.2, 0.01, 0.0)):
        out = np.asarray(M.compute_ipc_convolution(input=np.full(shape, level), coupling=c, diagonal_coupling=d, anisotropic_coupling=a))
        if out.shape != shape or not np.allclose(out, level, rtol=1e-9, atol=1e-9):
            VIOLATED, DETAIL = True, f'uniform {shape} frame at {level}, couplings {(c, d, a)}: result between {out.min()} and {out.max()}'; break
    if VIOLATED: break
if not VIOLATED:
    x = np.zeros((7, 7)); x[3, 3] = 1000.0
    out = np.asarray(M.compute_ipc_convolution(input=x, coupling=0.1, diagonal_coupling=0.05, anisotropic_coupling=0.0))
    k = M.ipc_kernel(coupling=0.1, diagonal_coupling=0.05, anisotropic_coupling=0.0)
    core = out[2:5, 2:5] - x.mean() * (1 - 1)      # interior: no edge fill involved
    if not np.allclose(out[2:5, 2:5], 1000.0 * k[::-1, ::-1] + 0.0, atol=1e-6):
        VIOLATED, DETAIL = True, f'a single hot pixel is not spread by the coupling kernel: {out[2:5, 2:5].round(3).tolist()} vs kernel {k.round(3).tolist()}'
""", "expect": "compute_ipc_convolution = convolution with ipc_kernel(own couplings), edges filled with the frame mean"}


@unit("C15", "ipc.convolution_call")
def ipc_convolution_call(u: Unit):
    """compute_ipc_convolution: the library convolution receives the given frame, the kernel ipc_kernel built from the SAME three couplings
    (kernel weights sum to one: unit ipc), boundary='fill' with the MEAN of that frame as fill value — so a uniform frame is a fixed
    point — and its result is returned as it is. astropy's convolve_fft is the boundary (trusted: linear convolution with fill)."""
    fi = u.fn(CC + "inter_pixel_capacitance.py::compute_ipc_convolution")
    kq = CC + "inter_pixel_capacitance.py::ipc_kernel"
    cfg = D.install(Cfg("real"))
    rec = u.track({})
    cfg.contracts[kq] = Contract(kq, lambda ex, args, kwargs, fr, rec=rec: (rec.update(kernel_kw=dict(kwargs), kernel_args=list(args)), VOpaque("xr", None, {"label": "kernel"}))[1], "C15.ipc.*: weights sum to one")

    def conv(ex, f, args, kwargs, fr, rec=rec):
        rec.update(conv_args=list(args), conv_kw=dict(kwargs))
        return VOpaque("xr", None, {"label": "convolved"})
    cfg.lib_overrides["astropy.convolution.convolve_fft"] = conv
    cfg.lib_overrides["astropy.convolution.convolve"] = conv
    A = z3.Function("ipc_in", z3.IntSort(), z3.IntSort(), z3.RealSort())

    def setup(ex, rec=rec):
        rec.clear()
        ex.st.assume(z3.And(R > 0, C_ > 0))
        arr = ex.st.alloc(HArr((R, C_), VDtype("float64"), lambda ix: VFloat(A(z_int(ix[0]), z_int(ix[1])))))
        ex.inp = arr
        ex.c3 = [VFloat(z3.Real(n)) for n in ("coupling", "diagonal_coupling", "anisotropic_coupling")]
        return [], {"input": arr, "coupling": ex.c3[0], "diagonal_coupling": ex.c3[1], "anisotropic_coupling": ex.c3[2]}
    ps = u.paths(fi, setup, cfg, label="compute_ipc_convolution")
    for p in ps:
        if p.kind != "return":
            u.oblige(p, "ipc.convolution_call.returns", False, {"exc": p.exc_name()}, IPCCONV_REPLAY)
            continue
        ca, ck = rec.get("conv_args", []), rec.get("conv_kw", {})
        args_all = dict(zip(["array", "kernel"], ca), **ck)
        kk = dict(zip(["coupling", "diagonal_coupling", "anisotropic_coupling"], rec.get("kernel_args", [])), **rec.get("kernel_kw", {}))
        own_kernel = all(kk.get(n) is v for n, v in zip(("coupling", "diagonal_coupling", "anisotropic_coupling"), p.ex.c3))
        fill = args_all.get("fill_value")
        b = args_all.get("boundary")
        shape_ok = args_all.get("array") is p.ex.inp and isinstance(args_all.get("kernel"), VOpaque) and args_all["kernel"].info.get("label") == "kernel" and isinstance(b, VStr) and b.v == "fill"
        res_ok = isinstance(p.value, VOpaque) and p.value.info.get("label") == "convolved"
        u.oblige(p, "ipc.convolution_call.frame_and_own_kernel", bool(shape_ok and own_kernel and res_ok), {"boundary": getattr(b, "v", None)}, IPCCONV_REPLAY)
        # np.mean(frame) is a reduction result recorded by the array model: the fill value must be THE mean of the input frame
        means = [r for r in p.st.ghost.get("reductions", []) if r.get("kind") == "mean" and r.get("elem") is p.st.cell(p.ex.inp).elem]
        is_mean = isinstance(fill, VFloat) and any(r["result"] is fill or (not is_conc(fill.v) and z3.eq(to_real(r["result"]), to_real(fill))) for r in means)
        u.oblige(p, "ipc.convolution_call.edges_filled_with_the_frame_mean", bool(is_mean), {"fill_value": repr(fill)}, IPCCONV_REPLAY)
    u.cover("ipc.convolution_call.cover", ps, lambda p: p.kind == "return")


STANDIN = dict(globals().get("STANDIN", {}), **{r"ipc\.convolution_call": IPCCONV_REPLAY})
