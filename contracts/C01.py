"""C01 — enabled models run once per readout, in the fixed physical group order.

Modular chain of contracts (each function is proved against its own contract and used through it above):
  ModelFunction.__call__(detector)   invokes the user function once with (detector, **configured arguments)
  ModelGroup.__iter__                yields filt(models, enabled): the enabled models, list order kept
  ModelGroup.run(detector, debug)    TRACE' = TRACE ++ evs(filt(models), detector)   [loop invariant, symbolic list]
  Processor.run_pipeline(debug)      TRACE' = TRACE ++ expected(pipeline)  with the group order of the STATEMENT
  DetectionPipeline.__init__         property g is None iff the user's list is empty/absent, else a group named g
                                     holding exactly that list
  to_pipeline(dict)                  builds the same pipeline whatever the key order
"""
from __future__ import annotations

import ast

from .common import *  # noqa: F401,F403
from . import defuse as DU
from .trace import *  # noqa: F401,F403

CFG = "pyxel/configuration/configuration.py"
BOUNDED = {
    r'call\.args\.after_change': 'histories of one earlier call and one change; 1..3 configured arguments',
    r'modes\.copies_keep_pipeline': 'processors with ten groups of one model (two models and a namesake in two of them); symbolic names, flags and arguments',
    r'^yaml ': 'YAML documents with 0..2 models per group in canonical and reversed key order',
}      # unit-name / obligation-name patterns -> the family these obligations are proved for
TRUSTED = ["`**mapping` iterates keys() and indexes (Python semantics); user model functions return or raise",
           "logging calls and tqdm are effect-free (dropped)", "ModelGroup.run debug block: abstract block with frame detector._intermediate (deny-list checked syntactically)",
           "call.args and yaml.to_pipeline are proved for 0..3 configured arguments / 0..2 models per group (BOUNDED in that dimension; all other obligations are unbounded)"]
EXPLANATION = "Model lists have symbolic length; the trace is a ghost sequence appended only by the contract of ModelFunction.__call__."


def probe_replay(desc, body):
    """Native scenario: pipelines of probe models recording (group, name, kwargs); `body` sets VIOLATED/DETAIL."""
    return lambda w: {"code": """
import verif_probes as VP
from pyxel.pipelines import DetectionPipeline, ModelFunction, ModelGroup, Processor
CANON = %r
""" % (CANON,) + body, "expect": desc}


# ---- 1. constructor binding ------------------------------------------------------------------------
@unit("C01", "ctor.group_binding")
def ctor_binding(u: Unit):
    fi = u.fn(f"{PL}::DetectionPipeline.__init__")
    ci = u.cls(f"{PL}::DetectionPipeline")
    cfg = base_cfg(u.world)
    seqs = {}

    def setup(ex):
        obj = ex.st.alloc(HObj(ci, {}))
        ex.self_ref = obj
        kw = {}
        for g in CANON:
            kw[g] = seqs[g] = sym_models(ex, u.world, f"models_{g}")
        return [obj], kw
    cfg.merge_optional = True
    ps = u.paths(fi, setup, cfg, max_paths=3000, label="DetectionPipeline.__init__")
    rp = probe_replay("each group property returns the group built from its own list", """
VIOLATED, DETAIL = False, ''
for g in CANON:
    m = ModelFunction(func='verif_probes.probe', name='m_' + g, arguments={})
    p = DetectionPipeline(**{g: [m]})
    for h in CANON:
        grp = getattr(p, h)
        if (h == g) != (grp is not None) or (grp is not None and (grp._name != h or list(grp.models) != [m])):
            VIOLATED, DETAIL = True, f'DetectionPipeline({g}=[m]).{h} -> {grp!r}'
""")
    for p in ps:
        if p.kind != "return":
            u.oblige(p, "ctor.group_binding.returns", False, {}, rp)
            continue
        for g in CANON:
            getter = u.world.function(f"{PL}::DetectionPipeline.{g}")
            grp = p.ex.call(VFunc(getter, p.ex.self_ref), [], {}, Frame(None, ci.module))      # the public property
            n = seqs[g].n
            present, val = (grp.present, grp.val) if isinstance(grp, VMaybe) else ((False, None) if isinstance(grp, VNone) else (True, grp))
            ok = z3.BoolVal(True)
            if val is not None:
                cell = p.st.cell(val)
                ok_struct = isinstance(cell, HObj) and getattr(cell.cls, "name", "") == "ModelGroup" and cell.fields.get("models") is seqs[g]
                nm = cell.fields.get("_name")
                ok = z3.And(zb(ok_struct), zb(str_eq(nm, VStr(g)) if isinstance(nm, VStr) else False))
            u.oblige(p, f"ctor.group_binding[{g}]", z3.And(zb(present) == (n > 0), z3.Implies(zb(present), ok)), {"group": g}, rp)
    u.cover("ctor.cover", ps, lambda p: p.kind == "return")
    names = None
    for e in [ci.classvars.get("MODEL_GROUPS")]:
        names = [x.value for x in e.elts] if isinstance(e, ast.Tuple) else None
    u.static("ctor.group_names_are_the_ten_groups", names is not None and sorted(names) == sorted(CANON), fi.qualname, f"MODEL_GROUPS = {names}")


# ---- 2. ModelGroup.__iter__ -------------------------------------------------------------------------
def iter_spec(models_term):
    def inv(ex, fr, k):
        return ex.st.ghost["YIELD"] == filt(models_term, enabled_array(ex), k)

    def havoc(ex, fr, k):
        ex.st.ghost["YIELD"] = z3.Const(ex.st.fresh_name("YIELD"), IntSeq)
    return LoopSpec("model in self.models", inv, havoc=havoc, name="iter.filter.loop")


@unit("C01", "iter.filter")
def iter_filter(u: Unit):
    fi = u.fn(f"{MG}::ModelGroup.__iter__")
    cfg = base_cfg(u.world)
    mt = z3.Const("models_g", IntSeq)
    cfg.loops[(fi.qualname, 0)] = iter_spec(mt)

    def setup(ex):
        ex.st.ghost["YIELD"] = z3.Empty(IntSeq)
        grp = mk_group(ex, u.world, VStr(z3.String("gname")), sym_models(ex, u.world, "models_g"))
        return [grp], {}
    rp = probe_replay("iteration yields exactly the enabled models in order", """
ms = [ModelFunction(func='verif_probes.probe', name=f'm{i}', arguments={}, enabled=bool(i % 2)) for i in range(5)]
got = [m.name for m in ModelGroup(ms, name='charge_generation')]
VIOLATED = got != ['m1', 'm3']
DETAIL = 'iter(ModelGroup) -> ' + repr(got)
""")
    u.internal_replay, u.internal_witness = rp, {}
    ps = u.paths(fi, setup, cfg, label="ModelGroup.__iter__")
    for p in ps:
        u.oblige(p, "iter.filter", z3.And(zb(p.kind == "return"), p.st.ghost["YIELD"] == filt(mt, enabled_array(p.ex), z3.Length(mt))), {}, rp)
    u.cover("iter.cover", ps, lambda p: p.kind == "return")


# ---- 3. ModelGroup.run ------------------------------------------------------------------------------
DENY_IN_DEBUG = ("model(", "model.func(", ".run(", "self.models", "model.enabled", "model._arguments", "setattr(")


def debug_block(ex, stmt, fr):
    """Abstract block `if debug:` of ModelGroup.run. Declared frame: detector._intermediate (xarray bookkeeping,
    boundary). Anything in it that invokes a model is NOT abstracted: those calls are executed symbolically (so a
    second invocation shows up in TRACE); writes to the model / group objects are outside the frame."""
    types = _typed_names(fr.fi.node, fr.fi.cls.name if fr.fi.cls else None)
    model_names = {n for n, t in types.items() if t == "ModelFunction"}
    for n in ast.walk(ast.Module(body=stmt.body, type_ignores=[])):
        if isinstance(n, (ast.Assign, ast.AugAssign)):
            for t in (n.targets if isinstance(n, ast.Assign) else [n.target]):
                root = ast.unparse(t)
                if root.startswith(tuple(f"{m}." for m in model_names | {"self"})):
                    raise Unsupported(f"debug block assigns {root}: outside the declared frame")
    for n in ast.walk(ast.Module(body=stmt.body, type_ignores=[])):
        if isinstance(n, ast.Call):
            f = ast.unparse(n.func)
            if f in model_names or f in {f"{m}.__call__" for m in model_names} or f == "self.run" or f.endswith(".run_pipeline"):
                ex.ev(n, fr)
            elif f in {f"{m}.func" for m in model_names}:
                raise Unsupported("debug block calls the user function directly")
    ex.st.assumptions.add("ModelGroup.run debug block abstracted (frame: detector._intermediate); model invocations inside it are executed")


def run_loop_spec(F_of):
    def inv(ex, fr, k):
        F, d = F_of(ex, fr)
        return ex.st.ghost["TRACE"] == z3.Concat(ex.trace0, evs(F, d, k))

    def havoc(ex, fr, k):
        ex.st.ghost["TRACE"] = z3.Const(ex.st.fresh_name("TRACE"), EvSeq)
        ex.st.ghost["LOOP_K"] = k

    def seq(ex, fr, it):
        F, d = F_of(ex, fr)
        ci = ex.world.cls(f"{MF}::ModelFunction")
        return VSeq(z3.Length(F), lambda i, F=F: VSym(ci, F[i]), F, "list")
    return LoopSpec("model in self", inv, havoc=havoc, seq=seq, name="group_run.loop")


def run_cfg(u, may_raise):
    cfg = base_cfg(u.world)
    fi = u.fn(f"{MG}::ModelGroup.run")
    cfg.contracts[call_contract(u.world).qualname] = call_contract(u.world, may_raise)
    cfg.abstract_blocks[(fi.qualname, "debug")] = debug_block
    cfg.loops[(fi.qualname, 0)] = run_loop_spec(lambda ex, fr: (group_F(ex, fr.locals["self"]), det_term(fr.locals["detector"])))
    return cfg, fi


RUN_REPLAY = probe_replay("group run invokes each enabled model once, in order; a failing model's exception escapes with a note", """
VP.LOG.clear()
ms = [ModelFunction(func='verif_probes.probe', name=f'm{i}', arguments={'tag': i}, enabled=(i != 1)) for i in range(4)]
ms[2] = ModelFunction(func='verif_probes.failing', name='m2', arguments={'tag': 2})
det = VP.detector()
det.set_readout(times=[1.0], start_time=0.0)      # the debug capture reads the clock
VIOLATED, DETAIL = False, ''
for debug in (False, True):
    VP.LOG.clear()
    try:
        ModelGroup(ms, name='charge_generation').run(detector=det, debug=debug)
        VIOLATED, DETAIL = True, 'the failing model did not fail the group run'
    except VP.ProbeError as e:
        notes = ' '.join(getattr(e, '__notes__', []))
        if 'charge_generation' not in notes or 'm2' not in notes:
            VIOLATED, DETAIL = True, 'note lacks group/model: ' + repr(notes)
    except Exception as e:
        VIOLATED, DETAIL = True, 'exception replaced by ' + repr(e)
    names = [x['name'] for x in VP.LOG]
    if names != ['m0', 'm2']:
        VIOLATED, DETAIL = True, f'debug={debug}: models invoked {names}, expected [m0, m2]'
""")


@unit("C01", "group_run.trace")
def group_run(u: Unit):
    """Normal and exceptional exits of ModelGroup.run, debug on and off (also carries C09's obligations)."""
    for may_raise in (False, True):
        cfg, fi = run_cfg(u, may_raise)
        det = VSym("Detector", z3.Int("det"))
        gname = VStr(z3.String("gname"))
        u.internal_replay, u.internal_witness = RUN_REPLAY, {}

        def setup(ex):
            init_trace(ex)
            grp = mk_group(ex, u.world, gname, sym_models(ex, u.world, "models_g"))
            ex.st.cell(grp).fields["_log"] = VOpaque("logger")
            ex.self_ref = grp
            return [grp], {"detector": det, "debug": VBool(z3.Bool("debug"))}
        ps = u.paths(fi, setup, cfg, label=f"ModelGroup.run[raise={may_raise}]")
        tag = "with_failures" if may_raise else "no_failures"
        for p in ps:
            F = group_F(p.ex, p.ex.self_ref)
            if p.kind == "return":
                u.oblige(p, f"group_run.trace[{tag}]", p.st.ghost["TRACE"] == z3.Concat(p.ex.trace0, evs(F, det.t, z3.Length(F))), {}, RUN_REPLAY)
            else:
                e = p.st.ghost.get("MODEL_EXC")
                same = isinstance(p.value, VSym) and e is not None and z3.eq(p.value.t, e.t)
                u.oblige(p, f"group_run.exception_is_the_models[{tag}]", bool(same), {}, RUN_REPLAY)
                j = p.st.ghost["LOOP_K"] + 1       # the failing model is the one of the generic iteration
                u.oblige(p, f"group_run.trace_prefix_on_failure[{tag}]",
                         z3.And(j >= 1, j <= z3.Length(F), p.st.ghost["TRACE"] == z3.Concat(p.ex.trace0, evs(F, det.t, j))), {}, RUN_REPLAY)
                notes = p.st.ghost.get("NOTES", {}).get(str(e.t), []) if e is not None else []
                failing = p.st.ghost["TRACE"]
                last = failing[z3.Length(failing) - 1]
                mname = z3.Select(p.ex.sym_field_array("ModelFunction", "_name"), Event.model(last))
                ok = z_or(*[z3.And(z3.Contains(z_str(n.v), z_str(gname.v)), z3.Contains(z_str(n.v), mname)) for n in notes if isinstance(n, VStr)])
                from pyvc.engine import exc_subclass
                # KeyboardInterrupt-like BaseExceptions pass through without a note; every Exception gets one
                u.oblige(p, f"group_run.note_names_group_and_model[{tag}]", z3.Implies(exc_subclass(e.t, z3.StringVal("Exception")), zb(ok)), {}, RUN_REPLAY)
        u.cover(f"group_run.cover[{tag}]", ps, lambda p: p.kind == "return")
        if may_raise:
            u.cover("group_run.cover_failure", ps, lambda p: p.kind == "raise")


# ---- 4. ModelFunction.__call__ ----------------------------------------------------------------------
@unit("C01", "call.args")
def call_args(u: Unit):
    fi = u.fn(f"{MF}::ModelFunction.__call__")
    u.fn(f"{MF}::ModelFunction.func")
    u.fn(f"{MF}::ModelFunction.__init__")
    u.fn(f"{MF}::Arguments.__init__")
    u.fn(f"{MF}::Arguments.__getitem__")
    u.fn(f"{MF}::Arguments.__iter__")
    ci = u.cls(f"{MF}::ModelFunction")
    rp = probe_replay("the user function receives the detector and exactly the configured arguments", """
VP.LOG.clear()
det = VP.detector()
args = {'level': 3, 'option': 'foo', 'flag': None}
ModelFunction(func='verif_probes.probe', name='m', arguments=dict(args))(det)
VIOLATED = len(VP.LOG) != 1 or VP.LOG[0]['kwargs'] != args or VP.LOG[0]['detector'] is not det
DETAIL = 'call log: ' + repr([(x['name'], x['kwargs']) for x in VP.LOG])
""")
    for nargs in range(4):
        cfg = base_cfg(u.world)
        calls = []

        def user_call(ex, f, args, kwargs, fr):
            calls.append((f, list(args), dict(kwargs)))
            return NONE
        cfg.lib_overrides[("call", "userfunc")] = user_call
        cfg.lib_overrides["pyxel.evaluator.evaluate_reference"] = lambda ex, f, args, kwargs, fr: VOpaque("userfunc", z3.Int("userfunc"), {"name": args[0]})
        cfg.contracts[f"pyxel/evaluator.py::evaluate_reference"] = Contract("pyxel/evaluator.py::evaluate_reference", lambda ex, args, kwargs, fr: VOpaque(
            "userfunc", z3.Int("userfunc"), {"name": args[0]}), "resolves the dotted name to the user's callable (boundary: importlib)")
        cfg.lib_overrides[("opaque_attr", "userfunc")] = lambda ex, obj, name, fr: ex.throw("AttributeError", name)
        det = VSym("Detector", z3.Int("det"))
        cfg.lib_overrides[("sym_setattr", "Detector")] = lambda ex, obj, name, val, fr: ex.st.events.append(("det_set", name, val))
        vals = [VInt(z3.Int(f"argval{i}")) for i in range(nargs)]

        def setup(ex, nargs=nargs, vals=vals):
            calls.clear()
            d = ex.st.alloc(HDict([(VStr(f"a{i}"), vals[i]) for i in range(nargs)]))
            mf = ex.instantiate(ci, [], {"func": VStr(z3.String("func_name")), "name": VStr(z3.String("mname")), "arguments": d,
                                         "enabled": VBool(z3.Bool("enabled"))}, Frame(None, ci.module))
            ex.self_ref = mf
            return [mf, det], {}
        ps = u.paths(fi, setup, cfg, label=f"ModelFunction.__call__[{nargs} args]")
        for p in ps:
            if p.kind != "return":
                u.oblige(p, f"call.args[{nargs}].returns", False, {}, rp)
                continue
            ok = len(calls) == 1
            if ok:
                f, a, kw = calls[0]
                ok = (len(a) == 1 and a[0] is det and sorted(kw) == [f"a{i}" for i in range(nargs)]
                      and all(kw[f"a{i}"] is vals[i] for i in range(nargs)) and f.info["name"].v is p.st.cell(p.ex.self_ref).fields["_func_name"].v)
            u.oblige(p, f"call.args[{nargs}]", bool(ok), {"nargs": nargs}, rp)
        u.cover(f"call.cover[{nargs}]", ps, lambda p: p.kind == "return")
        if nargs == 0:
            continue
        # HISTORY: the same model object is called at every readout step and by every run that shares the pipeline; between two
        # calls a configuration value may be changed through the model's Arguments (what Processor.set / a parameter sweep do).
        # The later call receives the values configured AT THAT CALL: nothing is remembered from the earlier one.
        u.fn(f"{MF}::Arguments.__setitem__")
        for how in ("item", "attribute"):
            newval = VInt(z3.Int("changed_value"))
            hist = {}

            def setup_h(ex, nargs=nargs, vals=vals, how=how, newval=newval):
                calls.clear()
                hist.clear()
                d = ex.st.alloc(HDict([(VStr(f"a{i}"), vals[i]) for i in range(nargs)]))
                mf = ex.instantiate(ci, [], {"func": VStr(z3.String("func_name")), "name": VStr(z3.String("mname")), "arguments": d,
                                             "enabled": VBool(z3.Bool("enabled"))}, Frame(None, ci.module))
                ex.self_ref = mf
                fr0 = Frame(None, ci.module)
                try:
                    ex.call_function(VFunc(fi), [mf, det], {}, fr0)                    # the earlier call
                    argobj = ex.getattr(mf, "arguments", fr0)
                    if how == "item":
                        ex.call(ex.getattr(argobj, "__setitem__", fr0), [VStr(f"a{nargs - 1}"), newval], {}, fr0)
                    else:
                        ex.setattr(argobj, f"a{nargs - 1}", newval, fr0)
                except PyExc as pe:
                    hist["failed"] = ex.exc_class_name(pe.val)
                hist["earlier_calls"] = len(calls)
                return [mf, det], {}
            rh = probe_replay("a later call of the same model receives the arguments as configured at that call", """
VP.LOG.clear()
det = VP.detector()
m = ModelFunction(func='verif_probes.probe', name='m', arguments={'level': 3, 'option': 'foo'})
m(det); m.arguments['level'] = 4; m(det); m.arguments.option = 'bar'; m(det)
got = [x['kwargs'] for x in VP.LOG]
VIOLATED = got != [{'level': 3, 'option': 'foo'}, {'level': 4, 'option': 'foo'}, {'level': 4, 'option': 'bar'}]
DETAIL = 'arguments received by three successive calls (level changed before the 2nd, option before the 3rd): ' + repr(got)
""")
            ps = u.paths(fi, setup_h, cfg, label=f"ModelFunction.__call__[{nargs} args, after a change by {how}]")
            for p in ps:
                if p.kind != "return" or hist.get("failed"):
                    u.oblige(p, f"call.args.after_change[{nargs},{how}].returns", False, {"failed": hist.get("failed")}, rh)
                    continue
                ok = len(calls) == 2 and hist.get("earlier_calls") == 1
                if ok:
                    f, a, kw = calls[1]
                    want = vals[:-1] + [newval]
                    ok = len(a) == 1 and a[0] is det and sorted(kw) == [f"a{i}" for i in range(nargs)] and all(kw[f"a{i}"] is want[i] for i in range(nargs))
                u.oblige(p, f"call.args.after_change[{nargs},{how}]", bool(ok), {"nargs": nargs, "changed": f"a{nargs - 1}"}, rh)
            u.cover(f"call.after_change.cover[{nargs},{how}]", ps, lambda p: p.kind == "return")


# ---- 5. Processor.run_pipeline ------------------------------------------------------------------------
ORDER_REPLAY = probe_replay("groups run in the canonical physical order, each enabled model once", """
VP.LOG.clear()
kw = {g: [ModelFunction(func='verif_probes.probe', name=f'{g}_{i}', arguments={}, enabled=(i != 1)) for i in range(3)] for g in CANON}
det = VP.detector()
Processor(detector=det, pipeline=DetectionPipeline(**kw)).run_pipeline(debug=False)
got = [x['name'] for x in VP.LOG]
exp = [f'{g}_{i}' for g in CANON for i in (0, 2)]
VIOLATED = got != exp
DETAIL = 'order of invocation: ' + repr(got)
""")


def pipeline_loop_spec():
    """Loop over the group names of Processor.run_pipeline, proved for a generic group index: after i groups the trace
    is the events of the first i groups OF THE STATEMENT'S ORDER. The names come from the code's own tuple."""
    def proc(fr):
        return fr.locals["self"]

    def inv(ex, fr, k):
        pr = ex.st.cell(proc(fr))
        return z3.And(k >= 0, k <= len(CANON), ex.st.ghost["TRACE"] == z3.Concat(ex.trace0, expected_prefix(ex, pr.fields["pipeline"], pr.fields["detector"], k)))

    def havoc(ex, fr, k):
        ex.st.ghost["TRACE"] = z3.Const(ex.st.fresh_name("TRACE"), EvSeq)
        ex.st.ghost["LOOP_K"] = k

    def seq(ex, fr, it):
        items = ex.iterate(it, fr)

        def get(i):
            out = z_str(items[-1].v)
            for j in range(len(items) - 2, -1, -1):
                out = z3.If(i == j, z_str(items[j].v), out)
            return VStr(out)
        return VSeq(z3.IntVal(len(items)), get, None, "tuple")
    return LoopSpec("group_name in self.pipeline.model_group_names", inv, havoc=havoc, seq=seq, name="run_pipeline.loop")


@unit("C01", "run_pipeline.order")
def run_pipeline_order(u: Unit):
    fi = u.fn(f"{PR}::Processor.run_pipeline")
    u.fn(f"{PL}::DetectionPipeline.model_group_names")
    pci = u.cls(f"{PR}::Processor")
    cfg = base_cfg(u.world)
    rc = run_contract(u.world, may_raise=True)
    cfg.contracts[rc.qualname] = rc
    cfg.loops[(fi.qualname, 0)] = pipeline_loop_spec()
    cfg.lib_overrides[("getattr_sym",)] = getattr_symbolic_group
    det = VSym("Detector", z3.Int("det"))
    u.internal_replay, u.internal_witness = ORDER_REPLAY, {}

    def setup(ex):
        init_trace(ex)
        pipe = mk_pipeline(ex, u.world)
        proc = ex.st.alloc(HObj(pci, {"detector": det, "pipeline": pipe, "_log": VOpaque("logger")}))
        ex.self_ref, ex.pipe = proc, pipe
        return [proc], {"debug": VBool(z3.Bool("debug"))}
    ps = u.paths(fi, setup, cfg, max_paths=20000, label="Processor.run_pipeline")
    for p in ps:
        if p.kind == "return":
            u.oblige(p, "run_pipeline.order", p.st.ghost["TRACE"] == z3.Concat(p.ex.trace0, expected_pipeline_trace(p.ex, p.ex.pipe, det)), {}, ORDER_REPLAY)
        else:
            e = p.st.ghost.get("MODEL_EXC")
            u.oblige(p, "run_pipeline.exception_is_the_models", bool(isinstance(p.value, VSym) and e is not None and z3.eq(p.value.t, e.t)), {}, ORDER_REPLAY)
    u.cover("run_pipeline.cover", ps, lambda p: p.kind == "return")
    u.cover("run_pipeline.cover_failure", ps, lambda p: p.kind == "raise")
    # the group-name tuple iterated by the loop has exactly the ten groups (completeness of the case split)
    ci = u.cls(f"{PL}::DetectionPipeline")
    e = ci.classvars.get("MODEL_GROUPS")
    names = [x.value for x in e.elts] if isinstance(e, ast.Tuple) else None
    u.static("run_pipeline.ten_groups", names is not None and len(names) == 10 and sorted(names) == sorted(CANON), fi.qualname, f"MODEL_GROUPS = {names}")


# ---- 6. YAML construction ---------------------------------------------------------------------------
@unit("C01", "yaml.to_pipeline")
def yaml_to_pipeline(u: Unit):
    fi = u.fn(f"{CFG}::to_pipeline")
    u.fn(f"{CFG}::to_model_function")
    cfg = base_cfg(u.world)
    rp = probe_replay("to_pipeline builds the same groups whatever the key order", """
from pyxel.configuration.configuration import to_pipeline
import random
VIOLATED, DETAIL = False, ''
for seed in range(5):
    keys = CANON[:]; random.Random(seed).shuffle(keys)
    dct = {g: ([dict(func='verif_probes.probe', name=f'{g}_{i}', arguments={'i': i}, enabled=bool(i % 2)) for i in range(2)] if k % 3 else None) for k, g in enumerate(keys)}
    expect = {g: (None if v is None else [(m['name'], m['enabled'], m['arguments']) for m in v]) for g, v in dct.items()}
    p = to_pipeline(dict(dct))
    for g in CANON:
        grp = getattr(p, g)
        got = None if grp is None else [(m.name, m.enabled, dict(m.arguments)) for m in grp.models]
        if got != (expect.get(g) or None):
            VIOLATED, DETAIL = True, f'key order {keys}: group {g} -> {got}, expected {expect.get(g)}'
""")
    for order in ("canonical", "reversed"):
        for nmodels in (0, 1, 2):
            keys = CANON if order == "canonical" else list(reversed(CANON))
            made = {}

            def setup(ex, keys=keys, nmodels=nmodels):
                items = []
                for gi, g in enumerate(keys):
                    if gi % 3 == 2:
                        items.append((VStr(g), NONE))
                        continue
                    lst = []
                    for i in range(nmodels):
                        lst.append(ex.st.alloc(HDict([(VStr("func"), VStr(z3.String(f"f_{g}_{i}"))), (VStr("name"), VStr(z3.String(f"n_{g}_{i}"))),
                                                      (VStr("enabled"), VBool(z3.Bool(f"e_{g}_{i}")))])))
                    items.append((VStr(g), ex.st.alloc(HList(lst))))
                d = ex.st.alloc(HDict(items))
                return [d], {}
            ps = u.paths(fi, setup, cfg, label=f"to_pipeline[{order},{nmodels}]")
            for p in ps:
                if p.kind != "return":
                    u.oblige(p, f"yaml.to_pipeline[{order},{nmodels}].returns", False, {}, rp)
                    continue
                pipe = p.st.cell(p.value)
                ok = True
                for gi, g in enumerate(keys):
                    grp = pipe.fields.get("_" + g)
                    if gi % 3 == 2 or nmodels == 0:
                        ok = ok and isinstance(grp, VNone)
                        continue
                    if isinstance(grp, VNone):
                        ok = False
                        continue
                    gc = p.st.cell(grp)
                    ms = p.ex.try_list(gc.fields["models"]) or []
                    ok = ok and isinstance(gc.fields["_name"], VStr) and gc.fields["_name"].v == g and len(ms) == nmodels
                    for i, m in enumerate(ms):
                        mc = p.st.cell(m)
                        ok = ok and str(mc.fields["_name"].v) == f"n_{g}_{i}" and str(mc.fields["_func_name"].v) == f"f_{g}_{i}" and str(mc.fields["enabled"].v) == f"e_{g}_{i}"
                u.oblige(p, f"yaml.to_pipeline[{order},{nmodels}]", bool(ok), {}, rp)
            u.cover(f"yaml.cover[{order},{nmodels}]", ps, lambda p: p.kind == "return")

    # ALIASES: a model entry written once with a YAML anchor and re-used (`- *entry`) is ONE mapping object appearing at several places of
    # the document; every occurrence is built with the configured name, function, switch and arguments, and the document is not changed
    rp_alias = probe_replay("a model entry re-used through a YAML alias is built with its configuration at every occurrence", """
import yaml
from pyxel.configuration.configuration import to_pipeline
text = (
    'charge_generation:\\n'
    '  - &entry\\n'
    '    name: probe\\n'
    '    func: verif_probes.probe\\n'
    '    enabled: false\\n'
    '    arguments: {level: 3, option: foo}\\n'
    'photon_collection:\\n'
    '  - *entry\\n'
    '  - {name: other, func: verif_probes.probe, enabled: true, arguments: {level: 1}}\\n'
    'charge_measurement:\\n'
    '  - *entry\\n')
doc = yaml.safe_load(text)
before = yaml.safe_load(text)
p = to_pipeline(doc)
got = [(g, [(m.name, m.enabled, dict(m.arguments)) for m in getattr(p, g).models]) for g in ('photon_collection', 'charge_generation', 'charge_measurement')]
want_probe = ('probe', False, {'level': 3, 'option': 'foo'})
VIOLATED = got != [('photon_collection', [want_probe, ('other', True, {'level': 1})]), ('charge_generation', [want_probe]), ('charge_measurement', [want_probe])]
DETAIL = f'models built from the aliased entry: {got}'
""")
    for args_given in (True, False):
        hold = {}

        def setup_alias(ex, args_given=args_given):
            entry_items = [(VStr("func"), VStr(z3.String("f_shared"))), (VStr("name"), VStr(z3.String("n_shared"))), (VStr("enabled"), VBool(z3.Bool("e_shared")))]
            if args_given:
                entry_items.append((VStr("arguments"), ex.st.alloc(HDict([(VStr("level"), VInt(z3.Int("shared_level")))]))))
            entry = ex.st.alloc(HDict(entry_items))
            d = ex.st.alloc(HDict([(VStr("photon_collection"), ex.st.alloc(HList([entry]))), (VStr("charge_generation"), ex.st.alloc(HList([entry, entry]))),
                                   (VStr("charge_measurement"), ex.st.alloc(HList([entry])))]))
            from . import C08 as _C08
            hold.update(upto=ex.st.next_addr, snap=_C08.snapshot(ex), entry={entry.addr} | ({entry_items[-1][1].addr} if args_given else set()))
            return [d], {}
        ps = u.paths(fi, setup_alias, cfg, label=f"to_pipeline[aliased entry, arguments {'given' if args_given else 'absent'}]")
        tag = "with arguments" if args_given else "without arguments"
        for p in ps:
            if p.kind != "return":
                u.oblige(p, f"yaml.to_pipeline.alias[{tag}].returns", False, {"exc": p.exc_name()}, rp_alias)
                continue
            pipe = p.st.cell(p.value)
            ok, n_built = True, 0
            for g, n in (("photon_collection", 1), ("charge_generation", 2), ("charge_measurement", 1)):
                grp = pipe.fields.get("_" + g)
                ms = (p.ex.try_list(p.st.cell(grp).fields["models"]) or []) if isinstance(grp, VRef) else []
                ok = ok and len(ms) == n
                for m in ms:
                    mc = p.st.cell(m)
                    n_built += 1
                    ok = ok and str(mc.fields["_name"].v) == "n_shared" and str(mc.fields["_func_name"].v) == "f_shared" and str(mc.fields["enabled"].v) == "e_shared"
                    ad = p.st.cell(p.st.cell(mc.fields["_arguments"]).fields["_arguments"]).items if isinstance(mc.fields.get("_arguments"), VRef) else None
                    ok = ok and ad is not None and ([(str(k.v), str(v.v)) for k, v in ad] == ([("level", "shared_level")] if args_given else []))
            u.oblige(p, f"yaml.to_pipeline.alias[{tag}].every_occurrence_configured", bool(ok and n_built == 4), {"built": n_built}, rp_alias)
            from . import C08 as _C08
            # the ENTRY mapping (and its arguments) is what the other occurrences will be built from: it must be left as it was
            # (to_pipeline replaces the top-level lists of the document by the built groups: not part of this obligation)
            touched = [c for c in _C08.changed(p.ex, hold["snap"], hold["upto"]) if c[0][0] in hold["entry"]]
            u.oblige(p, f"yaml.to_pipeline.alias[{tag}].entry_unchanged", not touched, {"changed": str(touched)[:200]}, rp_alias)
        u.cover(f"yaml.alias.cover[{tag}]", ps, lambda p: p.kind == "return")

    def setup_bad(ex):
        d = ex.st.alloc(HDict([(VStr("photon_colection"), NONE)]))
        return [d], {}
    ps = u.paths(fi, setup_bad, cfg, label="to_pipeline[unknown key]")
    for p in ps:
        u.oblige(p, "yaml.to_pipeline.unknown_group_rejected", p.kind == "raise" and p.exc_name() == "TypeError", {}, rp)


# ---- 7. single entry point ---------------------------------------------------------------------------
def _functions(tree):
    """(function node, enclosing class name | None) for every function of a module."""
    out = []

    def walk(node, cls):
        for n in ast.iter_child_nodes(node):
            if isinstance(n, ast.ClassDef):
                walk(n, n.name)
            elif isinstance(n, (ast.FunctionDef, ast.AsyncFunctionDef)):
                out.append((n, cls))
                walk(n, cls)
            else:
                walk(n, cls)
    walk(tree, None)
    return out


def _typed_names(fn, cls_name):
    """Names of a function known to hold a ModelFunction / ModelGroup: from annotations (parameters, annotated
    assignments) and from iteration over a ModelGroup / its `.models` (the NAMES themselves are incidental)."""
    types = {}

    def of_ann(a):
        t = ast.unparse(a) if a is not None else ""
        for k in ("ModelFunction", "ModelGroup"):
            if k in t and "Sequence" not in t and "list" not in t.lower() and "Iterator" not in t:
                return k
        return None
    for a in fn.args.args + fn.args.kwonlyargs:
        if of_ann(a.annotation):
            types[a.arg] = of_ann(a.annotation)
    if cls_name in ("ModelFunction", "ModelGroup") and fn.args.args and fn.args.args[0].arg == "self":
        types["self"] = cls_name
    for _ in range(2):
        for n in ast.walk(fn):
            if isinstance(n, ast.AnnAssign) and isinstance(n.target, ast.Name) and of_ann(n.annotation):
                types[n.target.id] = of_ann(n.annotation)
            if isinstance(n, (ast.For, ast.comprehension)) and isinstance(n.target, ast.Name):
                it = n.iter
                if (isinstance(it, ast.Name) and types.get(it.id) == "ModelGroup") or (isinstance(it, ast.Attribute) and it.attr == "models"):
                    types[n.target.id] = "ModelFunction"
    return types



@unit("C01", "modes.single_entry")
def single_entry(u: Unit):
    """Outside pyxel/models, user model functions are invoked only inside ModelFunction.__call__, model objects are
    called only inside ModelGroup.run, groups are run only by Processor.run_pipeline (call-graph obligations)."""
    sites = {"func_call": [], "model_call": [], "group_run": []}
    for mi in u.world.all_modules():
        if mi.relpath.startswith(("pyxel/models/", "pyxel/util/")):
            continue        # pyxel/util/timing.py is a profiling helper, not a running mode (stated scope)
        for fn, cls_name in _functions(mi.tree):
            types = _typed_names(fn, cls_name)
            for n in ast.walk(fn):
                if not isinstance(n, ast.Call):
                    continue
                f = n.func
                if isinstance(f, ast.Name) and f.id not in types:        # `func = self.func; func(detector, ...)`
                    f = DU.resolve(fn, f)
                if isinstance(f, ast.Attribute) and f.attr == "func" and ast.unparse(f) != "self.fitness_func":
                    sites["func_call"].append(f"{mi.relpath}:{n.lineno}")
                if isinstance(f, ast.Name) and types.get(f.id) == "ModelFunction":
                    sites["model_call"].append(f"{mi.relpath}:{n.lineno}")
                if isinstance(f, ast.Attribute) and f.attr == "run" and isinstance(f.value, ast.Name) and types.get(f.value.id) == "ModelGroup":
                    sites["group_run"].append(f"{mi.relpath}:{n.lineno}")
    for label, key, home, what in (("user function", "func_call", MF, "<x>.func(...)"), ("model object", "model_call", MG, "a ModelFunction object"),
                                   ("group run", "group_run", PR, "<ModelGroup>.run(...)")):
        u.static(f"modes.single_entry[{label}]", all(s.startswith(home) for s in sites[key]), "", f"calls of {what}: {sites[key]}")
        if not sites[key]:      # the call-site pattern recognises nothing at all: the obligation above would be vacuous
            u.undecide(f"modes.single_entry[{label}].cover", "", f"no call of {what} recognised anywhere (vacuity guard)")


# ---- 8. the copies made for observation / calibration runs carry the same pipeline ---------------------------------------
def _copies(u: Unit):
    """"Identically in every running mode": observation and calibration run COPIES of the processor (Processor.__deepcopy__,
    create_new_processor, Processor.replace, update_processor). Each copy is structurally equal to the original — all ten
    groups, every model, flag and argument (C06's units, scenario with every group populated)."""
    from . import C06
    C06.deepcopy_unit(u)
    for name in ("new_processor", "replace"):
        dict(verify_units("C06"))[name](u)
    C06.calib_update(u)


def verify_units(prop):
    from pyvc import verify
    return verify.UNITS.get(prop, [])


unit("C01", "modes.copies_keep_pipeline")(_copies)


# overrides given to run_mode are part of the configuration the models run with (shared with C08)
from . import C08 as _C08o  # noqa: E402
unit("C01", "overrides")(_C08o.overrides_unit)


# ---- 9. evaluate_reference: the configured dotted name resolves to THAT attribute of THAT module ------------------------------------------
REF_REPLAY = lambda w: {"code": """
import types, sys
from pyxel.evaluator import evaluate_reference
pkg, sub = types.ModuleType('vp_pkg'), types.ModuleType('vp_pkg.sub')
def f(): return 'pkg.f'
def g(): return 'sub.f'
pkg.f, sub.f, sub.value, pkg.sub = f, g, 3, sub
sys.modules['vp_pkg'], sys.modules['vp_pkg.sub'] = pkg, sub
VIOLATED, DETAIL = False, 'a dotted name resolves to the named attribute of the named module'
for ref, want in (('vp_pkg.f', f), ('vp_pkg.sub.f', g)):
    try:
        got = evaluate_reference(ref)
    except Exception as e:
        got = f'{type(e).__name__}: {e}'
    if got is not want:
        VIOLATED, DETAIL = True, f"evaluate_reference({ref!r}) -> {got!r}, expected the function {ref}"
for bad, exc in (('', ImportError), ('nodots', ImportError), ('vp_pkg.missing', ImportError), ('vp_nopkg.f', ModuleNotFoundError), ('vp_pkg.sub.value', TypeError)):
    try:
        r = evaluate_reference(bad); VIOLATED, DETAIL = True, f'evaluate_reference({bad!r}) returned {r!r}'
    except exc:
        pass
    except Exception as e:
        VIOLATED, DETAIL = True, f'evaluate_reference({bad!r}) raised {type(e).__name__}, expected {exc.__name__}'
""", "expect": "module = text before the last dot, attribute = text after it; anything unresolvable is an error"}


@unit("C01", "reference.resolve")
def reference_resolve(u: Unit):
    """evaluate_reference(s) for EVERY string s: with no dot (or empty) ImportError; otherwise importlib.import_module is asked for exactly
    the text before the LAST dot and the result is the attribute named by the text after it of the module that came back (never another
    module, never a cached earlier answer); a missing module -> ModuleNotFoundError, a missing attribute -> ImportError, a non-callable
    -> TypeError. importlib / getattr / callable are the boundary (arbitrary outcomes)."""
    fi = u.fn("pyxel/evaluator.py::evaluate_reference")
    S = z3.String("reference")
    cfg = Cfg("real")
    rec = {}

    def import_module(ex, f, args, kwargs, fr):
        rec.setdefault("imports", []).append(args[0])
        k = ex.st.choose([True, True])
        if k == 1:
            ex.throw("ModuleNotFoundError", "no such module")
        return VOpaque("module", ex.st.fresh_int("module"), {"name": args[0]})

    def getattr_(ex, f, args, kwargs, fr):
        if not (isinstance(args[0], VOpaque) and args[0].kind == "module"):
            raise Unsupported("getattr on a non-module in evaluate_reference")
        rec.setdefault("getattrs", []).append((args[0], args[1]))
        if ex.st.choose([True, True]) == 1:
            ex.throw("AttributeError", "no such attribute")
        return VOpaque("attr", ex.st.fresh_int("attr"), {"module": args[0], "name": args[1], "callable": ex.st.fresh_bool("is_callable")})
    cfg.lib_overrides["importlib.import_module"] = import_module
    cfg.lib_overrides["builtins.getattr"] = getattr_
    cfg.lib_overrides["builtins.callable"] = lambda ex, f, args, kwargs, fr: VBool(args[0].info["callable"]) if isinstance(args[0], VOpaque) and args[0].kind == "attr" else VBool(False)

    def setup(ex):
        rec.clear()
        return [VStr(S)], {}
    ps = u.paths(fi, setup, cfg, label="evaluate_reference")
    dot = z3.StringVal(".")
    last = z3.LastIndexOf(S, dot)
    for p in ps:
        imports, gets = rec.get("imports", []), rec.get("getattrs", [])
        if p.kind == "return":
            ok = isinstance(p.value, VOpaque) and p.value.kind == "attr" and len(imports) == 1 and len(gets) == 1 and gets[0][0] is p.value.info["module"] and p.value.info["module"].info["name"] is imports[0] \
                and isinstance(imports[0], VStr) and isinstance(gets[0][1], VStr)
            goal = z3.And(z3.Contains(S, dot), z_str(imports[0].v) == z3.SubString(S, 0, last), z_str(gets[0][1].v) == z3.SubString(S, last + 1, z3.Length(S) - last - 1), p.value.info["callable"]) if ok else z3.BoolVal(False)
            u.oblige(p, "reference.resolve.module_and_attribute", goal, {"reference": S}, REF_REPLAY)
        else:
            name = p.exc_name()
            if not imports:
                u.oblige(p, "reference.resolve.refused_without_module_path", z3.And(zb(name == "ImportError"), z3.Or(z3.Length(S) == 0, z3.Not(z3.Contains(S, dot)))), {"reference": S, "exc": name}, REF_REPLAY)
            elif not gets:
                u.oblige(p, "reference.resolve.missing_module", name == "ModuleNotFoundError", {"exc": name}, REF_REPLAY)
            else:
                u.oblige(p, "reference.resolve.missing_or_not_callable", name in ("ImportError", "TypeError"), {"exc": name}, REF_REPLAY)
    u.cover("reference.resolve.cover", ps, lambda p: p.kind == "return")
    u.cover("reference.resolve.all_outcomes", ps, lambda p: True)
    for exc in ("ImportError", "ModuleNotFoundError", "TypeError"):
        u.cover(f"reference.resolve.outcome[{exc}]", ps, lambda p, exc=exc: p.kind == "raise" and p.exc_name() == exc)


# ---- 10. ModelGroup in a HISTORY: iterate, switch models on / off, iterate again ------------------------------------------------------------
TOGGLE_REPLAY = probe_replay("the models a group runs are the ones enabled AT THAT RUN", """
VP.LOG.clear()
ms = [ModelFunction(func='verif_probes.probe', name=f'm{i}', arguments={}, enabled=(i != 1)) for i in range(4)]
pipe = DetectionPipeline(photon_collection=ms)
det = VP.detector(); det.set_readout(times=[1.0], start_time=0.0)
proc = Processor(detector=det, pipeline=pipe)
repr(pipe); [m.name for m in pipe.photon_collection]                       # the group is displayed / iterated before anything is changed
proc.run_pipeline(debug=False)
first = [x['name'] for x in VP.LOG]; VP.LOG.clear()
ms[0].enabled = False; ms[1].enabled = True                                  # what Processor.set('...m0.enabled', False) does
proc.set('pipeline.photon_collection.m3.enabled', False)
proc.run_pipeline(debug=False)
second = [x['name'] for x in VP.LOG]
VIOLATED = first != ['m0', 'm2', 'm3'] or second != ['m1', 'm2']
DETAIL = f'first run {first}; after disabling m0 and m3 and enabling m1 the second run executes {second}'
""")


@unit("C01", "iter.history")
def iter_history(u: Unit):
    """ModelGroup.__iter__ on a group built by the REAL constructor (whatever private fields it has) with three models whose switches are
    arbitrary: iterate once, then give every switch an arbitrary NEW value through the model's `enabled` attribute (what Processor.set
    and a parameter sweep do), iterate again: the second iteration yields exactly the models enabled THEN, in list order. Bounded in
    the length of the group and of the history."""
    fi = u.fn(f"{MG}::ModelGroup.__iter__")
    u.fn(f"{MG}::ModelGroup.__init__")
    mgc, mfc = u.cls(f"{MG}::ModelGroup"), u.cls(f"{MF}::ModelFunction")
    cfg = base_cfg(u.world)
    old = [z3.Bool(f"enabled_before{i}") for i in range(3)]
    new = [z3.Bool(f"enabled_after{i}") for i in range(3)]
    hold = {}

    def setup(ex):
        hold.clear()
        fr0 = Frame(None, mgc.module)
        try:
            ms = [ex.instantiate(mfc, [], {"func": VStr(f"pkg.mod.f{i}"), "name": VStr(f"m{i}"), "arguments": ex.st.alloc(HDict([])), "enabled": VBool(old[i])}, Frame(None, mfc.module)) for i in range(3)]
            grp = ex.instantiate(mgc, [], {"models": ex.st.alloc(HList(list(ms))), "name": VStr("photon_collection")}, fr0)
            first = ex.iterate(grp, fr0)
            hold["first"] = [m.addr for m in first]
            for i, m in enumerate(ms):
                ex.setattr(m, "enabled", VBool(new[i]), fr0)
            hold["ms"] = [m.addr for m in ms]
        except PyExc as pe:
            hold["failed"] = ex.exc_class_name(pe.val)
            grp = NONE
        hold["grp"] = grp
        return [grp], {}
    ps = u.paths(fi, setup, cfg, label="ModelGroup.__iter__[iterate, toggle, iterate]")
    for p in ps:
        if p.kind != "return" or hold.get("failed"):
            u.oblige(p, "iter.history.returns", False, {"exc": p.exc_name() or hold.get("failed")}, TOGGLE_REPLAY)
            continue
        try:
            second = [m.addr for m in p.ex.iterate(p.value, Frame(None, mgc.module))]
        except Exception as e:
            u.undecide("iter.history.second_iteration_follows_the_current_switches", fi.qualname, f"result of __iter__ cannot be iterated in the model: {e}")
            continue
        ms = hold["ms"]
        # on this path the switches have definite truth values (each was branched on): compare with the solver under the path condition
        s = z3.Solver()
        s.add(*[c for c in p.st.pc if isinstance(c, z3.ExprRef)])
        want_first = z3.And(*[(old[i] if ms[i] in hold["first"] else z3.Not(old[i])) for i in range(3)])
        want_second = z3.And(*[(new[i] if ms[i] in second else z3.Not(new[i])) for i in range(3)])
        order_ok = hold["first"] == [a for a in ms if a in hold["first"]] and second == [a for a in ms if a in second]
        u.oblige(p, "iter.history.first_iteration", z3.And(zb(order_ok), want_first), {}, TOGGLE_REPLAY)
        u.oblige(p, "iter.history.second_iteration_follows_the_current_switches", z3.And(zb(order_ok), want_second),
                 {"yielded first": str([ms.index(a) for a in hold["first"]]), "yielded after the change": str([ms.index(a) for a in second])}, TOGGLE_REPLAY)
    u.cover("iter.history.cover", ps, lambda p: p.kind == "return")


def _dims_order(u: Unit):
    """C07.dims_order (imported late): on the dask path the swept values reach the models' arguments paired BY POSITION with the short
    dimension names: 'every executed model receives exactly the arguments configured for it, in every running mode' needs the names in
    the order of the swept keys."""
    from . import C07 as _C07d
    return _C07d.dims_order(u)


unit("C01", "dims.order")(_dims_order)
