"""Boundary objects (xarray / pandas / dask / tqdm): not modelled algebraically (DESIGN 3.2). Calls into them are
recorded with their arguments in the ghost event list `ex.st.events`, so contracts can state WHAT reaches the
library; results are fresh opaque objects. Nothing tracked by the contracts (heap objects, TRACE, RNG) is changed."""
from __future__ import annotations

from .common import *  # noqa: F401,F403


def xr_obj(ex, label, **info):
    return VOpaque("xr", ex.st.fresh_int("xr"), dict(info, label=label))


def _attr(ex, obj, name, fr):
    if name == "dtype":
        d = obj.info.get("dtype")
        if d is None:
            d = VDtype(ex.st.fresh_int("xr_dtype"))
            ex.st.assume(z3.And(d.v >= 0, d.v < len(DTYPES)))
        ex.st.events.append(("xr_dtype", obj.info.get("label"), d))
        return d
    if name in ("is_empty",):
        b = obj.info.get("is_empty")
        return VBool(b) if b is not None else VBool(ex.st.fresh_bool("xr_is_empty"))
    if name in ("nbytes", "ndim", "size"):
        return VInt(ex.st.fresh_int("xr_" + name))
    return VOpaque("xr", ex.st.fresh_int("xr"), {"label": f"{obj.info.get('label')}.{name}", "of": obj, "attr": name})


def _writes_out(ex, kwargs):
    """numpy convention: a library call given `out=<array>` WRITES its result into that array. An array of the program handed over
    that way no longer holds what it held (content havocked, event 'lib_writes' recorded: frame obligations of the callers see it)."""
    o = kwargs.get("out")
    for a in (list(o.items) if isinstance(o, VTuple) else [o]):
        if isinstance(a, VRef) and isinstance(ex.st.cell(a), HArr):
            c = ex.st.cell(a)
            f = z3.Function(ex.st.fresh_name("written_by_library"), *([z3.IntSort()] * len(c.shape)), z3.RealSort())
            c.elem = lambda ix, f=f: VFloat(f(*[z_int(i) for i in ix]))
            ex.st.events.append(("lib_writes", a.addr))


def _call(ex, f, args, kwargs, fr):
    ex.st.events.append(("xr_call", f.info.get("label"), list(args), dict(kwargs), f))
    _writes_out(ex, kwargs)
    if str(f.info.get("label", "")).endswith("map_over_datasets"):
        # the library applies the user's function to every dataset of the tree: run it once on a generic dataset so
        # that what it passes on (coordinates, dimension values) is recorded
        for a in list(args) + list(kwargs.values()):
            if isinstance(a, VFunc):
                ds = VOpaque("xr", ex.st.fresh_int("xr"), {"label": "dataset"})
                try:
                    ex.call(a, [ds], {}, fr)
                except PyExc:
                    raise
    return VOpaque("xr", ex.st.fresh_int("xr"), {"label": f"{f.info.get('label')}()", "args": list(args), "kwargs": dict(kwargs), "fn": f})


# parameter names of the library constructors / functions whose calls the contracts inspect: a call is recorded in ONE canonical style
# (first parameter positional, the others by keyword) whatever style the code under test uses
SIGNATURES = {
    "pandas.MultiIndex.from_product": ["iterables", "sortorder", "names"], "pandas.Series": ["data", "index", "dtype", "name"], "pandas.DataFrame": ["data", "index", "columns", "dtype"],
    "pandas.concat": ["objs", "axis", "join", "ignore_index"], "xarray.DataArray": ["data", "coords", "dims", "name", "attrs"], "xarray.Dataset": ["data_vars", "coords", "attrs"],
    "xarray.concat": ["objs", "dim"], "xarray.merge": ["objects"], "xarray.combine_by_coords": ["data_objects"], "xarray.DataTree.from_dict": ["d", "name"],
    "xarray.DataArray.from_dict": ["d"], "dask.array.from_delayed": ["value", "shape", "dtype"], "dask.delayed.delayed": ["obj"], "dask.delayed": ["obj"],
}


def canonical_call(name, args, kwargs):
    sig = SIGNATURES.get(name)
    if not sig:
        return list(args), dict(kwargs)
    args, kwargs = list(args), dict(kwargs)
    if not args and sig[0] in kwargs:
        args = [kwargs.pop(sig[0])]
    for i in range(len(args) - 1, 0, -1):
        if i < len(sig) and sig[i] not in kwargs:
            kwargs[sig[i]] = args[i]
            del args[i]
    return args, kwargs


def _lib_call(ex, f, args, kwargs, fr):
    _writes_out(ex, kwargs)
    args, kwargs = canonical_call(f.name, args, kwargs)
    ex.st.events.append(("lib_call", f.name, list(args), dict(kwargs)))
    return VOpaque("xr", ex.st.fresh_int("xr"), {"label": f.name + "()", "args": list(args), "kwargs": dict(kwargs)})


def _getitem(ex, obj, idx, fr):
    return VOpaque("xr", ex.st.fresh_int("xr"), {"label": f"{obj.info.get('label')}[{getattr(idx, 'v', idx)}]", "of": obj, "key": idx})


def _setitem(ex, obj, idx, val, fr):
    ex.st.events.append(("xr_setitem", obj.info.get("label"), idx, val, obj))


def _setattr(ex, obj, name, val, fr):
    ex.st.events.append(("xr_setattr", obj.info.get("label"), name, val, obj))


def _contains(ex, container, item):
    return ex.st.fresh_bool("xr_contains")


def _truth(ex, v):
    if v.info.get("truthy"):
        return True
    return ex.st.fresh_bool("xr_truth")


def _compare(ex, op, a, b, fr):
    return ex.st.fresh_bool("xr_cmp")


def install(cfg: Cfg, prefixes=("xarray.", "dask.", "tqdm.", "pandas.")):
    for p in prefixes:
        cfg.lib_prefix[p] = _lib_call
    cfg.lib_overrides[("opaque_attr", "xr")] = _attr
    cfg.lib_overrides[("call", "xr")] = _call
    cfg.lib_overrides[("getitem", "xr")] = _getitem
    cfg.lib_overrides[("setitem", "xr")] = _setitem
    cfg.lib_overrides[("opaque_setattr", "xr")] = _setattr
    cfg.lib_overrides[("contains", "xr")] = _contains
    cfg.lib_overrides[("truth", "xr")] = _truth
    cfg.lib_overrides[("compare", "xr")] = _compare
    cfg.lib_overrides[("binop", "xr")] = lambda ex, op, a, b: VOpaque("xr", ex.st.fresh_int("xr"), {"label": "binop"})
    cfg.name_overrides["global_options"] = VOpaque("xr", None, {"label": "global_options", "truthy": True})
    cfg.name_overrides["version"] = VStr("<pyxel version>")
    cfg.lib_overrides[("list_of", "xr")] = lambda ex, v, fr: VOpaque("xr", ex.st.fresh_int("xr"), {"label": f"list({v.info.get('label')})", "of": v})
    cfg.lib_overrides[("len", "xr")] = lambda ex, v, fr: VInt(ex.st.fresh_int("xr_len"))
    def _with(ex, cm, item, body, fr):
        # `with <boundary object> as x:` : x is the object itself (context-manager protocol of the library, trusted)
        ex.st.events.append(("xr_with", cm.info.get("label"), cm))
        if item.optional_vars is not None:
            ex.assign(item.optional_vars, cm, fr)
        ex.exec_block(body, fr)
    cfg.lib_overrides[("with", "xr")] = _with
    cfg.lib_overrides[("deepcopy", "xr")] = lambda ex, v, dc, fr: VOpaque("xr", ex.st.fresh_int("xr"), dict(v.info, copied_from=v))
    return cfg
