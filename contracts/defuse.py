"""Def-use resolution on a function's AST for call-argument (data-flow) obligations.

`resolve` substitutes local names that have EXACTLY ONE binding in the function (plain / annotated assignment, tuple
unpacking of a name) by their defining expression, so an obligation speaks about what a call argument DENOTES, not about
the names of temporaries: hoisting an argument into a local, renaming a local or passing `kwargs=<dict local>` leaves the
obligation unchanged. Names bound more than once (branches, loops, augmented assignment) and parameters are left alone.
"""
from __future__ import annotations

import ast
import copy


def defs_of(fn_node):
    defs, multi = {}, set()
    for n in ast.walk(fn_node):
        if isinstance(n, (ast.Assign, ast.AnnAssign)):
            tgts = n.targets if isinstance(n, ast.Assign) else [n.target]
            for tgt in tgts:
                if isinstance(tgt, ast.Name) and n.value is not None:
                    defs.setdefault(tgt.id, []).append(n.value)
                elif isinstance(tgt, ast.Tuple) and all(isinstance(e, ast.Name) for e in tgt.elts) and n.value is not None:
                    for i, e in enumerate(tgt.elts):     # a, b = seq   ->   a = seq[0], b = seq[1]
                        defs.setdefault(e.id, []).append(ast.Subscript(value=copy.deepcopy(n.value), slice=ast.Constant(value=i), ctx=ast.Load()))
        elif isinstance(n, ast.AugAssign) and isinstance(n.target, ast.Name):
            multi.add(n.target.id)
        elif isinstance(n, (ast.For, ast.comprehension)):
            for e in ast.walk(n.target):
                if isinstance(e, ast.Name):
                    multi.add(e.id)
        elif isinstance(n, (ast.With,)):
            for it in n.items:
                if it.optional_vars is not None:
                    for e in ast.walk(it.optional_vars):
                        if isinstance(e, ast.Name):
                            multi.add(e.id)
    for a in fn_node.args.args + fn_node.args.kwonlyargs + fn_node.args.posonlyargs:
        multi.add(a.arg)
    return {k: v[0] for k, v in defs.items() if len(v) == 1 and k not in multi}


def resolve(fn_node, node, depth=8):
    defs = defs_of(fn_node)

    class Sub(ast.NodeTransformer):
        d = 0

        def visit_Name(self, n):
            if isinstance(n.ctx, ast.Load) and n.id in defs and self.d < depth:
                self.d += 1
                r = self.visit(copy.deepcopy(defs[n.id]))
                self.d -= 1
                return r
            return n
    return Sub().visit(copy.deepcopy(node))


def norm(fn_node, node):
    return None if node is None else ast.unparse(resolve(fn_node, node)).replace(" ", "").replace("\n", "")


def calls(fn_node, name):
    """Calls whose callee is `name` or ends with `.name`."""
    return [n for n in ast.walk(fn_node) if isinstance(n, ast.Call) and (ast.unparse(n.func) == name or ast.unparse(n.func).endswith("." + name))]


def pos_args(fn_node, call):
    return [norm(fn_node, a) for a in call.args]


def kw_args(fn_node, call):
    """keyword -> normalised value; `**name` / `**{...}` with a resolvable dict literal are expanded."""
    out = {}
    for k in call.keywords:
        if k.arg is not None:
            out[k.arg] = norm(fn_node, k.value)
        else:
            d = resolve(fn_node, k.value)
            if isinstance(d, ast.Dict):
                for kk, vv in zip(d.keys, d.values):
                    if isinstance(kk, ast.Constant):
                        out[kk.value] = norm(fn_node, vv)
    return out


def dict_arg(fn_node, node):
    """A keyword whose value denotes a dict literal (possibly through locals): {const key: normalised value}."""
    d = resolve(fn_node, node) if node is not None else None
    if isinstance(d, ast.Call) and ast.unparse(d.func) == "dict":
        return {k.arg: norm(fn_node, k.value) for k in d.keywords if k.arg}
    if not isinstance(d, ast.Dict):
        return None
    return {kk.value: norm(fn_node, vv) for kk, vv in zip(d.keys, d.values) if isinstance(kk, ast.Constant)}


def before(a, b):
    """Statement order by source position (same function, straight-line code)."""
    return (a.lineno, a.col_offset) < (b.lineno, b.col_offset)
