"""C11 — calibration fitness is the declared figure of merit on the declared data.

Contracts
  check_fit_ranges(target, out, rows, cols, times)   [pre: ranges fully specified, 0 <= start <= stop]
      returns  =>  for every shared axis  extent(target) == extent(out)   (extent = stop - start)
               and target stops <= the target's sizes
  sum_of_abs_residuals / sum_of_squared_residuals / reduced_chi_squared (numba bodies, pointwise)
      result == nansum over the frame of  |w (t - s)|  /  w (t - s)^2  /  ((t - s)/w)^2 , the last divided by
      (number of finite residuals - free parameters)
"""
from __future__ import annotations

from .common import *  # noqa: F401,F403

UTIL = "pyxel/calibration/util.py"
FIT = "pyxel/calibration/fitness.py"
TRUSTED = ["np.nansum / ndarray.sum are abstract reductions: the contract pins the summand at an arbitrary index and the shape",
           "machine arithmetic treated as mathematical (real mode) in the fitness formulas",
           "pygmo's champion bookkeeping (champion fitness never gets worse) is outside: external C++ library"]
ASSUMPTIONS = ["fit ranges fully specified with 0 <= start <= stop (None entries are outside this contract)"]


def mk_range(ex, u, dims, prefix):
    """Real FitRange2D/3D dataclass instance with symbolic integer bounds."""
    cname = "FitRange3D" if dims == 3 else "FitRange2D"
    ci = u.cls(f"{UTIL}::{cname}")
    kw = {}
    for ax in (["time"] if dims == 3 else []) + ["row", "col"]:
        lo, hi = z3.Int(f"{prefix}_{ax}_start"), z3.Int(f"{prefix}_{ax}_stop")
        ex.st.assume(z3.And(lo >= 0, lo <= hi))
        kw[ax] = VSlice(VInt(lo), VInt(hi), NONE)
    return ex.instantiate(ci, [], kw, Frame(None, ci.module))


def ext(prefix, ax):
    return z3.Int(f"{prefix}_{ax}_stop") - z3.Int(f"{prefix}_{ax}_start")


@unit("C11", "ranges")
def ranges(u: Unit):
    fi = u.fn(f"{UTIL}::check_fit_ranges")
    u.fn(f"{UTIL}::_check_out_fit_ranges")
    u.fn(f"{UTIL}::FitRange2D.check")
    u.fn(f"{UTIL}::FitRange3D.check")
    rows, cols, times = z3.Int("rows"), z3.Int("cols"), z3.Int("times")
    for td in (2, 3):
        for od in (2, 3):
            def setup(ex, td=td, od=od):
                ex.st.assume(z3.And(rows > 0, cols > 0, times > 0))
                t, o = mk_range(ex, u, td, "t"), mk_range(ex, u, od, "o")
                kw = {"target_fit_range": t, "out_fit_range": o, "rows": VInt(rows), "cols": VInt(cols)}
                if td == 3:
                    kw["readout_times"] = VInt(times)
                return [], kw
            ps = u.paths(fi, setup, Cfg("real"), label=f"check_fit_ranges[{td}D,{od}D]")
            w = {f"{p}_{ax}_{e}": z3.Int(f"{p}_{ax}_{e}") for p in "to" for ax in ("time", "row", "col") for e in ("start", "stop")}
            w.update(rows=rows, cols=cols, times=times, td=td, od=od)

            def rp(w):
                def rng(p, d):
                    axes = (["time"] if d == 3 else []) + ["row", "col"]
                    return f"FitRange{d}D(" + ", ".join(f"{a}=slice({max(0, w.get(f'{p}_{a}_start', 0))}, {max(0, w.get(f'{p}_{a}_stop', 0))})" for a in axes) + ")"
                t, o = rng("t", w["td"]), rng("o", w["od"])
                extra = f", readout_times={max(1, w.get('times', 1))}" if w["td"] == 3 else ""
                return {"code": f"""
from pyxel.calibration.util import FitRange2D, FitRange3D, check_fit_ranges
t, o = {t}, {o}
rows, cols, times = {max(1, w.get('rows', 1))}, {max(1, w.get('cols', 1))}, {max(1, w.get('times', 1))}
def extent(s): return s.stop - s.start
shared = ['row', 'col'] + (['time'] if hasattr(t, 'time') and hasattr(o, 'time') else [])
valid = all(extent(getattr(t, a)) == extent(getattr(o, a)) for a in shared) and t.row.stop <= rows and t.col.stop <= cols and (not hasattr(t, 'time') or t.time.stop <= times)
try:
    check_fit_ranges(target_fit_range=t, out_fit_range=o, rows=rows, cols=cols{extra})
    VIOLATED = not valid
    DETAIL = 'accepted target=' + repr(t) + ' result=' + repr(o) + ' sizes=' + repr((times, rows, cols)) + ' ; extents equal and inside target: ' + repr(valid)
except ValueError as e:
    VIOLATED, DETAIL = False, 'rejected: ' + str(e)
""", "expect": "accepted fit ranges have equal extents per shared axis and lie inside the target"}
            shared = ["row", "col"] + (["time"] if td == 3 and od == 3 else [])
            for p in ps:
                if p.kind != "return":
                    if p.exc_name() != "ValueError":
                        u.oblige(p, f"ranges.raises_value_error[{td}D,{od}D]", False, w, rp)
                    continue
                u.oblige(p, f"ranges.accept_implies_equal_extent[{td}D,{od}D]", z3.And(*[ext("t", a) == ext("o", a) for a in shared]), w, rp,
                         info={"small": list(w.values())})
                inside = [z3.Int("t_row_stop") <= rows, z3.Int("t_col_stop") <= cols] + ([z3.Int("t_time_stop") <= times] if td == 3 else [])
                u.oblige(p, f"ranges.accept_implies_inside_target[{td}D,{od}D]", z3.And(*inside), w, rp, info={"small": list(w.values())})
            u.cover(f"ranges.cover[{td}D,{od}D]", ps, lambda p: p.kind == "return")


R, Cc = z3.Int("R"), z3.Int("C")


def frame(ex, name):
    f = z3.Function(name, z3.IntSort(), z3.IntSort(), z3.RealSort())
    return ex.st.alloc(HArr((R, Cc), VDtype("float64"), lambda ix: VFloat(f(z_int(ix[0]), z_int(ix[1]))))), f


def formula_unit(fname, spec, chi2=False):
    def un(u: Unit):
        fi = u.fn(f"{FIT}::{fname}")
        g = (z3.Int("g_r"), z3.Int("g_c"))
        holder = {}

        def setup(ex):
            ex.st.assume(z3.And(R > 0, Cc > 0, g[0] >= 0, g[0] < R, g[1] >= 0, g[1] < Cc))
            ex.st.ghost["generic"] = [g]
            s, fs = frame(ex, "sim")
            t, ft = frame(ex, "tgt")
            w, fw = frame(ex, "wgt")
            holder.update(fs=fs, ft=ft, fw=fw)
            if chi2:
                ex.st.assume(fw(g[0], g[1]) != 0)
                return [], {"simulated": s, "target": t, "weighting": w, "free_parameters": VInt(z3.Int("free_p"))}
            return [], {"simulated": s, "target": t, "weighting": w}
        ps = u.paths(fi, setup, Cfg("real"), label=fname)
        for p in ps:
            if p.kind != "return":
                # the only exceptional outcome allowed is the division by a zero degree of freedom
                u.oblige(p, f"fitness.formulae[{fname}].no_raise", chi2 and p.exc_name() == "ZeroDivisionError", {})
                continue
            reds = [r for r in p.st.ghost.get("reductions", []) if r["kind"] in ("sum", "nansum")]
            sums = [r for r in reds if not isinstance(r["result"], VInt)]
            ok_shape = len(sums) == 1 and len(sums[0]["shape"]) == 2
            u.oblige(p, f"fitness.formulae[{fname}].one_sum_over_frame", ok_shape and z3.And(z_int(sums[0]["shape"][0]) == R, z_int(sums[0]["shape"][1]) == Cc), {})
            if not ok_shape:
                continue
            s_, t_, w_ = (holder[k](g[0], g[1]) for k in ("fs", "ft", "fw"))
            summand = to_real(sums[0]["elem"](g))
            u.oblige(p, f"fitness.formulae[{fname}].summand", summand == spec(s_, t_, w_), {"s": s_, "t": t_, "w": w_},
                     lambda w, fname=fname: {"code": f"""
import numpy as np
from pyxel.calibration import fitness as F
s, t, w = np.array([[{w.get('s', 1.0)!r}]]), np.array([[{w.get('t', 2.0)!r}]]), np.array([[{w.get('w', 3.0)!r}]])
spec = {{'sum_of_abs_residuals': lambda: abs(w*(t-s)).sum(), 'sum_of_squared_residuals': lambda: (w*(t-s)**2).sum(), 'reduced_chi_squared': lambda: (((t-s)/w)**2).sum()/(1-0)}}[{fname!r}]()
got = F.{fname}(simulated=s.copy(), target=t.copy(), weighting=w.copy(){', free_parameters=0' if fname == 'reduced_chi_squared' else ''})
VIOLATED = not np.isclose(got, spec, rtol=1e-9, atol=0)
DETAIL = '{fname}: got ' + repr(got) + ' expected ' + repr(float(spec))
""", "expect": "fitness function equals the statement's formula"})
            res = to_real(p.value)
            total = to_real(sums[0]["result"])
            if not chi2:
                u.oblige(p, f"fitness.formulae[{fname}].result_is_sum", res == total, {})
            else:
                counts = [r for r in reds if isinstance(r["result"], VInt)]
                okc = len(counts) == 1
                u.oblige(p, f"fitness.formulae[{fname}].dof", okc and res == total / (z3.ToReal(counts[0]["result"].v) - z3.ToReal(z3.Int("free_p"))), {})
        u.cover(f"fitness.cover[{fname}]", ps, lambda p: p.kind == "return")
    return un


absr = lambda x: z3.If(x >= 0, x, -x)
unit("C11", "formula.abs")(formula_unit("sum_of_abs_residuals", lambda s, t, w: absr(w * (t - s))))
unit("C11", "formula.squared")(formula_unit("sum_of_squared_residuals", lambda s, t, w: w * (t - s) * (t - s)))
unit("C11", "formula.chi2")(formula_unit("reduced_chi_squared", lambda s, t, w: ((t - s) / w) * ((t - s) / w), chi2=True))
