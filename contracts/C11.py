"""C11 — calibration fitness is the declared figure of merit on the declared data.

Contracts
  check_fit_ranges(target, out, rows, cols, times)   [pre: ranges fully specified, 0 <= start <= stop]
      returns  =>  for every shared axis  extent(target) == extent(out)   (extent = stop - start)
               and target stops <= the target's sizes
  sum_of_abs_residuals / sum_of_squared_residuals / reduced_chi_squared (numba bodies, pointwise)
      result == nansum over the frame of  |w (t - s)|  /  w (t - s)^2  /  ((t - s)/w)^2 , the last divided by
      (number of finite residuals - free parameters)
  targets.*            create_processor_data_array: one frame per declared file, in order (1..3 files, possibly repeated)
  init.*               ModelFittingDataTree.__init__: targets from the declared files, cut by the declared target range; the
                       declared result range, weights and input arguments are the ones kept; ranges checked at construction
  build_processors.*   processor i = deep copy with every input argument set to ITS i-th value
  fitness.loop.* / fitness.sum_over_pairs   ModelFittingDataTree.fitness under a loop contract (unbounded number of pairs):
                       result = SUM_k fitness_func-term(processor k updated with the candidate, its own simulated data,
                       target k, weight k)
  sim_data.* / calc.*  the declared output container of the run's tree cut by the declared result range; the configured
                       fitness function receives exactly those values, the target's and the weighting (ones if none)
"""
from __future__ import annotations

from .common import *  # noqa: F401,F403

UTIL = "pyxel/calibration/util.py"
FIT = "pyxel/calibration/fitness.py"
BOUNDED = {
    r'^targets': 'lists of 1..3 target files (possibly repeated)',
    r'^build_processors': '1..2 input arguments with 1..3 values each',
    r'^init': 'non-time-domain targets',
    r'^run_evolve': '1..3 evolutions, with and without best individuals, no result fit range',
    r'^resimulation\.pairs': '2 islands x 1 or 3 processors',
    r'^extract': 'result tables of 2 rows',
}      # unit-name / obligation-name patterns -> the family these obligations are proved for
TRUSTED = ["reporting path (run_evolve, apply_parameters_to_processors, extract_data_3d): pygmo / xarray / pandas / dask objects are boundary objects; the obligations are about "
           "provenance (which call produced what reaches which node), the libraries doing what their names say is assumed (contracts/calibreport.py)",
           "np.nansum / ndarray.sum are abstract reductions: the contract pins the summand at an arbitrary index and the shape",
           "machine arithmetic treated as mathematical (real mode) in the fitness formulas",
           "pygmo's champion bookkeeping (champion fitness never gets worse) is outside: external C++ library",
           "iterating all_target_data yields its slices along 'processor' in order; xarray isel / getitem select what their arguments say (boundary)",
           "single-readout targets only: for multi-readout targets the constructor raises ValueError at this snapshot (dimension 'readout_time' vs range key 'time')",
           "equal numbers of processors (input-argument values) and target files: zip(strict=False) would silently drop the surplus; proved: sum over min(#processors, #targets) pairs",
           "target lists of 1..3 files in targets.* and 1..3 values x 1..2 arguments in build_processors.* (bounded in length; contents symbolic)"]
ASSUMPTIONS = ["fit ranges fully specified with 0 <= start <= stop (None entries are outside this contract)"]


def mk_range(ex, u, dims, prefix):
    """Real FitRange2D/3D dataclass instance with symbolic integer bounds."""
    cname = "FitRange3D" if dims == 3 else "FitRange2D"
    ci = u.cls(f"{UTIL}::{cname}")
    kw = {}
    for ax in (["time"] if dims == 3 else []) + ["row", "col"]:
        lo, hi = z3.Int(f"{prefix}_{ax}_start"), z3.Int(f"{prefix}_{ax}_stop")
        ex.st.assume(z3.And(lo >= 0, lo <= hi))
        kw[ax] = VSlice(VInt(lo), VInt(hi), NONE)
    return ex.instantiate(ci, [], kw, Frame(None, ci.module))


def ext(prefix, ax):
    return z3.Int(f"{prefix}_{ax}_stop") - z3.Int(f"{prefix}_{ax}_start")


@unit("C11", "ranges")
def ranges(u: Unit):
    fi = u.fn(f"{UTIL}::check_fit_ranges")
    u.fn(f"{UTIL}::_check_out_fit_ranges")
    u.fn(f"{UTIL}::FitRange2D.check")
    u.fn(f"{UTIL}::FitRange3D.check")
    rows, cols, times = z3.Int("rows"), z3.Int("cols"), z3.Int("times")
    for td in (2, 3):
        for od in (2, 3):
            def setup(ex, td=td, od=od):
                ex.st.assume(z3.And(rows > 0, cols > 0, times > 0))
                t, o = mk_range(ex, u, td, "t"), mk_range(ex, u, od, "o")
                kw = {"target_fit_range": t, "out_fit_range": o, "rows": VInt(rows), "cols": VInt(cols)}
                if td == 3:
                    kw["readout_times"] = VInt(times)
                return [], kw
            ps = u.paths(fi, setup, Cfg("real"), label=f"check_fit_ranges[{td}D,{od}D]")
            w = {f"{p}_{ax}_{e}": z3.Int(f"{p}_{ax}_{e}") for p in "to" for ax in ("time", "row", "col") for e in ("start", "stop")}
            w.update(rows=rows, cols=cols, times=times, td=td, od=od)

            def rp(w):
                def rng(p, d):
                    axes = (["time"] if d == 3 else []) + ["row", "col"]
                    return f"FitRange{d}D(" + ", ".join(f"{a}=slice({max(0, w.get(f'{p}_{a}_start', 0))}, {max(0, w.get(f'{p}_{a}_stop', 0))})" for a in axes) + ")"
                t, o = rng("t", w["td"]), rng("o", w["od"])
                extra = f", readout_times={max(1, w.get('times', 1))}" if w["td"] == 3 else ""
                return {"code": f"""
from pyxel.calibration.util import FitRange2D, FitRange3D, check_fit_ranges
t, o = {t}, {o}
rows, cols, times = {max(1, w.get('rows', 1))}, {max(1, w.get('cols', 1))}, {max(1, w.get('times', 1))}
def extent(s): return s.stop - s.start
shared = ['row', 'col'] + (['time'] if hasattr(t, 'time') and hasattr(o, 'time') else [])
valid = all(extent(getattr(t, a)) == extent(getattr(o, a)) for a in shared) and t.row.stop <= rows and t.col.stop <= cols and (not hasattr(t, 'time') or t.time.stop <= times)
try:
    check_fit_ranges(target_fit_range=t, out_fit_range=o, rows=rows, cols=cols{extra})
    VIOLATED = not valid
    DETAIL = 'accepted target=' + repr(t) + ' result=' + repr(o) + ' sizes=' + repr((times, rows, cols)) + ' ; extents equal and inside target: ' + repr(valid)
except ValueError as e:
    VIOLATED, DETAIL = False, 'rejected: ' + str(e)
""", "expect": "accepted fit ranges have equal extents per shared axis and lie inside the target"}
            shared = ["row", "col"] + (["time"] if td == 3 and od == 3 else [])
            for p in ps:
                if p.kind != "return":
                    if p.exc_name() != "ValueError":
                        u.oblige(p, f"ranges.raises_value_error[{td}D,{od}D]", False, w, rp)
                    continue
                u.oblige(p, f"ranges.accept_implies_equal_extent[{td}D,{od}D]", z3.And(*[ext("t", a) == ext("o", a) for a in shared]), w, rp,
                         info={"small": list(w.values())})
                inside = [z3.Int("t_row_stop") <= rows, z3.Int("t_col_stop") <= cols] + ([z3.Int("t_time_stop") <= times] if td == 3 else [])
                u.oblige(p, f"ranges.accept_implies_inside_target[{td}D,{od}D]", z3.And(*inside), w, rp, info={"small": list(w.values())})
            u.cover(f"ranges.cover[{td}D,{od}D]", ps, lambda p: p.kind == "return")


R, Cc = z3.Int("R"), z3.Int("C")


def frame(ex, name):
    f = z3.Function(name, z3.IntSort(), z3.IntSort(), z3.RealSort())
    return ex.st.alloc(HArr((R, Cc), VDtype("float64"), lambda ix: VFloat(f(z_int(ix[0]), z_int(ix[1]))))), f


VALID = z3.Function("is_a_number", z3.RealSort(), z3.BoolSort())

CHI2_REPLAY = lambda w: {"code": """
import numpy as np
from pyxel.calibration.fitness import reduced_chi_squared
rng = np.random.default_rng(3)
VIOLATED, DETAIL = False, 'reduced chi squared = sum over the valid points / (number of valid points - free parameters)'
for where in ('none', 'target', 'simulated', 'both', 'disjoint'):
    s, t, w = rng.normal(10, 2, (4, 5)), rng.normal(10, 2, (4, 5)), rng.uniform(0.5, 2, (4, 5))
    if where in ('target', 'both', 'disjoint'): t[0, 1] = t[2, 3] = np.nan
    if where in ('simulated', 'both'): s[0, 1] = s[3, 3] = np.nan
    if where == 'disjoint': s[1, 1] = np.nan
    valid = np.isfinite(s) & np.isfinite(t)
    for k in (0, 3):
        want = float((((t - s) / w) ** 2)[valid].sum() / (valid.sum() - k))
        got = reduced_chi_squared(simulated=s.copy(), target=t.copy(), weighting=w.copy(), free_parameters=k)
        if not np.isclose(got, want, rtol=1e-12):
            VIOLATED, DETAIL = True, f'masked points in {where}, {k} free parameters: got {got!r}, declared figure of merit {want!r} ({int(valid.sum())} valid points)'; break
    if VIOLATED: break
""", "expect": "the degrees of freedom count exactly the points that enter the sum (target and simulated value both numbers)"}


def isel_slices(p, v):
    """{dimension name: slice object} of an `x.isel(...)` boundary value, however the indexers were passed: a mapping by keyword or by
    position, or one keyword per dimension. None when the call has another form."""
    args, kws = list(v.info.get("args") or []), dict(v.info.get("kwargs") or {})
    src = None
    if len(args) == 1 and not kws:
        src = args[0]
    elif not args and set(kws) == {"indexers"}:
        src = kws["indexers"]
    elif not args and kws and "indexers" not in kws:
        return {k: x for k, x in kws.items()}
    if src is None:
        return None
    d = p.ex.try_dict(src)
    if d is None or not all(isinstance(k, VStr) and isinstance(k.v, str) for k, _ in d):
        return None
    return {k.v: x for k, x in d}


def formula_unit(fname, spec, chi2=False):
    def un(u: Unit):
        fi = u.fn(f"{FIT}::{fname}")
        g = (z3.Int("g_r"), z3.Int("g_c"))
        holder = {}

        def setup(ex):
            ex.st.assume(z3.And(R > 0, Cc > 0, g[0] >= 0, g[0] < R, g[1] >= 0, g[1] < Cc))
            ex.st.ghost["generic"] = [g]
            s, fs = frame(ex, "sim")
            t, ft = frame(ex, "tgt")
            w, fw = frame(ex, "wgt")
            holder.update(fs=fs, ft=ft, fw=fw)
            if chi2:
                ex.st.assume(fw(g[0], g[1]) != 0)
                # VALID data points: an entry of the target or of the simulated data may be "not a number" (masked pixel). Over the reals
                # that is a predicate VALID on values (numpy.isfinite), closed under the arithmetic of the formula: a difference is valid
                # iff both operands are, dividing by a (valid, non-zero) weight and squaring keep validity
                sg, tg, wg = fs(g[0], g[1]), ft(g[0], g[1]), fw(g[0], g[1])
                d = tg - sg
                ex.st.assume(z3.And(VALID(d) == z3.And(VALID(tg), VALID(sg)), VALID(sg - tg) == VALID(d), VALID(d / wg) == VALID(d), VALID((d / wg) * (d / wg)) == VALID(d),
                                    VALID(d * d) == VALID(d), VALID((d * d) / (wg * wg)) == VALID(d), VALID(wg)))
                return [], {"simulated": s, "target": t, "weighting": w, "free_parameters": VInt(z3.Int("free_p"))}
            return [], {"simulated": s, "target": t, "weighting": w}
        cfg0 = Cfg("real")
        if chi2:
            from pyvc import arrays as A_

            def isfinite(ex, f, args, kwargs, fr):
                v = args[0]
                if not ex.is_arr(v):
                    return VBool(VALID(to_real(v)))
                c = ex.st.cell(v)
                return A_.new_array(ex, c.shape, VDtype("bool"), lambda ix, c=c: VBool(VALID(to_real(c.elem(ix)))))
            cfg0.lib_overrides["numpy.isfinite"] = isfinite
        ps = u.paths(fi, setup, cfg0, label=fname)
        for p in ps:
            if p.kind != "return":
                # the only exceptional outcome allowed is the division by a zero degree of freedom
                u.oblige(p, f"fitness.formulae[{fname}].no_raise", chi2 and p.exc_name() == "ZeroDivisionError", {})
                continue
            reds = [r for r in p.st.ghost.get("reductions", []) if r["kind"] in ("sum", "nansum")]
            sums = [r for r in reds if not isinstance(r["result"], VInt)]
            ok_shape = len(sums) == 1 and len(sums[0]["shape"]) == 2
            u.oblige(p, f"fitness.formulae[{fname}].one_sum_over_frame", ok_shape and z3.And(z_int(sums[0]["shape"][0]) == R, z_int(sums[0]["shape"][1]) == Cc), {})
            if not ok_shape:
                continue
            s_, t_, w_ = (holder[k](g[0], g[1]) for k in ("fs", "ft", "fw"))
            summand = to_real(sums[0]["elem"](g))
            u.oblige(p, f"fitness.formulae[{fname}].summand", summand == spec(s_, t_, w_), {"s": s_, "t": t_, "w": w_},
                     lambda w, fname=fname: {"code": f"""
import numpy as np
from pyxel.calibration import fitness as F
s, t, w = np.array([[{w.get('s', 1.0)!r}]]), np.array([[{w.get('t', 2.0)!r}]]), np.array([[{w.get('w', 3.0)!r}]])
spec = {{'sum_of_abs_residuals': lambda: abs(w*(t-s)).sum(), 'sum_of_squared_residuals': lambda: (w*(t-s)**2).sum(), 'reduced_chi_squared': lambda: (((t-s)/w)**2).sum()/(1-0)}}[{fname!r}]()
got = F.{fname}(simulated=s.copy(), target=t.copy(), weighting=w.copy(){', free_parameters=0' if fname == 'reduced_chi_squared' else ''})
VIOLATED = not np.isclose(got, spec, rtol=1e-9, atol=0)
DETAIL = '{fname}: got ' + repr(got) + ' expected ' + repr(float(spec))
""", "expect": "fitness function equals the statement's formula"})
            res = to_real(p.value)
            total = to_real(sums[0]["result"])
            if not chi2:
                u.oblige(p, f"fitness.formulae[{fname}].result_is_sum", res == total, {})
            else:
                counts = [r for r in reds if isinstance(r["result"], VInt)]
                okc = len(counts) == 1
                u.oblige(p, f"fitness.formulae[{fname}].dof", okc and res == total / (z3.ToReal(counts[0]["result"].v) - z3.ToReal(z3.Int("free_p"))), {})
                if okc:
                    # N counts the points that ENTER the sum: those where both the target and the simulated value are numbers
                    ce = counts[0]["elem"](g)
                    cb = z_bool(ce.v) if isinstance(ce, VBool) else (to_real(ce) != 0)
                    u.oblige(p, f"fitness.formulae[{fname}].dof_counts_the_points_summed", z3.And(zb(len(counts[0]["shape"]) == 2), cb == z3.And(VALID(s_), VALID(t_))), {}, CHI2_REPLAY)
        u.cover(f"fitness.cover[{fname}]", ps, lambda p: p.kind == "return")
    return un


absr = lambda x: z3.If(x >= 0, x, -x)
unit("C11", "formula.abs")(formula_unit("sum_of_abs_residuals", lambda s, t, w: absr(w * (t - s))))
unit("C11", "formula.squared")(formula_unit("sum_of_squared_residuals", lambda s, t, w: w * (t - s) * (t - s)))
unit("C11", "formula.chi2")(formula_unit("reduced_chi_squared", lambda s, t, w: ((t - s) / w) * ((t - s) / w), chi2=True))


# ---- target files -> per-processor target frames ------------------------------------------------------------------
from . import boundary  # noqa: E402

NY, NX = z3.Int("target_ny"), z3.Int("target_nx")
TARGET_FRAME = z3.Function("target_frame", z3.StringSort(), z3.IntSort(), z3.IntSort(), z3.RealSort())

TARGETS_REPLAY = lambda w: {"code": """
import numpy as np, tempfile, pathlib
from pyxel.calibration.util import create_processor_data_array
d = pathlib.Path(tempfile.mkdtemp())
frames = {n: np.full((2, 3), float(i + 1)) for i, n in enumerate('abc')}
for n, f in frames.items(): np.save(d / f'{n}.npy', f)
VIOLATED, DETAIL = False, 'every declared file gave its own frame, in order'
for names in (['a'], ['a', 'b'], ['a', 'b', 'a'], ['b', 'b'], ['c', 'a', 'b']):
    da = create_processor_data_array([d / f'{n}.npy' for n in names])
    got = [float(np.asarray(da.isel(processor=i)).ravel()[0]) for i in range(da.sizes['processor'])] if 'processor' in da.dims else None
    want = [float(frames[n].ravel()[0]) for n in names]
    if got != want:
        VIOLATED, DETAIL = True, f'target files {names}: frames along processor = {got}, declared files hold {want}'; break
""", "expect": "one target frame per declared file, in declaration order (a file may be listed more than once)"}


@unit("C11", "targets")
def targets(u: Unit):
    """create_processor_data_array(filenames): the `processor` axis has ONE frame per declared file, in declaration order,
    frame i being the content of file i (files may repeat). Declared lists of 1..3 files (bounded in length, symbolic and
    possibly equal paths, symbolic frame contents and shape)."""
    fi = u.fn(f"{UTIL}::create_processor_data_array")
    for n in (1, 2, 3):
        cfg = Cfg("real")
        boundary.install(cfg)
        names = [VStr(z3.String(f"target_file{i}")) for i in range(n)]

        def read_single(ex, args, kwargs, fr):
            pth = args[0] if args else kwargs["filename"]
            t = z_str(pth.v) if isinstance(pth, VStr) else z_str(pth.info["text"])
            from pyvc import arrays as A
            return A.new_array(ex, (NY, NX), VDtype("float64"), lambda ix, t=t: VFloat(TARGET_FRAME(t, z_int(ix[0]), z_int(ix[1]))))
        cfg.contracts[f"{UTIL}::read_single_data"] = Contract(f"{UTIL}::read_single_data", read_single, "file content: a 2-D frame determined by the path")
        cfg.contracts[f"{UTIL}::sanitize"] = Contract(f"{UTIL}::sanitize", lambda ex, args, kwargs, fr: VOpaque("xr", ex.st.fresh_int("attrs"), {"label": "sanitized"}), "attribute text")
        cfg.lib_overrides["pathlib.Path"] = lambda ex, f, args, kwargs, fr: args[0]

        def setup(ex, names=names):
            ex.st.assume(z3.And(NY > 0, NX > 0))
            return [], {"filenames": ex.st.alloc(HList(list(names)))}
        ps = u.paths(fi, setup, cfg, label=f"create_processor_data_array[{n} files]")
        gy, gx = z3.Int("gy"), z3.Int("gx")
        w = {f"file{i}": names[i].v for i in range(n)}
        for p in ps:
            if p.kind != "return":
                u.oblige(p, f"targets.no_raise[{n}]", False, dict(w, exc=p.exc_name()), TARGETS_REPLAY)
                continue
            evs = [e for e in p.st.events if e[0] == "lib_call" and e[1] == "xarray.DataArray"]
            ok = len(evs) == 1 and evs[0][2] and p.ex.is_arr(evs[0][2][0]) and len(p.st.cell(evs[0][2][0]).shape) == 3
            if not ok:
                u.oblige(p, f"targets.one_frame_per_file[{n}]", False, w, TARGETS_REPLAY)
                continue
            c = p.st.cell(evs[0][2][0])
            goal = [z_int(c.shape[0]) == n]
            for i in range(n):
                goal.append(z3.Implies(z3.And(gy >= 0, gy < NY, gx >= 0, gx < NX), to_real(c.elem((z3.IntVal(i), gy, gx))) == TARGET_FRAME(names[i].v, gy, gx)))
            u.oblige(p, f"targets.one_frame_per_file[{n}]", z3.And(*goal), w, TARGETS_REPLAY)
            kw = evs[0][3]
            dims = [x.v for x in (p.ex.try_list(kw.get("dims")) or []) if isinstance(x, VStr)]
            u.oblige(p, f"targets.dims[{n}]", bool(dims == ["processor", "y", "x"]), {"dims": str(dims)}, TARGETS_REPLAY)
        u.cover(f"targets.cover[{n}]", ps, lambda p: p.kind == "return")


# ---- the fitness loop: sum over (processor, target) pairs --------------------------------------------------------
from . import fitmodel as FM  # noqa: E402

FIT_REPLAY = lambda w: {"code": """
import numpy as np, tempfile, pathlib
import verif_probes as VP
from pyxel.calibration.fitting_datatree import ModelFittingDataTree
from pyxel.calibration.util import FitRange2D, FitRange3D
from pyxel.calibration.fitness import sum_of_abs_residuals
from pyxel.observation import ParameterValues
from pyxel.pipelines import DetectionPipeline, ModelFunction, Processor
from pyxel.exposure import Readout
d = pathlib.Path(tempfile.mkdtemp())
det = VP.detector()
rows, cols = det.geometry.row, det.geometry.col
gains, weights = (1.0, 2.0, 3.0), [1.0, 10.0, 100.0]
targets = [np.full((rows, cols), v) for v in (1.0, 5.0, 11.0)]
for i, t in enumerate(targets): np.save(d / f't{i}.npy', t)
pipe = DetectionPipeline(photon_collection=[ModelFunction(func='verif_probes.set_image', name='img', arguments={'level': 0.0, 'gain': 1.0})])
proc = Processor(detector=det, pipeline=pipe)
variables = [ParameterValues(key='pipeline.photon_collection.img.arguments.level', values='_', boundaries=(0.0, 100.0))]
inputs = [ParameterValues(key='pipeline.photon_collection.img.arguments.gain', values=list(gains))]
VIOLATED, DETAIL = False, ''
for wmode in ('none', 'numbers'):
    mf = ModelFittingDataTree(processor=proc, variables=variables, readout=Readout(), simulation_output='image', generations=1, population_size=4,
                              fitness_func=sum_of_abs_residuals, file_path=None, target_fit_range=FitRange2D(row=slice(0, rows), col=slice(0, cols)),
                              out_fit_range=FitRange3D(time=slice(None), row=slice(0, rows), col=slice(0, cols)),
                              target_filenames=[d / f't{i}.npy' for i in range(3)], input_arguments=inputs, weights=weights if wmode == 'numbers' else None)
    for level in (2.0, 7.0):
        got = mf.fitness(np.array([level]))[0]
        ws = weights if wmode == 'numbers' else [1.0] * 3
        want = sum(abs(w * (t - round(level * g))).sum() for w, t, g in zip(ws, targets, gains))
        if not np.isclose(got, want):
            VIOLATED, DETAIL = True, f'weights={wmode}: fitness(level={level}) = {got!r}; declared figure of merit over the 3 (target, input, weight) triples = {want!r}'
if not VIOLATED:
    # SHIFTED ranges on a result that is not uniform: the simulated data is cut with the RESULT range, the target with the target range
    pipe2 = DetectionPipeline(photon_collection=[ModelFunction(func='verif_probes.set_image_ramp', name='img', arguments={'level': 0.0, 'gain': 1.0})])
    tgt = np.arange(float(rows * cols)).reshape(rows, cols) * 3.0
    np.save(d / 'ramp.npy', tgt)
    mf2 = ModelFittingDataTree(processor=Processor(detector=VP.detector(), pipeline=pipe2), variables=variables, readout=Readout(), simulation_output='image', generations=1, population_size=4,
                               fitness_func=sum_of_abs_residuals, file_path=None, target_fit_range=FitRange2D(row=slice(1, 3), col=slice(2, 4)),
                               out_fit_range=FitRange3D(time=slice(None), row=slice(0, 2), col=slice(0, 2)), target_filenames=[d / 'ramp.npy'], input_arguments=None, weights=None)
    for level in (2.0, 7.0):
        sim = level + 10 * np.arange(rows)[:, None] + np.arange(cols)[None, :]
        want = np.abs(tgt[1:3, 2:4] - sim[0:2, 0:2]).sum()
        got = mf2.fitness(np.array([level]))[0]
        if not np.isclose(got, want):
            VIOLATED, DETAIL = True, f'result range rows 0:2 cols 0:2, target range rows 1:3 cols 2:4: fitness(level={level}) = {got!r}, declared figure of merit = {want!r}'
    # weight MAPS from files with shifted ranges: the maps are cut with the TARGET range
    rng = np.random.default_rng(5)
    wmap = rng.uniform(0.5, 2.0, size=(rows, cols))
    np.save(d / 'wmap.npy', wmap)
    mf3 = ModelFittingDataTree(processor=Processor(detector=VP.detector(), pipeline=pipe2), variables=variables, readout=Readout(), simulation_output='image', generations=1, population_size=4,
                               fitness_func=sum_of_abs_residuals, file_path=None, target_fit_range=FitRange2D(row=slice(1, 3), col=slice(2, 4)),
                               out_fit_range=FitRange3D(time=slice(None), row=slice(0, 2), col=slice(0, 2)), target_filenames=[d / 'ramp.npy'], input_arguments=None, weights=None,
                               weights_from_file=[d / 'wmap.npy'])
    for level in (2.0, 7.0):
        sim = level + 10 * np.arange(rows)[:, None] + np.arange(cols)[None, :]
        want = np.abs(wmap[1:3, 2:4] * (tgt[1:3, 2:4] - sim[0:2, 0:2])).sum()
        got = mf3.fitness(np.array([level]))[0]
        if not np.isclose(got, want) and not VIOLATED:
            VIOLATED, DETAIL = True, f'weight map from file, result range rows 0:2 cols 0:2, target range rows 1:3 cols 2:4: fitness(level={level}) = {got!r}, declared figure of merit (weights cut with the target range) = {want!r}'
""", "expect": "fitness = sum over all (processor, target) pairs of the fitness function on that pair's data (result range / target range) and weight"}


@unit("C11", "fitness.sum")
def fitness_sum(u: Unit):
    """ModelFittingDataTree.fitness under a loop contract: the returned value is the sum over k < min(#processors, #targets)
    of fitness_func-term(k), where term k uses processor k (updated with the candidate's parameters), ITS simulated data,
    target k and weight k — no pair skipped, repeated or crossed."""
    rec = {}
    cfg, fi = FM.mk_cfg(u, rec)
    base_after = None

    def after(ex, fr, k):
        st = ex.st
        calc = rec.get("calc", [])
        upd = rec.get("upd", [])
        runs = rec.get("runs", [])
        sims = rec.get("sim", [])
        st.oblige("fitness.loop.one_term_per_pair", bool(len(calc) == 1 and len(upd) == 1 and len(runs) == 1 and len(sims) == 1), {"replay": FIT_REPLAY}, assume_after=False)
        if not (len(calc) == 1 and len(upd) == 1 and len(runs) == 1 and len(sims) == 1):
            return
        s, t, wv = calc[0]
        p, proc = upd[0]
        st.oblige("fitness.loop.candidate_parameters_applied", bool(isinstance(p, VOpaque) and p.t is not None and z3.eq(p.t, FM.PARAM)), {"replay": FIT_REPLAY}, assume_after=False)
        st.oblige("fitness.loop.pair[processor k]", (proc.t == FM.PROC(k)) if isinstance(proc, VSym) else False, {"replay": FIT_REPLAY}, assume_after=False)
        st.oblige("fitness.loop.pair[target k]", (t.t == FM.TGT(k)) if isinstance(t, VOpaque) and t.t is not None else False, {"replay": FIT_REPLAY}, assume_after=False)
        rp = runs[0].get("processor")
        st.oblige("fitness.loop.simulates_the_updated_copy", (rp.t == FM.UPD(FM.PARAM, FM.PROC(k))) if isinstance(rp, VSym) else False, {"replay": FIT_REPLAY}, assume_after=False)
        st.oblige("fitness.loop.own_simulated_data", (s.t == FM.SIM(FM.RUN(FM.UPD(FM.PARAM, FM.PROC(k))), FM.flag(k))) if isinstance(s, VOpaque) and s.t is not None else False,
                  {"replay": FIT_REPLAY}, assume_after=False)
        kw = runs[0]
        me = st.cell(ex.fit["self"]).fields
        st.oblige("fitness.loop.exposure_arguments", bool(kw.get("pipeline_seed") is me["pipeline_seed"] and kw.get("readout") is ex.fit["readout"] and isinstance(kw.get("outputs"), VNone)
                                                        and isinstance(kw.get("with_inherited_coords"), VBool) and z3.eq(z_bool(kw["with_inherited_coords"].v), FM.WIC)
                                                        and isinstance(kw.get("debug"), VBool) and kw["debug"].v is False),
                  {"replay": FIT_REPLAY}, assume_after=False)
        st.oblige("fitness.loop.own_weight", FM.weight_token(ex, wv) == FM.weight(k), {"replay": FIT_REPLAY, "witness": {"weight_mode": FM.WMODE}}, assume_after=False)
        rec.clear()
    cfg.loops[(fi.qualname, 0)].after_body = after
    base_h = cfg.loops[(fi.qualname, 0)].havoc

    def hav(ex, fr, k):
        base_h(ex, fr, k)
        rec.clear()
    cfg.loops[(fi.qualname, 0)].havoc = hav
    u.internal_replay, u.internal_witness = FIT_REPLAY, {"weight_mode": FM.WMODE}
    ps = u.paths(fi, lambda ex: FM.setup(u, ex), cfg, label="ModelFittingDataTree.fitness")
    n = z3.If(FM.NP < FM.NT, FM.NP, FM.NT)
    for p in ps:
        if p.kind != "return":
            u.oblige(p, "fitness.no_raise_without_model_failure", False, {"exc": p.exc_name()}, FIT_REPLAY)
            continue
        items = p.ex.try_list(p.value)
        ok = items is not None and len(items) == 1 and isinstance(items[0], VFloat)
        u.oblige(p, "fitness.sum_over_pairs", z3.And(zb(ok), to_real(items[0]) == FM.SUM(n)) if ok else False, {"n_processors": FM.NP, "n_targets": FM.NT}, FIT_REPLAY)
    u.cover("fitness.cover", ps, lambda p: p.kind == "return")
    u.assume_note("'all target files': the loop pairs by zip(strict=False), i.e. min(#processors, #targets) pairs; equal counts (one input-argument value per target file) is "
                  "the declared configuration and is NOT enforced by the code")


@unit("C11", "sim_data")
def sim_data(u: Unit):
    """_get_simulated_data: the declared output container of THIS run's tree ('/bucket/<name>' in the hierarchical layout),
    restricted by the declared result fit range (isel with exactly its time / y / x slices) when one is declared."""
    from pyvc import lib as L
    fi = u.fn(f"{FM.FD}::ModelFittingDataTree._get_simulated_data")
    mci = u.cls(f"{FM.FD}::ModelFittingDataTree")
    for out in ("image", "signal", "pixel"):
        for has_range in (True, False):
            cfg = Cfg("real")
            boundary.install(cfg)
            cfg.lib_overrides["builtins.isinstance"] = lambda ex, f, args, kwargs, fr: VBool(True) if isinstance(args[0], VOpaque) and args[0].kind == "xr" else L.isinstance_(ex, args[0], args[1])
            hold = {}

            def setup(ex, out=out, has_range=has_range):
                rng = mk_range(ex, u, 3, "o") if has_range else NONE
                ex.hold = {"rng": rng, "tree": VOpaque("xr", ex.st.fresh_int("xr"), {"label": "data_tree"})}
                me = ex.st.alloc(HObj(mci, {"sim_output": VStr(out), "sim_fit_range": rng, "targ_fit_range": mk_range(ex, u, 3, "t")}))
                return [me], {"data": ex.hold["tree"], "with_inherited_coords": VBool(z3.Bool("wic"))}
            ps = u.paths(fi, setup, cfg, label=f"_get_simulated_data[{out},range={has_range}]")
            n_ret = 0
            for p in ps:
                if p.kind != "return":
                    continue          # missing y/x dimension: ValueError (boundary decides)
                n_ret += 1
                v = p.value
                hold = p.ex.hold
                sel = None
                if has_range:
                    fn_ = v.info.get("fn") if isinstance(v, VOpaque) else None
                    sl_ = isel_slices(p, v) if fn_ is not None and str(fn_.info.get("attr")) == "isel" else None
                    ok_isel = sl_ is not None
                    want = p.st.cell(hold["rng"]).fields
                    ok_dict = ok_isel and sl_.keys() == {"time", "y", "x"} and all({"time": want["time"], "y": want["row"], "x": want["col"]}[k] is x for k, x in sl_.items())
                    u.oblige(p, f"sim_data.restricted_to_result_range[{out}]", bool(ok_isel and ok_dict), {}, FIT_REPLAY)
                    sel = fn_.info.get("of") if ok_isel else None
                else:
                    sel = v
                ok_key = isinstance(sel, VOpaque) and sel.info.get("of") is hold["tree"] and isinstance(sel.info.get("key"), VStr)
                key = sel.info["key"].v if ok_key else None
                wic = p.ex.truth(VBool(z3.Bool("wic")))
                goal = z3.If(z3.Bool("wic"), z_str(key) == f"/bucket/{out}", z_str(key) == out) if ok_key else False
                u.oblige(p, f"sim_data.declared_container[{out},range={has_range}]", goal, {"wic": z3.Bool("wic")}, FIT_REPLAY)
            u.cover(f"sim_data.cover[{out},{has_range}]", [1] * n_ret, lambda _: True)


SIM_ARR = z3.Function("values_of", z3.IntSort(), z3.IntSort(), z3.IntSort(), z3.RealSort())


@unit("C11", "calc")
def calc(u: Unit):
    """_calculate_fitness (image / signal / pixel outputs): the configured fitness function receives the values of the given
    simulated data, the given target and the given weighting (all ones when none is declared), as float arrays."""
    from pyvc import arrays as A
    fi = u.fn(f"{FM.FD}::ModelFittingDataTree._calculate_fitness")
    mci = u.cls(f"{FM.FD}::ModelFittingDataTree")
    for has_w in (True, False):
        cfg = Cfg("real")
        boundary.install(cfg)

        def arr_of(ex, v, dtype, fr):
            if isinstance(v, VOpaque) and v.kind == "xr" and v.t is not None:
                return A.new_array(ex, (R, Cc), dtype or VDtype("float64"), lambda ix, t=v.t: VFloat(SIM_ARR(t, z_int(ix[0]), z_int(ix[1]))))
            raise Unsupported("np.array of an unknown object")
        cfg.lib_overrides[("np.array_of",)] = arr_of
        hold = {}

        def setup(ex, has_w=has_w):
            ex.st.assume(z3.And(R > 0, Cc > 0))
            ex.hold = {"ff": VOpaque("xr", ex.st.fresh_int("xr"), {"label": "fitness_func"})}
            me = ex.st.alloc(HObj(mci, {"sim_output": VStr("image"), "fitness_func": ex.hold["ff"]}))
            wref, wf = frame(ex, "weights_given") if has_w else (NONE, None)
            ex.hold["wf"] = wf
            return [me], {"simulated_data": VOpaque("xr", z3.Int("sim_tok"), {"label": "sim"}), "target_data": VOpaque("xr", z3.Int("tgt_tok"), {"label": "tgt"}), "weighting": wref}
        ps = u.paths(fi, setup, cfg, label=f"_calculate_fitness[weights={has_w}]")
        gy, gx = z3.Int("gy"), z3.Int("gx")
        for p in ps:
            if p.kind != "return":
                u.oblige(p, f"calc.no_raise[{has_w}]", False, {"exc": p.exc_name()}, FIT_REPLAY)
                continue
            hold = p.ex.hold
            calls = [e for e in p.st.events if e[0] == "xr_call" and e[-1] is hold["ff"]]
            ok = len(calls) == 1 and not calls[0][2] and set(calls[0][3]) == {"simulated", "target", "weighting"} and all(p.ex.is_arr(x) for x in calls[0][3].values())
            if not ok:
                u.oblige(p, f"calc.declared_function_on_declared_data[{has_w}]", False, {}, FIT_REPLAY)
                continue
            kw = {k: p.st.cell(x) for k, x in calls[0][3].items()}
            inb = z3.And(gy >= 0, gy < R, gx >= 0, gx < Cc)
            wv = hold["wf"](gy, gx) if has_w else z3.RealVal(1)
            goal = z3.And(to_real(kw["simulated"].elem((gy, gx))) == SIM_ARR(z3.Int("sim_tok"), gy, gx), to_real(kw["target"].elem((gy, gx))) == SIM_ARR(z3.Int("tgt_tok"), gy, gx),
                          to_real(kw["weighting"].elem((gy, gx))) == wv)
            u.oblige(p, f"calc.declared_function_on_declared_data[{has_w}]", z3.Implies(inb, goal), {}, FIT_REPLAY)
            u.oblige(p, f"calc.returns_its_value[{has_w}]", bool(isinstance(p.value, VOpaque) and p.value.info.get("fn") is hold["ff"]), {}, FIT_REPLAY)
        u.cover(f"calc.cover[{has_w}]", ps, lambda p: p.kind == "return")


@unit("C11", "init")
def init_unit(u: Unit):
    """ModelFittingDataTree.__init__ (single-readout targets): targets come from the DECLARED target files, are restricted
    by the declared target fit range, the result fit range is the declared one, the ranges are checked (so unequal / out of
    bounds ranges are rejected here, before any optimisation), the per-target processors come from build_processors on the
    declared input arguments, and the declared weights reach _configure_weights.
    (Multi-readout targets: at this snapshot the constructor raises ValueError for them — dimension 'readout_time' vs the
    range's 'time' — so nothing is computed; noted in DESIGN.md, outside this obligation.)"""
    fi = u.fn(f"{FM.FD}::ModelFittingDataTree.__init__")
    u.fn(f"{FM.FD}::ModelFittingDataTree._configure_weights")
    mci = u.cls(f"{FM.FD}::ModelFittingDataTree")
    rci = u.cls("pyxel/exposure/readout.py::Readout")
    for with_inputs in (True, False):
        for wkind in ("none", "numbers", "files"):
            cfg = Cfg("real")
            boundary.install(cfg)
            M = f"{FM.FD}::ModelFittingDataTree."

            def mk(name, label):
                def apply(ex, args, kwargs, fr, name=name, label=label):
                    ex.hold.setdefault("calls", []).append((name, list(args), dict(kwargs)))
                    return VOpaque("xr", ex.st.fresh_int("xr"), {"label": label, "args": list(args), "kwargs": dict(kwargs)})
                return apply
            cfg.contracts[M + "_set_bound"] = Contract(M + "_set_bound", lambda ex, args, kwargs, fr: VTuple([VOpaque("xr", ex.st.fresh_int("lb"), {"label": "lower"}), VOpaque("xr", ex.st.fresh_int("ub"), {"label": "upper"})]), "C10")
            cfg.contracts[f"{FM.FD}::build_processors"] = Contract(f"{FM.FD}::build_processors", mk("build_processors", "processors"), "C06/C11: one processor per input-argument value")
            cfg.contracts[f"{UTIL}::create_processor_data_array"] = Contract(f"{UTIL}::create_processor_data_array", mk("create_processor_data_array", "targets"), "C11.targets")
            cfg.contracts[f"{UTIL}::check_fit_ranges"] = Contract(f"{UTIL}::check_fit_ranges", lambda ex, args, kwargs, fr: (ex.hold.setdefault("calls", []).append(("check_fit_ranges", list(args), dict(kwargs))), NONE)[1], "C11.ranges")
            cfg.lib_overrides[("deepcopy", "xr")] = lambda ex, v, dc, fr: VOpaque("xr", ex.st.fresh_int("xr"), dict(v.info, copied_from=v))

            def setup(ex, with_inputs=with_inputs, wkind=wkind):
                o = lambda l, **kw: VOpaque("xr", ex.st.fresh_int("xr"), dict(label=l, **kw))
                h = ex.hold = {"calls": []}
                h["processor"], h["files"], h["fitfn"] = o("processor", truthy=True), o("target_filenames", truthy=True), o("fitness_func")
                h["trange"], h["orange"] = mk_range(ex, u, 2, "t"), mk_range(ex, u, 3, "o")
                h["inputs"] = o("input_arguments", truthy=True) if with_inputs else NONE
                h["weights"] = ex.st.alloc(HList([VFloat(z3.Real("w0")), VFloat(z3.Real("w1"))])) if wkind == "numbers" else NONE
                h["wfiles"] = o("weights_from_file", truthy=True) if wkind == "files" else NONE
                readout = ex.st.alloc(HObj(rci, {"_time_domain_simulation": VBool(False)}))
                me = ex.st.alloc(HObj(mci, {}))
                h["me"] = me
                return [me], {"processor": h["processor"], "variables": ex.st.alloc(HList([])), "readout": readout, "simulation_output": VStr("image"), "generations": VInt(3),
                              "population_size": VInt(10), "fitness_func": h["fitfn"], "file_path": NONE, "target_fit_range": h["trange"], "out_fit_range": h["orange"],
                              "target_filenames": h["files"], "input_arguments": h["inputs"], "weights": h["weights"], "weights_from_file": h["wfiles"],
                              "pipeline_seed": VInt(z3.Int("seed")), "with_inherited_coords": VBool(z3.Bool("wic"))}
            tag = f"{'inputs' if with_inputs else 'no_inputs'},{wkind}"
            ps = u.paths(fi, setup, cfg, label=f"ModelFittingDataTree.__init__[{tag}]")
            for p in ps:
                if p.kind != "return":
                    u.oblige(p, f"init.no_raise[{tag}]", False, {"exc": p.exc_name()}, FIT_REPLAY)
                    continue
                h, st = p.ex.hold, p.st
                me = st.cell(h["me"]).fields
                calls = h["calls"]
                cp = [c for c in calls if c[0] == "create_processor_data_array"]
                tcalls = [c for c in cp if (c[2].get("filenames") if "filenames" in c[2] else (c[1][0] if c[1] else None)) is h["files"]]
                u.oblige(p, f"init.targets_from_declared_files[{tag}]", bool(len(tcalls) == 1), {}, FIT_REPLAY)
                atd = me.get("all_target_data")
                ok = isinstance(atd, VOpaque) and atd.info.get("fn") is not None and str(atd.info["fn"].info.get("attr")) == "isel" and isinstance(atd.info["fn"].info.get("of"), VOpaque) \
                    and atd.info["fn"].info["of"].info.get("label") == "targets"
                if ok:
                    sl_ = isel_slices(p, atd)
                    want = st.cell(h["trange"]).fields
                    ok = sl_ is not None and set(sl_) == {"y", "x"} and all({"y": want["row"], "x": want["col"]}[k] is x for k, x in sl_.items())
                u.oblige(p, f"init.targets_restricted_to_target_range[{tag}]", bool(ok), {}, FIT_REPLAY)
                ps_ = me.get("pipeline_seed")
                u.oblige(p, f"init.seed_and_layout_kept[{tag}]", bool(isinstance(ps_, VInt) and z3.eq(z_int(ps_.v), z3.Int("seed")) and isinstance(me.get("_with_inherited_coords"), VBool)
                                                                      and z3.eq(z_bool(me["_with_inherited_coords"].v), z3.Bool("wic")) and me.get("fitness_func") is h["fitfn"]), {}, FIT_REPLAY)
                u.oblige(p, f"init.declared_ranges_kept[{tag}]", bool(me.get("sim_fit_range") is h["orange"] and me.get("targ_fit_range") is h["trange"]), {}, FIT_REPLAY)
                ck = [c for c in calls if c[0] == "check_fit_ranges"]
                u.oblige(p, f"init.ranges_checked[{tag}]", bool(len(ck) == 1 and ck[0][2].get("target_fit_range") is h["trange"] and ck[0][2].get("out_fit_range") is h["orange"]), {}, FIT_REPLAY)
                ppl = me.get("param_processor_list")
                if with_inputs:
                    bp = [c for c in calls if c[0] == "build_processors"]
                    okp = len(bp) == 1 and bp[0][2].get("processor") is h["processor"] and bp[0][2].get("arguments") is h["inputs"] and isinstance(ppl, VOpaque) and ppl.info.get("label") == "processors"
                else:
                    items = p.ex.try_list(ppl) if isinstance(ppl, VRef) else None
                    okp = items is not None and len(items) == 1 and isinstance(items[0], VOpaque) and items[0].info.get("copied_from") is h["processor"]
                u.oblige(p, f"init.processors_from_declared_inputs[{tag}]", bool(okp), {}, FIT_REPLAY)
                if wkind == "numbers":
                    w = me.get("weighting")
                    okw = isinstance(w, VRef) and isinstance(st.cell(w), HArr) and st.cell(w).shape[0] == 2 and \
                        all(z3.eq(z3.simplify(to_real(st.cell(w).elem((z3.IntVal(i),)))), z3.Real(f"w{i}")) for i in range(2))
                    u.oblige(p, f"init.declared_weights_kept[{tag}]", bool(okw), {}, FIT_REPLAY)
                elif wkind == "files":
                    w = me.get("weighting_from_file")
                    okw = isinstance(w, VOpaque) and w.info.get("fn") is not None and str(w.info["fn"].info.get("attr")) == "isel" and \
                        any(c[2].get("filenames", c[1][0] if c[1] else None) is h["wfiles"] and w.info["fn"].info.get("of") is not None for c in cp)
                    u.oblige(p, f"init.declared_weights_kept[{tag}]", bool(okw), {}, FIT_REPLAY)
                    # the weight maps multiply (simulated - target) element by element: they are the TARGET's companions and are
                    # cut with the declared TARGET range (rows / columns), whichever way isel receives the slices
                    sl = None
                    if okw and len(w.info.get("args") or []) <= 1:
                        kws = dict(w.info.get("kwargs", {}))
                        if w.info.get("args") and not kws:              # isel(indexers) given by position
                            kws = {"indexers": w.info["args"][0]}
                        elif w.info.get("args"):
                            kws = {"?": None}
                        if set(kws) == {"indexers"}:
                            d = p.ex.try_dict(kws["indexers"])
                            sl = {k.v: x for k, x in d} if d is not None and all(isinstance(k, VStr) for k, _ in d) else None
                        elif "indexers" not in kws:
                            sl = kws
                    want = st.cell(h["trange"]).fields
                    u.oblige(p, f"init.weight_maps_restricted_to_target_range[{tag}]", bool(sl is not None and set(sl) == {"y", "x"} and sl["y"] is want["row"] and sl["x"] is want["col"]), {}, FIT_REPLAY)
                else:
                    u.oblige(p, f"init.declared_weights_kept[{tag}]", bool(isinstance(me.get("weighting"), VNone) and isinstance(me.get("weighting_from_file"), VNone)), {}, FIT_REPLAY)
            u.cover(f"init.cover[{tag}]", ps, lambda p: p.kind == "return")


@unit("C11", "build_processors")
def build_processors_unit(u: Unit):
    """build_processors: processor i is a deep copy of the caller's processor on which every input argument is set to ITS
    i-th declared value (each target paired with its own input arguments); lists of 1..3 values, 1..2 arguments."""
    fi = u.fn(f"{FM.FD}::build_processors")
    pvc = u.cls("pyxel/observation/parameter_values.py::ParameterValues")
    for nargs in (1, 2):
        for nvals in (1, 2, 3):
            cfg = Cfg("real")
            boundary.install(cfg)
            cfg.lib_overrides[("deepcopy", "xr")] = lambda ex, v, dc, fr: VOpaque("xr", ex.st.fresh_int("xr"), dict(v.info, copied_from=v, label="copy"))

            def setup(ex, nargs=nargs, nvals=nvals):
                h = ex.hold = {"processor": VOpaque("xr", ex.st.fresh_int("xr"), {"label": "processor", "truthy": True})}
                steps = []
                for a in range(nargs):
                    vals = [VFloat(z3.Real(f"in{a}_{i}")) for i in range(nvals)]
                    steps.append(ex.st.alloc(HObj(pvc, {"_key": VStr(z3.String(f"input_key{a}")), "_values": ex.st.alloc(HList(vals)), "_enabled": VBool(True), "_current": NONE,
                                                        "_logarithmic": VBool(False), "_boundaries": NONE, "_type": VStr("float")})))
                return [], {"processor": h["processor"], "arguments": ex.st.alloc(HList(steps))}
            ps = u.paths(fi, setup, cfg, label=f"build_processors[{nargs}x{nvals}]")
            for p in ps:
                if p.kind != "return":
                    u.oblige(p, f"build_processors.no_raise[{nargs}x{nvals}]", False, {"exc": p.exc_name()}, FIT_REPLAY)
                    continue
                out = p.ex.try_list(p.value)
                ok = out is not None and len(out) == nvals and all(isinstance(x, VOpaque) and x.info.get("copied_from") is p.ex.hold["processor"] for x in out) \
                    and len({id(x) for x in out}) == nvals
                u.oblige(p, f"build_processors.one_copy_per_value[{nargs}x{nvals}]", bool(ok), {}, FIT_REPLAY)
                if not ok:
                    continue
                good = True
                for i, proc in enumerate(out):
                    sets = [e for e in p.st.events if e[0] == "xr_call" and str(e[1]).endswith(".set") and e[-1].info.get("of") is proc]
                    got = {}
                    for e in sets:
                        k, v = e[3].get("key"), e[3].get("value")
                        if isinstance(k, VStr) and isinstance(v, VFloat):
                            got[str(k.v)] = v.v
                    want = {f"input_key{a}": z3.Real(f"in{a}_{i}") for a in range(nargs)}
                    good = good and len(sets) == nargs and set(got) == set(want) and all(z3.eq(got[k], want[k]) for k in want)
                u.oblige(p, f"build_processors.own_input_arguments[{nargs}x{nvals}]", bool(good), {}, FIT_REPLAY)
            u.cover(f"build_processors.cover[{nargs}x{nvals}]", ps, lambda p: p.kind == "return")


@unit("C11", "resimulation")
def resimulation(u: Unit):
    """Re-simulating reported parameters (_apply_parameters, used for the champions after the last evolution) runs the SAME
    exposure as fitness does for that processor: update_processor(parameter, processor), the problem's readout and pipeline
    seed — so, given determinism for a fixed seed (C04), it reproduces the data the reported fitness was computed from."""
    rec = {}
    cfg, _ = FM.mk_cfg(u, rec)
    fi = u.fn(f"{FM.FD}::ModelFittingDataTree._apply_parameters")

    def setup(ex):
        args, _kw = FM.setup(u, ex)
        rec.clear()
        ex.hold = {"proc": VSym("fitproc", z3.Int("some_processor")), "param": VOpaque("xr", z3.Int("reported_parameters"), {"label": "parameters"})}
        return [args[0]], {"processor": ex.hold["proc"], "parameter": ex.hold["param"]}
    ps = u.paths(fi, setup, cfg, label="ModelFittingDataTree._apply_parameters")
    for p in ps:
        if p.kind != "return":
            u.oblige(p, "resimulation.no_raise", False, {"exc": p.exc_name()}, FIT_REPLAY)
            continue
        upd, runs = rec.get("upd", []), rec.get("runs", [])
        ok = len(upd) == 1 and upd[0][0] is p.ex.hold["param"] and upd[0][1] is p.ex.hold["proc"] and len(runs) == 1
        u.oblige(p, "resimulation.applies_the_reported_parameters", bool(ok), {}, FIT_REPLAY)
        if not ok:
            continue
        kw = runs[0]
        me = p.st.cell(p.ex.fit["self"]).fields
        same = isinstance(kw.get("processor"), VSym) and z3.eq(kw["processor"].t, FM.UPD(z3.Int("reported_parameters"), z3.Int("some_processor"))) and kw.get("readout") is p.ex.fit["readout"] \
            and kw.get("pipeline_seed") is me["pipeline_seed"] and isinstance(kw.get("outputs"), VNone)
        u.oblige(p, "resimulation.same_exposure_as_fitness", bool(same), {}, FIT_REPLAY)
        u.oblige(p, "resimulation.returns_that_run", bool(isinstance(p.value, VOpaque) and p.value.t is not None and z3.eq(p.value.t, FM.RUN(FM.UPD(z3.Int("reported_parameters"), z3.Int("some_processor"))))), {}, FIT_REPLAY)
    u.cover("resimulation.cover", ps, lambda p: p.kind == "return")


# run_evolve: which evolution's champions are reported, what is re-simulated, which node holds what (provenance obligations)
from . import calibreport as _CR  # noqa: E402
unit("C11", "run_evolve")(_CR.evolve_unit)
unit("C11", "resimulation.pairs")(_CR.pairs_unit)
unit("C11", "extract")(_CR.extract_unit)
STANDIN = {r"run_evolve": _CR.EVOLVE_REPLAY, r"resimulation\.pairs|extract": _CR.PAIRS_REPLAY}


from . import calibreport as _CRc  # noqa: E402
unit("C11", "calibration.ctor")(_CRc.calibration_ctor_unit)      # Calibration.__init__ keeps the seeds / settings it is given (0 included)


# ---- the declared fit ranges become the range objects: FitRange2D/3D.from_sequence, to_fit_range ------------------------------------------
SEQ_REPLAY = lambda w: {"code": """
from pyxel.calibration.util import FitRange2D, FitRange3D, to_fit_range
VIOLATED, DETAIL = False, 'declared [.., row start, row stop, col start, col stop] lists become exactly those slices'
def sl(r): return tuple((s.start, s.stop, s.step) for s in r.to_slices())
cases = [(FitRange2D.from_sequence, [1, 5, 2, 7], ((1, 5, None), (2, 7, None))), (FitRange2D.from_sequence, [0, 0, 0, 0], ((0, 0, None), (0, 0, None))),
         (FitRange2D.from_sequence, [], ((None, None, None), (None, None, None))), (FitRange2D.from_sequence, None, ((None, None, None), (None, None, None))),
         (FitRange3D.from_sequence, [3, 9, 1, 5, 2, 7], ((3, 9, None), (1, 5, None), (2, 7, None))), (FitRange3D.from_sequence, [1, 5, 2, 7], ((None, None, None), (1, 5, None), (2, 7, None))),
         (FitRange3D.from_sequence, [], ((None, None, None),) * 3), (to_fit_range, [1, 5, 2, 7], ((1, 5, None), (2, 7, None))), (to_fit_range, [3, 9, 1, 5, 2, 7], ((3, 9, None), (1, 5, None), (2, 7, None))),
         (to_fit_range, None, ((None, None, None), (None, None, None))), (to_fit_range, [], ((None, None, None), (None, None, None)))]
for f, arg, want in cases:
    got = sl(f(arg))
    if got != want:
        VIOLATED, DETAIL = True, f'{f.__qualname__}({arg}) -> slices {got}, expected {want}'; break
if not VIOLATED:
    for f, bad in ((FitRange2D.from_sequence, [1, 2, 3]), (FitRange2D.from_sequence, [1, 2, 3, 4, 5, 6]), (FitRange3D.from_sequence, [1, 2, 3, 4, 5]), (FitRange3D.from_sequence, [1] * 7), (to_fit_range, [1, 2, 3, 4, 5]), (to_fit_range, [1, 2])):
        try:
            f(bad); VIOLATED, DETAIL = True, f'{f.__qualname__}({bad}) accepted'; break
        except ValueError:
            pass
""", "expect": "from_sequence / to_fit_range keep every bound at its own position; wrong lengths are refused"}


@unit("C11", "ranges.from_sequence")
def ranges_from_sequence(u: Unit):
    """FitRange2D.from_sequence, FitRange3D.from_sequence and to_fit_range for lists of 0..7 SYMBOLIC integers (and None): 4 values are
    (row start, row stop, col start, col stop), 6 values are (time start, time stop, row .., col ..), a 3-D range from 4 values has an
    open time range, nothing declared is the open range; every other length is a ValueError. Bounded in the list length only (the
    functions refuse every length but 0, 4, 6)."""
    f2, f3, ft = u.fn(f"{UTIL}::FitRange2D.from_sequence"), u.fn(f"{UTIL}::FitRange3D.from_sequence"), u.fn(f"{UTIL}::to_fit_range")
    c2, c3 = u.cls(f"{UTIL}::FitRange2D"), u.cls(f"{UTIL}::FitRange3D")
    D = [z3.Int(f"declared{i}") for i in range(7)]

    def expect(which, n):
        """field -> (start, stop) terms or None (open); None result = ValueError expected"""
        two = {4: {"row": (D[0], D[1]), "col": (D[2], D[3])}, 0: {"row": None, "col": None}}
        three = {6: {"time": (D[0], D[1]), "row": (D[2], D[3]), "col": (D[4], D[5])}, 4: {"time": None, "row": (D[0], D[1]), "col": (D[2], D[3])}, 0: {"time": None, "row": None, "col": None}}
        if which == "2D":
            return ("FitRange2D", two[n]) if n in two else None
        if which == "3D":
            return ("FitRange3D", three[n]) if n in three else None
        return ("FitRange2D", two[n]) if n in (0, 4) else ("FitRange3D", three[6]) if n == 6 else None
    for which, fi, owner in (("2D", f2, c2), ("3D", f3, c3), ("any", ft, None)):
        for n in [None] + list(range(8)):
            def setup(ex, n=n, owner=owner):
                arg = NONE if n is None else ex.st.alloc(HList([VInt(D[i]) for i in range(n)]))
                return ([VClass(owner)] if owner is not None else []) + [arg], {}
            tag = f"[{which},{'none' if n is None else n}]"
            ps = u.paths(fi, setup, Cfg("real"), label=f"{fi.name}{tag}")
            want = expect(which, 0 if n is None else n)
            for p in ps:
                if want is None:
                    u.oblige(p, f"ranges.from_sequence.refused{tag}", p.kind == "raise" and p.exc_name() == "ValueError", {"length": n, "outcome": p.kind}, SEQ_REPLAY)
                    continue
                if p.kind != "return" or not isinstance(p.value, VRef) or not isinstance(p.st.cell(p.value), HObj):
                    u.oblige(p, f"ranges.from_sequence.accepted{tag}", False, {"length": n, "exc": p.exc_name()}, SEQ_REPLAY)
                    continue
                o = p.st.cell(p.value)
                cname, fields = want
                goals = [zb(getattr(o.cls, "name", None) == cname and sorted(k for k in o.fields if not k.startswith("__")) == sorted(fields))]
                for k, be in fields.items():
                    s = o.fields.get(k)
                    if not isinstance(s, VSlice):
                        goals.append(z3.BoolVal(False))
                    elif be is None:
                        goals.append(zb(isinstance(s.lo, VNone) and isinstance(s.hi, VNone) and isinstance(s.step, VNone)))
                    else:
                        goals.append(z3.And(z_int(s.lo.v) == be[0], z_int(s.hi.v) == be[1], zb(isinstance(s.step, VNone))) if isinstance(s.lo, VInt) and isinstance(s.hi, VInt) else z3.BoolVal(False))
                u.oblige(p, f"ranges.from_sequence.positions{tag}", z3.And(*goals), {"length": n}, SEQ_REPLAY)
            u.cover(f"ranges.from_sequence.cover{tag}", ps, lambda p: True)


# ---- fit ranges with OPEN bounds (an omitted result_fit_range is the open range over the whole simulated frame) ---------------------------
OPEN_REPLAY = lambda w: {"code": """
from pyxel.calibration.util import FitRange2D, FitRange3D, check_fit_ranges
VIOLATED, DETAIL = False, 'an explicit target range is never accepted together with an open (omitted) result range: the frame it selects is the detector, whose size the check does not know'
rows, cols, times = 6, 5, 4              # size of the TARGET file; the simulated frame may have any other size
cases = [(FitRange2D(slice(0, 1), slice(0, 5)), FitRange3D(slice(None), slice(None), slice(None)), {}),
         (FitRange2D(slice(0, 6), slice(0, 5)), FitRange3D(slice(None), slice(None), slice(None)), {}),            # covers the whole target
         (FitRange2D(slice(2, 6), slice(0, 5)), FitRange2D(slice(None), slice(None)), {}),
         (FitRange3D(slice(0, 4), slice(0, 6), slice(0, 5)), FitRange3D(slice(None), slice(None), slice(None)), {'readout_times': times}),
         (FitRange3D(slice(0, 4), slice(0, 6), slice(0, 5)), FitRange3D(slice(0, 4), slice(None), slice(0, 5)), {'readout_times': times}),
         (FitRange2D(slice(0, 6), slice(0, 5)), FitRange2D(slice(0, 6), slice(None)), {})]
for t, o, extra in cases:
    try:
        check_fit_ranges(target_fit_range=t, out_fit_range=o, rows=rows, cols=cols, **extra)
        VIOLATED, DETAIL = True, f'accepted target {t} with result {o}: the open axis of the result selects the whole detector axis, which need not have the extent of the target range'
        break
    except Exception:
        pass
if not VIOLATED:
    # explicit bounds with an omitted START (start = 0) are ordinary ranges
    check_fit_ranges(target_fit_range=FitRange2D(slice(None, 3), slice(0, 5)), out_fit_range=FitRange3D(slice(None), slice(2, 5), slice(None, 5)), rows=rows, cols=cols)
    try:
        check_fit_ranges(target_fit_range=FitRange2D(slice(None, 3), slice(0, 5)), out_fit_range=FitRange2D(slice(None, 4), slice(0, 5)), rows=rows, cols=cols)
        VIOLATED, DETAIL = True, 'accepted ranges [:3] and [:4] of different extent'
    except ValueError:
        pass
""", "expect": "accepted pairs select regions of equal extent; an open result axis against an explicit target axis is refused"}


@unit("C11", "ranges.open")
def ranges_open(u: Unit):
    """check_fit_ranges with bounds left open. A bound that is None means: start -> 0, stop -> the full length of the axis of the array the
    range is applied to (the TARGET file for the target range, the simulated DETECTOR frame for the result range — a size the check is
    not told: arbitrary symbols det_rows / det_cols / det_times). Obligation: whenever the pair is ACCEPTED, the two ranges select
    regions of equal extent on every shared axis and the target range lies inside the target file. Modes per range: every bound explicit
    (unit `ranges`), starts omitted, fully open. Nothing is demanded of the KIND of refusal here."""
    fi = u.fn(f"{UTIL}::check_fit_ranges")
    u.fn(f"{UTIL}::_slice_extent")
    rows, cols, times = z3.Int("rows"), z3.Int("cols"), z3.Int("times")
    det = {"row": z3.Int("det_rows"), "col": z3.Int("det_cols"), "time": z3.Int("det_times")}
    tgt = {"row": rows, "col": cols, "time": times}

    def mk(ex, dims, prefix, mode):
        cname = "FitRange3D" if dims == 3 else "FitRange2D"
        ci = u.cls(f"{UTIL}::{cname}")
        kw = {}
        for ax in (["time"] if dims == 3 else []) + ["row", "col"]:
            lo, hi = z3.Int(f"{prefix}_{ax}_start"), z3.Int(f"{prefix}_{ax}_stop")
            ex.st.assume(z3.And(lo >= 0, lo <= hi))
            kw[ax] = VSlice(VInt(lo), VInt(hi), NONE) if mode == "explicit" else VSlice(NONE, VInt(hi), NONE) if mode == "no start" else VSlice(NONE, NONE, NONE)
        return ex.instantiate(ci, [], kw, Frame(None, ci.module))

    def extent(prefix, ax, mode, full):
        hi, lo = z3.Int(f"{prefix}_{ax}_stop"), z3.Int(f"{prefix}_{ax}_start")
        return hi - lo if mode == "explicit" else hi if mode == "no start" else full[ax]
    for td in (2, 3):
        for od in (2, 3):
            for tm in ("explicit", "no start", "open"):
                for om in ("explicit", "no start", "open"):
                    if tm == om == "explicit":
                        continue

                    def setup(ex, td=td, od=od, tm=tm, om=om):
                        ex.st.assume(z3.And(rows > 0, cols > 0, times > 0, det["row"] > 0, det["col"] > 0, det["time"] > 0))
                        t, o = mk(ex, td, "t", tm), mk(ex, od, "o", om)
                        kw = {"target_fit_range": t, "out_fit_range": o, "rows": VInt(rows), "cols": VInt(cols)}
                        if td == 3:
                            kw["readout_times"] = VInt(times)
                        return [], kw
                    tag = f"[{td}D {tm},{od}D {om}]"
                    ps = u.paths(fi, setup, Cfg("real"), label=f"check_fit_ranges{tag}")
                    shared = ["row", "col"] + (["time"] if td == 3 and od == 3 else [])
                    n_acc = 0
                    for p in ps:
                        if p.kind != "return":
                            continue
                        n_acc += 1
                        w = {"rows": rows, "cols": cols, "times": times, "det_rows": det["row"], "det_cols": det["col"]}
                        u.oblige(p, f"ranges.open.accept_implies_equal_extent{tag}", z3.And(*[extent("t", a, tm, tgt) == extent("o", a, om, det) for a in shared]), w, OPEN_REPLAY)
                        if tm != "open":
                            inside = [z3.Int("t_row_stop") <= rows, z3.Int("t_col_stop") <= cols] + ([z3.Int("t_time_stop") <= times] if td == 3 else [])
                            u.oblige(p, f"ranges.open.accept_implies_inside_target{tag}", z3.And(*inside), w, OPEN_REPLAY)
                    u.static(f"ranges.open.explored{tag}", len(ps) >= 1, fi.qualname, f"{len(ps)} paths, {n_acc} accepting")
unit("C11", "resimulation.layout")(_CR.layout_unit)      # the returned simulated data can be read from the tree the re-simulation produces
# "the champion fitness reported after each evolution is never worse than before" rests on the reported champions being the archipelago's
# own champions (best individual EVER seen per island: pygmo's contract, trusted) and not, e.g., the best of the current population
unit("C11", "report.champions")(_CR.champions_unit)
STANDIN = dict(globals().get("STANDIN", {}), **{r"report\.": _CR.CHAMP_REPLAY})
